//! C20: the SSH password and the TLS client private key never appear in the log text.
//!
//! * real connection attempts (`Session::ssh`, `Session::tls`, local CLI) run under a capturing `tracing`
//!   subscriber (fmt layer into a buffer + a metadata layer) at TRACE and under several `EnvFilter` directives;
//!   the peers (loopback russh / rustls servers) live on another thread without subscriber, so that what is
//!   captured is what the *client side* (library + its dependencies, `log` records included) emits;
//! * the real agent binary is run with mis-wired and damaged PEM files, stderr and log file captured;
//! * everything captured is searched for every secret in clear, Debug-escaped, hex, base64 and byte-list form;
//! * every callsite of netconf/junos-agent seen at run time is checked against the generated table (`specsite`).
use std::{
    collections::BTreeSet,
    fmt::Write as _,
    io::Write as _,
    path::PathBuf,
    process::{Command, Stdio},
    sync::{Arc, Mutex},
    time::{Duration, Instant},
};

use netconf::{transport::Password, Session};
use rustls_pki_types::{CertificateDer, PrivateKeyDer};
use tokio::io::{AsyncReadExt, AsyncWriteExt};
use tokio_rustls::{
    rustls::{server::WebPkiClientVerifier, RootCertStore, ServerConfig},
    TlsAcceptor,
};
use tracing_subscriber::{layer::SubscriberExt, EnvFilter, Layer};

use crate::{tlsserver::CERT_DIR, util::*};

const HELLO: &str = "<hello xmlns=\"urn:ietf:params:xml:ns:netconf:base:1.0\"><capabilities><capability>urn:ietf:params:netconf:base:1.0</capability></capabilities><session-id>4</session-id></hello>]]>]]>";

fn ok_reply(id: &str) -> String {
    format!("<rpc-reply xmlns=\"urn:ietf:params:xml:ns:netconf:base:1.0\" message-id=\"{id}\"><ok/></rpc-reply>]]>]]>")
}

// ------------------------------------------------------------------------------------------------------------
// encodings of a secret
fn b64(data: &[u8], url: bool, pad: bool) -> String {
    let abc: &[u8] = if url {
        b"ABCDEFGHIJKLMNOPQRSTUVWXYZabcdefghijklmnopqrstuvwxyz0123456789-_"
    } else {
        b"ABCDEFGHIJKLMNOPQRSTUVWXYZabcdefghijklmnopqrstuvwxyz0123456789+/"
    };
    let mut out = String::new();
    for c in data.chunks(3) {
        let n = (c[0] as u32) << 16
            | (*c.get(1).unwrap_or(&0) as u32) << 8
            | *c.get(2).unwrap_or(&0) as u32;
        out.push(abc[(n >> 18) as usize & 63] as char);
        out.push(abc[(n >> 12) as usize & 63] as char);
        if c.len() > 1 {
            out.push(abc[(n >> 6) as usize & 63] as char);
        } else if pad {
            out.push('=');
        }
        if c.len() > 2 {
            out.push(abc[n as usize & 63] as char);
        } else if pad {
            out.push('=');
        }
    }
    out
}

fn unb64(text: &str) -> Vec<u8> {
    let mut acc = 0u32;
    let mut bits = 0;
    let mut out = vec![];
    for ch in text.bytes() {
        let v = match ch {
            b'A'..=b'Z' => ch - b'A',
            b'a'..=b'z' => ch - b'a' + 26,
            b'0'..=b'9' => ch - b'0' + 52,
            b'+' => 62,
            b'/' => 63,
            _ => continue,
        };
        acc = acc << 6 | v as u32;
        bits += 6;
        if bits >= 8 {
            bits -= 8;
            out.push((acc >> bits) as u8);
            acc &= (1 << bits) - 1;
        }
    }
    out
}

fn hexsep(bs: &[u8], upper: bool, sep: &str) -> String {
    bs.iter()
        .map(|b| {
            if upper {
                format!("{b:02X}")
            } else {
                format!("{b:02x}")
            }
        })
        .collect::<Vec<_>>()
        .join(sep)
}

/// (encoding name, needle). Needles are searched in the raw text and, with all whitespace removed from both, in
/// the whitespace-stripped text (pretty-printed `{:#?}` byte lists).
fn encodings(bytes: &[u8]) -> Vec<(String, String)> {
    let mut v: Vec<(String, String)> = vec![];
    if let Ok(s) = std::str::from_utf8(bytes) {
        v.push(("clear".into(), s.to_string()));
        let d = format!("{s:?}");
        v.push(("clear-debug-escaped".into(), d[1..d.len() - 1].to_string()));
        v.push((
            "clear-escape-default".into(),
            s.escape_default().to_string(),
        ));
        v.push((
            "clear-escape-unicode".into(),
            s.chars()
                .map(|c| {
                    if c.is_ascii() {
                        c.to_string()
                    } else {
                        c.escape_unicode().to_string()
                    }
                })
                .collect(),
        ));
    }
    v.push(("hex-lower".into(), hexsep(bytes, false, "")));
    v.push(("hex-upper".into(), hexsep(bytes, true, "")));
    v.push(("hex-lower-space".into(), hexsep(bytes, false, " ")));
    v.push(("hex-lower-colon".into(), hexsep(bytes, false, ":")));
    v.push(("hex-upper-colon".into(), hexsep(bytes, true, ":")));
    v.push((
        "hex-0x-list".into(),
        bytes
            .iter()
            .map(|b| format!("0x{b:02x}"))
            .collect::<Vec<_>>()
            .join(", "),
    ));
    v.push(("base64-std-pad".into(), b64(bytes, false, true)));
    v.push(("base64-std-nopad".into(), b64(bytes, false, false)));
    v.push(("base64-url-pad".into(), b64(bytes, true, true)));
    v.push(("base64-url-nopad".into(), b64(bytes, true, false)));
    v.push((
        "byte-list".into(),
        bytes
            .iter()
            .map(|b| b.to_string())
            .collect::<Vec<_>>()
            .join(", "),
    ));
    v.push((
        "byte-list-nospace".into(),
        bytes
            .iter()
            .map(|b| b.to_string())
            .collect::<Vec<_>>()
            .join(","),
    ));
    v.retain(|(_, n)| n.len() >= 8);
    v.sort();
    v.dedup_by(|a, b| a.1 == b.1);
    v
}

#[derive(Clone)]
pub struct Secret {
    pub name: String,
    pub needles: Vec<(String, String)>,
}

fn password_secret(pw: &str) -> Secret {
    Secret {
        name: "ssh-password".into(),
        needles: encodings(pw.as_bytes()),
    }
}

/// DER TLV at `pos`: (tag, content start, content end)
fn tlv(d: &[u8], pos: usize) -> Option<(u8, usize, usize)> {
    let tag = *d.get(pos)?;
    let l0 = *d.get(pos + 1)? as usize;
    let (len, hdr) = if l0 < 0x80 {
        (l0, 2)
    } else {
        let n = l0 & 0x7f;
        if n == 0 || n > 4 {
            return None;
        }
        let mut len = 0usize;
        for i in 0..n {
            len = len << 8 | *d.get(pos + 2 + i)? as usize;
        }
        (len, 2 + n)
    };
    let start = pos + hdr;
    if start + len > d.len() {
        return None;
    }
    Some((tag, start, start + len))
}

fn children(d: &[u8], a: usize, b: usize) -> Vec<(u8, usize, usize, usize)> {
    // (tag, tlv start, content start, content end)
    let mut v = vec![];
    let mut p = a;
    while p < b {
        let Some((t, cs, ce)) = tlv(d, p) else { break };
        v.push((t, p, cs, ce));
        p = ce;
    }
    v
}

/// byte ranges of the DER encoding that hold *private* material (RSA d,p,q,dP,dQ,qInv; EC private scalar; Ed25519
/// seed). The modulus / public point / algorithm identifier are public (they are in the certificate as well).
/// Falls back to the whole encoding if the structure is not recognised.
fn private_regions(der: &[u8]) -> Vec<(usize, usize)> {
    fn key_body(d: &[u8], a: usize, b: usize) -> Option<Vec<(usize, usize)>> {
        // RSAPrivateKey / ECPrivateKey, both a SEQUENCE starting with an INTEGER version
        let (t, cs, ce) = tlv(d, a)?;
        if t != 0x30 || ce > b {
            return None;
        }
        let ch = children(d, cs, ce);
        if ch.len() >= 9 && ch.iter().take(9).all(|c| c.0 == 0x02) {
            return Some(vec![(ch[3].1, ch[8].3)]);
        }
        if ch.len() >= 2 && ch[0].0 == 0x02 && ch[1].0 == 0x04 {
            return Some(vec![(ch[1].2, ch[1].3)]);
        }
        None
    }
    let whole = vec![(0, der.len())];
    let Some((t, cs, ce)) = tlv(der, 0) else {
        return whole;
    };
    if t != 0x30 {
        return whole;
    }
    let ch = children(der, cs, ce);
    if ch.len() >= 3 && ch[0].0 == 0x02 && ch[1].0 == 0x30 && ch[2].0 == 0x04 {
        // PKCS#8: the OCTET STRING wraps the algorithm's own encoding
        let (a, b) = (ch[2].2, ch[2].3);
        if let Some(r) = key_body(der, a, b) {
            return r;
        }
        if let Some((0x04, s, e)) = tlv(der, a) {
            return vec![(s, e)]; // Ed25519: CurvePrivateKey ::= OCTET STRING
        }
        return vec![(a, b)];
    }
    key_body(der, 0, der.len()).unwrap_or(whole)
}

/// needles of a private key file: the whole DER / PEM body in every encoding, plus — so that partial dumps are seen
/// too — every PEM body line and every 16-byte window (hex / byte list) that overlaps the private part of the key
fn key_secret(pem_text: &str) -> Secret {
    let lines: Vec<&str> = pem_text
        .lines()
        .map(|l| l.trim())
        .filter(|l| !l.is_empty() && !l.starts_with("-----"))
        .collect();
    let body: String = lines.concat();
    let der = unb64(&body);
    let regions = private_regions(&der);
    let private = |a: usize, b: usize| regions.iter().any(|(x, y)| a < *y && *x < b);
    let mut needles = vec![];
    for (e, n) in encodings(&der) {
        needles.push((format!("der-{e}"), n));
    }
    needles.push(("base64-pem-body".into(), body.clone()));
    needles.push((
        "base64-pem-body-nopad".into(),
        body.trim_end_matches('=').to_string(),
    ));
    let mut off = 0;
    for l in lines.iter() {
        let nbytes = l.trim_end_matches('=').len() * 3 / 4;
        if l.len() >= 24 && private(off, off + nbytes) {
            needles.push((
                "base64-pem-body-line".to_string(),
                l.trim_end_matches('=').to_string(),
            ));
        }
        off += nbytes;
    }
    for (ra, rb) in &regions {
        let mut off = *ra;
        while off < *rb {
            let end = (off + 16).min(der.len());
            if end - off >= 12 {
                let w = &der[off..end];
                needles.push(("hex-lower-der-window".into(), hexsep(w, false, "")));
                needles.push(("hex-upper-der-window".into(), hexsep(w, true, "")));
                needles.push(("hex-lower-colon-der-window".into(), hexsep(w, false, ":")));
                needles.push((
                    "byte-list-der-window".into(),
                    w.iter()
                        .map(|b| b.to_string())
                        .collect::<Vec<_>>()
                        .join(", "),
                ));
            }
            off += 8;
        }
    }
    Secret {
        name: "tls-client-key".into(),
        needles,
    }
}

/// coarse, stable name of an encoding for the violation class
fn family(enc: &str) -> &'static str {
    if enc.contains("clear") {
        "clear"
    } else if enc.contains("hex") {
        "hex"
    } else if enc.contains("base64") {
        "base64"
    } else if enc.contains("byte-list") {
        "byte-list"
    } else {
        "other"
    }
}

fn strip_ws(s: &str) -> String {
    s.chars().filter(|c| !c.is_whitespace()).collect()
}

/// first hit of any needle of `secret` in `text`: (encoding, byte offset in text or usize::MAX if only in the
/// whitespace-stripped text)
fn scan(text: &str, stripped: &str, secret: &Secret) -> Option<(String, usize)> {
    for (enc, n) in &secret.needles {
        if let Some(p) = text.find(n.as_str()) {
            return Some((enc.clone(), p));
        }
    }
    for (enc, n) in &secret.needles {
        let ns = strip_ws(n);
        if ns.len() >= 8 && stripped.contains(ns.as_str()) {
            return Some((format!("{enc}-ws"), usize::MAX));
        }
    }
    None
}

// ------------------------------------------------------------------------------------------------------------
// capture
#[derive(Clone, Debug)]
struct Rec {
    kind: &'static str, // span | event
    target: String,
    file: String,
    line: u32,
    level: String,
    names: Vec<String>,
    text: String,
}

#[derive(Default)]
struct Vis {
    names: Vec<String>,
    text: String,
}
impl tracing::field::Visit for Vis {
    fn record_debug(&mut self, field: &tracing::field::Field, value: &dyn std::fmt::Debug) {
        self.names.push(field.name().to_string());
        let _ = write!(
            self.text,
            " {}={:?} {}={:#?}",
            field.name(),
            value,
            field.name(),
            value
        );
    }
    fn record_str(&mut self, field: &tracing::field::Field, value: &str) {
        self.names.push(field.name().to_string());
        let _ = write!(
            self.text,
            " {}={} {}={:?}",
            field.name(),
            value,
            field.name(),
            value
        );
    }
}

struct MetaLayer {
    recs: Arc<Mutex<Vec<Rec>>>,
}
impl<S: tracing::Subscriber> Layer<S> for MetaLayer {
    fn on_new_span(
        &self,
        attrs: &tracing::span::Attributes<'_>,
        _id: &tracing::span::Id,
        _ctx: tracing_subscriber::layer::Context<'_, S>,
    ) {
        let md = attrs.metadata();
        let mut v = Vis::default();
        attrs.record(&mut v);
        // the declared field set (a skipped parameter is not a field at all)
        let names = md.fields().iter().map(|f| f.name().to_string()).collect();
        self.recs.lock().unwrap().push(Rec {
            kind: "span",
            target: md.target().into(),
            file: md.file().unwrap_or("").into(),
            line: md.line().unwrap_or(0),
            level: md.level().to_string().to_lowercase(),
            names,
            text: format!("{}{}", md.name(), v.text),
        });
    }
    fn on_record(
        &self,
        _id: &tracing::span::Id,
        values: &tracing::span::Record<'_>,
        _ctx: tracing_subscriber::layer::Context<'_, S>,
    ) {
        let mut v = Vis::default();
        values.record(&mut v);
        self.recs.lock().unwrap().push(Rec {
            kind: "record",
            target: "?".into(),
            file: "".into(),
            line: 0,
            level: "trace".into(),
            names: v.names,
            text: v.text,
        });
    }
    fn on_event(
        &self,
        event: &tracing::Event<'_>,
        _ctx: tracing_subscriber::layer::Context<'_, S>,
    ) {
        use tracing_log::NormalizeEvent;
        let norm = event.normalized_metadata();
        let md = norm.as_ref().unwrap_or_else(|| event.metadata());
        let mut v = Vis::default();
        event.record(&mut v);
        self.recs.lock().unwrap().push(Rec {
            kind: "event",
            target: md.target().into(),
            file: md.file().unwrap_or("").into(),
            line: md.line().unwrap_or(0),
            level: md.level().to_string().to_lowercase(),
            names: v
                .names
                .into_iter()
                .filter(|n| !n.starts_with("log."))
                .collect(),
            text: v.text,
        });
    }
}

#[derive(Clone)]
struct BufWriter(Arc<Mutex<Vec<u8>>>);
impl std::io::Write for BufWriter {
    fn write(&mut self, buf: &[u8]) -> std::io::Result<usize> {
        self.0.lock().unwrap().extend_from_slice(buf);
        Ok(buf.len())
    }
    fn flush(&mut self) -> std::io::Result<()> {
        Ok(())
    }
}
impl<'a> tracing_subscriber::fmt::MakeWriter<'a> for BufWriter {
    type Writer = BufWriter;
    fn make_writer(&'a self) -> Self::Writer {
        self.clone()
    }
}

pub struct Capture {
    text: String,
    recs: Vec<Rec>,
}

/// run `f` (which builds and drives its own current-thread runtime) under a capturing subscriber
fn capture<R>(directive: &str, f: impl FnOnce() -> R) -> (R, Capture) {
    static LOGTRACER: std::sync::Once = std::sync::Once::new();
    LOGTRACER.call_once(|| {
        let _ = tracing_log::LogTracer::init();
    });
    let buf = Arc::new(Mutex::new(Vec::new()));
    let recs = Arc::new(Mutex::new(Vec::new()));
    let sub = tracing_subscriber::registry()
        .with(EnvFilter::new(directive))
        .with(
            tracing_subscriber::fmt::layer()
                .with_ansi(false)
                .with_writer(BufWriter(buf.clone())),
        )
        .with(MetaLayer { recs: recs.clone() });
    let r = tracing::subscriber::with_default(sub, f);
    let text = String::from_utf8_lossy(&buf.lock().unwrap()).to_string();
    let recs = recs.lock().unwrap().clone();
    (r, Capture { text, recs })
}

fn crate_of(target: &str) -> &str {
    target.split("::").next().unwrap_or(target)
}

fn is_own(target: &str) -> bool {
    matches!(
        crate_of(target),
        "bgpfu_netconf" | "netconf" | "bgpfu_junos_agent" | "bgpfu_lib" | "vh"
    )
}

/// verdict for one capture: "ok" or "violation <class>"
fn verdict(cap: &Capture, extra: &[(&str, String)], secrets: &[Secret], sink: &mut Sink) -> String {
    // C20 is about what the library and the agent emit. A secret that shows up in a record emitted
    // by a DEPENDENCY (e.g. russh 0.39 dumps the password-auth packet at DEBUG) is counted and
    // sampled in the evidence (`dep-leak.*`) but is not a violation of the property as stated.
    let stripped = strip_ws(&cap.text);
    for s in secrets {
        let mut any_rec = false;
        for r in &cap.recs {
            let st = strip_ws(&r.text);
            if let Some((enc, _)) = scan(&r.text, &st, s) {
                any_rec = true;
                if is_own(&r.target) {
                    sample_once(
                        sink,
                        format!(
                            "LEAK {} as {enc} in record of {}: {}",
                            s.name,
                            r.target,
                            r.text.chars().take(300).collect::<String>()
                        ),
                    );
                    return format!("violation leak:{}:{}:{}", r.target, s.name, family(&enc));
                }
                sink.count(&format!(
                    "dep-leak.{}.{}.{}",
                    crate_of(&r.target),
                    s.name,
                    family(&enc)
                ));
                sample_once(
                    sink,
                    format!(
                        "DEP-LEAK (not judged) {} as {enc} in record of {}: {}",
                        s.name,
                        r.target,
                        r.text.chars().take(200).collect::<String>()
                    ),
                );
            }
        }
        if !any_rec {
            if let Some((enc, pos)) = scan(&cap.text, &stripped, s) {
                let line = if pos != usize::MAX {
                    let a = cap.text[..pos].rfind('\n').map(|p| p + 1).unwrap_or(0);
                    let b = cap.text[pos..]
                        .find('\n')
                        .map(|p| p + pos)
                        .unwrap_or(cap.text.len());
                    cap.text[a..b].chars().take(400).collect::<String>()
                } else {
                    String::new()
                };
                sample_once(sink, format!("LEAK {} as {enc}: {line}", s.name));
                return format!("violation leak:unattributed:{}:{}", s.name, family(&enc));
            }
        }
    }
    for (wh, text) in extra {
        let st = strip_ws(text);
        for s in secrets {
            if let Some((enc, _)) = scan(text, &st, s) {
                sample_once(
                    sink,
                    format!(
                        "LEAK {} as {enc} in {wh}: {}",
                        s.name,
                        text.chars().take(300).collect::<String>()
                    ),
                );
                return format!("violation leak:{wh}:{}:{}", s.name, family(&enc));
            }
        }
    }
    "ok".into()
}

// ------------------------------------------------------------------------------------------------------------
// peers (on the server runtime: no subscriber there)
fn server_rt() -> &'static tokio::runtime::Runtime {
    static RT: std::sync::OnceLock<tokio::runtime::Runtime> = std::sync::OnceLock::new();
    RT.get_or_init(|| {
        tokio::runtime::Builder::new_multi_thread()
            .worker_threads(2)
            .enable_all()
            .thread_name("c20-peer")
            .build()
            .unwrap()
    })
}

fn load_cert_path(p: &str) -> CertificateDer<'static> {
    let data = std::fs::read(p).expect("cert file");
    let c = rustls_pemfile::certs(&mut std::io::BufReader::new(&data[..]))
        .next()
        .unwrap()
        .unwrap();
    c
}
fn load_key_path(p: &str) -> PrivateKeyDer<'static> {
    let data = std::fs::read(p).expect("key file");
    let k = rustls_pemfile::private_key(&mut std::io::BufReader::new(&data[..]))
        .unwrap()
        .unwrap();
    k
}

pub fn acceptor_client_auth() -> TlsAcceptor {
    let mut roots = RootCertStore::empty();
    roots
        .add(load_cert_path(&format!("{CERT_DIR}/ca.pem")))
        .unwrap();
    let verifier = WebPkiClientVerifier::builder(Arc::new(roots))
        .build()
        .unwrap();
    let cfg = ServerConfig::builder()
        .with_client_cert_verifier(verifier)
        .with_single_cert(
            vec![load_cert_path(&format!("{CERT_DIR}/server.pem"))],
            load_key_path(&format!("{CERT_DIR}/server.key")),
        )
        .unwrap();
    TlsAcceptor::from(Arc::new(cfg))
}

/// NETCONF-over-TLS peer: hello, then `<ok/>` to every request. Accepts `conns` connections. Returns the port.
fn start_tls_peer(conns: usize) -> u16 {
    let rt = server_rt();
    let listener =
        rt.block_on(async { tokio::net::TcpListener::bind("127.0.0.1:0").await.unwrap() });
    let port = listener.local_addr().unwrap().port();
    let acc = acceptor_client_auth();
    rt.spawn(async move {
        for _ in 0..conns {
            let Ok(Ok((sock, _))) =
                tokio::time::timeout(Duration::from_secs(20), listener.accept()).await
            else {
                return;
            };
            let acc = acc.clone();
            tokio::spawn(async move {
                let Ok(mut tls) = acc.accept(sock).await else {
                    return;
                };
                if tls.write_all(HELLO.as_bytes()).await.is_err() {
                    return;
                }
                let _ = tls.flush().await;
                let mut buf: Vec<u8> = vec![];
                let mut chunk = [0u8; 4096];
                let end = Instant::now() + Duration::from_secs(10);
                while Instant::now() < end {
                    match tokio::time::timeout(Duration::from_secs(5), tls.read(&mut chunk)).await {
                        Ok(Ok(n)) if n > 0 => buf.extend_from_slice(&chunk[..n]),
                        _ => return,
                    }
                    while let Some(p) = buf.windows(6).position(|w| w == b"]]>]]>") {
                        let msg = String::from_utf8_lossy(&buf[..p]).to_string();
                        buf.drain(..p + 6);
                        if let Some(i) = msg.find("message-id=\"") {
                            let rest = &msg[i + 12..];
                            let id = &rest[..rest.find('"').unwrap_or(0)];
                            if tls.write_all(ok_reply(id).as_bytes()).await.is_err() {
                                return;
                            }
                            let _ = tls.flush().await;
                        }
                    }
                }
            });
        }
    });
    port
}

fn start_ssh_peer(accept: bool) -> (u16, Arc<Mutex<Option<String>>>) {
    let rt = server_rt();
    let seen = Arc::new(Mutex::new(None));
    let seen2 = seen.clone();
    let (port, mut ready, conn) =
        rt.block_on(async move { crate::sshserver::start(accept, Some(seen2)).await });
    rt.spawn(async move {
        let r = tokio::time::timeout(Duration::from_secs(10), ready.recv()).await;
        if let Ok(Some((handle, ch))) = r {
            tokio::time::sleep(Duration::from_millis(20)).await;
            let _ = handle
                .data(ch, russh::CryptoVec::from_slice(HELLO.as_bytes()))
                .await;
            // the client's first rpc is <close-session message-id="1">
            let _ = handle
                .data(ch, russh::CryptoVec::from_slice(ok_reply("1").as_bytes()))
                .await;
            tokio::time::sleep(Duration::from_secs(3)).await;
        } else {
            tokio::time::sleep(Duration::from_secs(3)).await;
        }
        conn.abort();
    });
    (port, seen)
}

// ------------------------------------------------------------------------------------------------------------
// cases
fn client_rt() -> tokio::runtime::Runtime {
    tokio::runtime::Builder::new_current_thread()
        .enable_all()
        .build()
        .unwrap()
}

pub fn key_files(key: &str) -> (String, String) {
    if key == "rsa_pkcs8" {
        (
            format!("{CERT_DIR}/client.pem"),
            format!("{CERT_DIR}/client.key"),
        )
    } else {
        (
            format!("{CERT_DIR}/c20/{key}.pem"),
            format!("{CERT_DIR}/c20/{key}.key"),
        )
    }
}
const KEYS: &[&str] = &["rsa_pkcs8", "ed25519", "ec_sec1", "rsa_pkcs1"];

fn sites(cap: &Capture, seen: &mut BTreeSet<String>) {
    for r in &cap.recs {
        if r.kind == "record" {
            continue;
        }
        let rel = ["netconf/src/", "junos-agent/src/"]
            .iter()
            .find_map(|p| r.file.find(p).map(|i| r.file[i..].to_string()));
        let Some(rel) = rel else { continue };
        // `#[async_trait]` renames `self` to `__self` inside the method body
        let mut names: Vec<String> = r
            .names
            .iter()
            .filter(|n| *n != "message")
            .map(|n| {
                n.strip_prefix("__")
                    .filter(|r| r.starts_with("self"))
                    .unwrap_or(n)
                    .to_string()
            })
            .collect();
        names.sort();
        names.dedup();
        seen.insert(format!(
            "logs specsite {} {} {} {} {}",
            r.kind,
            hexs(&rel),
            r.line,
            r.level,
            list(&names)
        ));
    }
}

/// keep one sample per distinct text prefix (the first eight samples would all be the same russh line)
fn sample_once(sink: &mut Sink, s: String) {
    let key: String = s.chars().filter(|c| !c.is_ascii_digit()).take(60).collect();
    if !sink.samples.iter().any(|x| {
        x.chars()
            .filter(|c| !c.is_ascii_digit())
            .take(60)
            .collect::<String>()
            == key
    }) {
        sink.sample(s);
    }
}

struct Ctx {
    sink: Sink,
    sites: BTreeSet<String>,
    out: PathBuf,
}

fn run_ssh(ctx: &mut Ctx, case: &str, accept: bool, pw: &str, directive: &str) {
    let (port, seen) = start_ssh_peer(accept);
    let password: Password = pw.parse().unwrap();
    let (res, cap) = capture(directive, || {
        client_rt().block_on(async {
            let r = tokio::time::timeout(Duration::from_secs(15), async {
                let s =
                    Session::ssh(("127.0.0.1", port), "vérif user".to_string(), password).await?;
                let fut = s.close().await?;
                fut.await
            })
            .await;
            match r {
                Ok(Ok(())) => "established+closed".to_string(),
                Ok(Err(e)) => {
                    let plain = format!("error: {e} / {e:?}");
                    format!("{plain} / {:#}", anyhow::Error::new(e))
                }
                Err(_) => "timeout".to_string(),
            }
        })
    });
    let delivered = seen.lock().unwrap().as_deref() == Some(pw);
    ctx.sink.count(if delivered {
        "ssh.password_reached_server"
    } else {
        "ssh.password_not_seen_by_server"
    });
    ctx.sink
        .count(&format!("ssh.outcome.{}", res.split(':').next().unwrap()));
    finish(
        ctx,
        case,
        &cap,
        &[("returned-error", res)],
        &[password_secret(pw)],
        directive,
    );
}

fn run_tls(ctx: &mut Ctx, case: &str, variant: &str, key: &str, directive: &str) {
    let port = start_tls_peer(1);
    let (certp, keyp) = key_files(key);
    let key_text = std::fs::read_to_string(&keyp).unwrap();
    let ca = load_cert_path(&format!(
        "{CERT_DIR}/{}",
        if variant == "wrongca" {
            "client.pem"
        } else {
            "ca.pem"
        }
    ));
    let cert = load_cert_path(&if variant == "mismatch" {
        format!("{CERT_DIR}/client.pem")
    } else {
        certp
    });
    let keyder = if variant == "mismatch" && key == "rsa_pkcs8" {
        load_key_path(&key_files("ed25519").1)
    } else {
        load_key_path(&keyp)
    };
    let name = if variant == "badname" {
        "wrong.example"
    } else {
        "localhost"
    };
    let (res, cap) = capture(directive, || {
        client_rt().block_on(async {
            let r = tokio::time::timeout(Duration::from_secs(15), async {
                let s = Session::tls(("127.0.0.1", port), name, ca, cert, keyder).await?;
                let fut = s.close().await?;
                fut.await
            })
            .await;
            match r {
                Ok(Ok(())) => "established+closed".to_string(),
                Ok(Err(e)) => {
                    let plain = format!("error: {e} / {e:?}");
                    format!("{plain} / {:#}", anyhow::Error::new(e))
                }
                Err(_) => "timeout".to_string(),
            }
        })
    });
    ctx.sink.count(&format!(
        "tls.{variant}.outcome.{}",
        res.split(':').next().unwrap()
    ));
    let mut secrets = vec![key_secret(&key_text)];
    if variant == "mismatch" && key == "rsa_pkcs8" {
        secrets = vec![key_secret(
            &std::fs::read_to_string(key_files("ed25519").1).unwrap(),
        )];
    }
    finish(
        ctx,
        case,
        &cap,
        &[("returned-error", res)],
        &secrets,
        directive,
    );
}

fn run_cli(ctx: &mut Ctx, case: &str, directive: &str) {
    let exe = std::env::current_exe().unwrap();
    let script = format!("w:{}", hex(format!("{HELLO}{}", ok_reply("1")).as_bytes()));
    let (res, cap) = capture(directive, || {
        client_rt().block_on(async {
            let args = ["fakecli", script.as_str(), "r", "r", "hang"];
            let r = tokio::time::timeout(Duration::from_secs(10), async {
                let s = Session::verif_junos_local(exe.to_str().unwrap(), &args).await?;
                let fut = s.close().await?;
                fut.await
            })
            .await;
            match r {
                Ok(Ok(())) => "established+closed".to_string(),
                Ok(Err(e)) => format!("error: {e}"),
                Err(_) => "timeout".to_string(),
            }
        })
    });
    ctx.sink
        .count(&format!("cli.outcome.{}", res.split(':').next().unwrap()));
    // no credential is handed to this transport: the capture is searched for the fixed canaries of the other two
    let secrets = vec![
        password_secret(PASSWORDS[0]),
        key_secret(&std::fs::read_to_string(key_files("rsa_pkcs8").1).unwrap()),
    ];
    finish(
        ctx,
        case,
        &cap,
        &[("returned-error", res)],
        &secrets,
        directive,
    );
}

fn finish(
    ctx: &mut Ctx,
    case: &str,
    cap: &Capture,
    extra: &[(&str, String)],
    secrets: &[Secret],
    directive: &str,
) {
    let v = verdict(cap, extra, secrets, &mut ctx.sink);
    ctx.sink.direct(case, v);
    sites(cap, &mut ctx.sites);
    ctx.sink.add("captured.bytes", cap.text.len() as u64);
    ctx.sink.add("captured.records", cap.recs.len() as u64);
    ctx.sink.add(
        &format!("captured.records.directive.{directive}"),
        cap.recs.len() as u64,
    );
    let mut crates: BTreeSet<String> = BTreeSet::new();
    for r in &cap.recs {
        if r.kind == "event" {
            crates.insert(crate_of(&r.target).to_string());
        }
    }
    for c in crates {
        ctx.sink.count(&format!("events.from.{c}"));
    }
    ctx.sink.add(
        "needles.searched",
        secrets.iter().map(|s| s.needles.len() as u64).sum(),
    );
}

const PASSWORDS: &[&str] = &[
    "correct-horse-battery",
    "p\"q'r\\s {t}%u",
    "p\u{e4}$$w\u{f6}rd-\u{fc}n\u{ef}-\u{2603}-\u{1f511}",
    "  lead and trail  ",
    "tab\tand\nnewline\r!",
    "Password(\"****\")-lookalike",
];

const DIRECTIVES: &[&str] = &[
    "trace",
    "debug",
    "info",
    "warn",
    "netconf=trace",
    "russh=trace,rustls=trace,tokio=trace",
    "netconf[ssh]=trace,netconf[connect]=trace,russh=debug",
    "off",
];

// ------------------------------------------------------------------------------------------------------------
// agent binary
/// target dir for the agent binary. One per source tree: cargo's freshness check is mtime based, so two trees
/// sharing a target dir can leave the binary of the other tree in place.
fn repo_target() -> PathBuf {
    let repo = std::env::var("VERIF_REPO").unwrap_or_else(|_| "/repo".into());
    let base = concat!(env!("CARGO_MANIFEST_DIR"), "/../repo-target");
    if repo == "/repo" {
        PathBuf::from(base)
    } else {
        let h = repo.bytes().fold(0xcbf29ce484222325u64, |a, b| {
            (a ^ b as u64).wrapping_mul(0x100000001b3)
        });
        PathBuf::from(format!("{base}-{h:016x}"))
    }
}

pub fn build_agent(sink: &mut Sink) -> Option<PathBuf> {
    build_agent_profile(sink, false)
}

/// the agent binary as it ships (`--release`: no debug assertions, no overflow checks) or as a dev build
pub fn build_agent_profile(sink: &mut Sink, release: bool) -> Option<PathBuf> {
    let repo = std::env::var("VERIF_REPO").unwrap_or_else(|_| "/repo".into());
    let st = Command::new("cargo")
        .args([
            "build",
            "--offline",
            "--manifest-path",
            &format!("{repo}/Cargo.toml"),
            "-p",
            "bgpfu-junos-agent",
            "--target-dir",
        ])
        .arg(repo_target())
        .args(if release { vec!["--release"] } else { vec![] })
        .env("CARGO_NET_OFFLINE", "true")
        .env_remove("RUSTFLAGS")
        .stdout(Stdio::null())
        .stderr(Stdio::piped())
        .output();
    match st {
        Ok(o) if o.status.success() => Some(repo_target().join(if release { "release/bgpfu-junos-agent" } else { "debug/bgpfu-junos-agent" })),
        Ok(o) => {
            sink.notes.push(format!(
                "agent build failed: {}",
                String::from_utf8_lossy(&o.stderr)
                    .chars()
                    .rev()
                    .take(300)
                    .collect::<String>()
                    .chars()
                    .rev()
                    .collect::<String>()
            ));
            None
        }
        Err(e) => {
            sink.notes.push(format!("agent build could not start: {e}"));
            None
        }
    }
}

const SCENARIOS: &[&str] = &[
    "ok",
    "swapped",
    "key-as-cert",
    "key-as-ca",
    "truncated",
    "joined-header",
    "one-line",
    "cr-only",
    "short-dashes",
    "bad-base64",
    "bad-last-symbol",
    "wrong-label",
    "begin-in-body",
    "no-final-newline",
    "crlf",
    // PEM bundles: the key stored in the same file as a certificate (`cat client.crt client.key`,
    // `openssl pkcs12 -nodes` output), given as the certificate file, the CA file or both
    "bundle-cert-key",
    "bundle-key-cert",
    "bundle-as-ca",
    "bundle-for-both",
    "bundle-chain-key",
    // DER instead of PEM: the key file (and the certificate file) in binary form
    "der-key",
    "der-both",
];

/// (ca, cert, key) paths for a scenario; damaged files are written below `dir`
fn scenario_files(dir: &PathBuf, sc: &str, key: &str) -> (String, String, String) {
    let (certp, keyp) = key_files(key);
    let ca = format!("{CERT_DIR}/ca.pem");
    let text = std::fs::read_to_string(&keyp).unwrap();
    let lines: Vec<&str> = text.lines().collect();
    let n = lines.len();
    let damaged = |content: String| -> String {
        let p = dir.join(format!("{sc}-{key}.key"));
        std::fs::write(&p, content).unwrap();
        p.to_str().unwrap().to_string()
    };
    match sc {
        "ok" => (ca, certp, keyp),
        "swapped" => (ca, keyp, certp),
        "key-as-cert" => (ca, keyp.clone(), keyp),
        "key-as-ca" => (keyp.clone(), certp, keyp),
        "truncated" => {
            let cut = text.len() * 2 / 3;
            (ca, certp, damaged(text[..cut].to_string() + "\n"))
        }
        "joined-header" => (
            ca,
            certp,
            damaged(format!(
                "{}{}\n{}\n",
                lines[0],
                lines[1],
                lines[2..].join("\n")
            )),
        ),
        "one-line" => (ca, certp, damaged(lines.join(" ") + "\n")),
        "cr-only" => (ca, certp, damaged(lines.join("\r") + "\n")),
        "short-dashes" => (
            ca,
            certp,
            damaged(format!(
                "{}\n{}\n",
                lines[0].trim_end_matches('-').to_string() + "----",
                lines[1..].join("\n")
            )),
        ),
        "bad-base64" => {
            let mut l: Vec<String> = lines.iter().map(|s| s.to_string()).collect();
            l[1].insert(7, '!');
            (ca, certp, damaged(l.join("\n") + "\n"))
        }
        "bad-last-symbol" => {
            let mut l: Vec<String> = lines.iter().map(|s| s.to_string()).collect();
            let k = n - 2;
            let t = l[k].trim_end_matches('=').to_string();
            l[k] = format!("{}{}", &t[..t.len() - 1], "/");
            (ca, certp, damaged(l.join("\n") + "\n"))
        }
        "wrong-label" => (
            ca,
            certp,
            damaged(text.replace("PRIVATE KEY", "SECRET THING")),
        ),
        "begin-in-body" => (
            ca,
            certp,
            damaged(format!(
                "{}\n-----BEGIN {}\n{}\n",
                lines[0],
                lines[1],
                lines[2..].join("\n")
            )),
        ),
        "no-final-newline" => (ca, certp, damaged(text.trim_end().to_string())),
        "crlf" => (ca, certp, damaged(lines.join("\r\n") + "\r\n")),
        "der-key" | "der-both" => {
            use std::io::BufReader;
            let kd = rustls_pemfile::private_key(&mut BufReader::new(text.as_bytes()))
                .ok()
                .flatten()
                .map(|k| k.secret_der().to_vec())
                .unwrap_or_default();
            let kp = dir.join(format!("{sc}-{key}.key.der"));
            std::fs::write(&kp, &kd).unwrap();
            let cert_text = std::fs::read_to_string(&certp).unwrap();
            let cd = rustls_pemfile::certs(&mut BufReader::new(cert_text.as_bytes()))
                .next()
                .and_then(|c| c.ok())
                .map(|c| c.as_ref().to_vec())
                .unwrap_or_default();
            let cp = dir.join(format!("{sc}-{key}.crt.der"));
            std::fs::write(&cp, &cd).unwrap();
            let kp = kp.to_str().unwrap().to_string();
            if sc == "der-both" {
                (ca, cp.to_str().unwrap().to_string(), kp)
            } else {
                (ca, certp, kp)
            }
        }
        "bundle-cert-key" | "bundle-key-cert" | "bundle-as-ca" | "bundle-for-both"
        | "bundle-chain-key" => {
            let cert_text = std::fs::read_to_string(&certp).unwrap();
            let ca_text = std::fs::read_to_string(&ca).unwrap();
            let b = match sc {
                "bundle-key-cert" => format!("{text}{cert_text}"),
                "bundle-as-ca" => format!("{ca_text}{text}"),
                "bundle-chain-key" => {
                    format!("{cert_text}{ca_text}Bag Attributes\n    friendlyName: client\n{text}")
                }
                _ => format!("{cert_text}{text}"),
            };
            let p = damaged(b);
            match sc {
                "bundle-as-ca" => (p, certp, keyp),
                "bundle-for-both" => (ca, p.clone(), p),
                "bundle-key-cert" => (ca, certp, p),
                _ => (ca, p, keyp),
            }
        }
        _ => (ca, certp, keyp),
    }
}

fn run_agent(
    agent: &PathBuf,
    out: &PathBuf,
    sc: &str,
    key: &str,
    mode: &str,
    verbosity: &str,
    idx: usize,
) -> (String, Vec<(String, String)>, Secret) {
    let dir = out.join("logs-pem");
    std::fs::create_dir_all(&dir).unwrap();
    let (ca, cert, keyp) = scenario_files(&dir, sc, key);
    let port = if sc == "ok" || sc.starts_with("bundle") {
        start_tls_peer(3)
    } else {
        1
    };
    let logfile = dir.join(format!("agent-{idx}.log"));
    let _ = std::fs::remove_file(&logfile);
    let mut cmd = Command::new(agent);
    if verbosity != "-" {
        cmd.arg(verbosity);
    }
    if mode.ends_with("file") {
        cmd.arg("-l").arg(&logfile);
    }
    cmd.args([
        "-f",
        if mode.starts_with("daemon") {
            "3600"
        } else {
            "0"
        },
        "--irrd-host",
        "127.0.0.1",
        "--irrd-port",
        "1",
        "remote",
    ]);
    cmd.args([
        "--netconf-host",
        "127.0.0.1",
        "--netconf-port",
        &port.to_string(),
        "--tls-server-name",
        "localhost",
    ]);
    cmd.args([
        "--ca-cert-path",
        &ca,
        "--client-cert-path",
        &cert,
        "--client-key-path",
        &keyp,
    ]);
    cmd.env_remove("RUST_LOG")
        .env("RUST_BACKTRACE", "0")
        .env("NO_COLOR", "1");
    cmd.stdin(Stdio::null())
        .stdout(Stdio::piped())
        .stderr(Stdio::piped());
    let mut texts = vec![];
    let status;
    match cmd.spawn() {
        Ok(mut child) => {
            let limit = if mode.starts_with("daemon") {
                Duration::from_millis(900)
            } else {
                Duration::from_secs(8)
            };
            let t0 = Instant::now();
            loop {
                if let Ok(Some(_)) = child.try_wait() {
                    break;
                }
                if t0.elapsed() > limit {
                    unsafe {
                        libc::kill(child.id() as i32, libc::SIGTERM);
                    }
                    let t1 = Instant::now();
                    while t1.elapsed() < Duration::from_secs(3) {
                        if let Ok(Some(_)) = child.try_wait() {
                            break;
                        }
                        std::thread::sleep(Duration::from_millis(20));
                    }
                    let _ = child.kill();
                    break;
                }
                std::thread::sleep(Duration::from_millis(20));
            }
            let o = child.wait_with_output().unwrap();
            status = format!("{:?}", o.status.code());
            texts.push((
                "agent-stderr".to_string(),
                strip_ansi(&String::from_utf8_lossy(&o.stderr)),
            ));
            texts.push((
                "agent-stdout".to_string(),
                strip_ansi(&String::from_utf8_lossy(&o.stdout)),
            ));
        }
        Err(e) => {
            status = format!("spawn failed: {e}");
        }
    }
    for e in std::fs::read_dir(&dir).unwrap().flatten() {
        let n = e.file_name().to_string_lossy().to_string();
        if n.starts_with(&format!("agent-{idx}.log")) {
            texts.push((
                "agent-logfile".to_string(),
                strip_ansi(&String::from_utf8_lossy(
                    &std::fs::read(e.path()).unwrap_or_default(),
                )),
            ));
            let _ = std::fs::remove_file(e.path());
        }
    }
    let secret = key_secret(&std::fs::read_to_string(key_files(key).1).unwrap());
    (status, texts, secret)
}

fn strip_ansi(s: &str) -> String {
    let mut out = String::new();
    let mut it = s.chars().peekable();
    while let Some(c) = it.next() {
        if c == '\u{1b}' && it.peek() == Some(&'[') {
            it.next();
            for d in it.by_ref() {
                if d.is_ascii_alphabetic() {
                    break;
                }
            }
        } else {
            out.push(c);
        }
    }
    out
}

/// verdict for the agent's output: which part of the output, and for tracing lines the emitting target
fn agent_verdict(texts: &[(String, String)], secret: &Secret, sink: &mut Sink) -> String {
    for (wh, text) in texts {
        let st = strip_ws(text);
        if let Some((enc, pos)) = scan(text, &st, secret) {
            let (line, target) = if pos != usize::MAX {
                let a = text[..pos].rfind('\n').map(|p| p + 1).unwrap_or(0);
                let b = text[pos..]
                    .find('\n')
                    .map(|p| p + pos)
                    .unwrap_or(text.len());
                let line = &text[a..b];
                // `<timestamp> LEVEL span…: target: message`
                let mut target = "rust-main-return".to_string();
                if line.len() > 30 && line.as_bytes()[4] == b'-' {
                    for w in line.split(": ") {
                        let w = w.rsplit(' ').next().unwrap_or("");
                        if w.contains("::")
                            && w.chars()
                                .all(|c| c.is_ascii_alphanumeric() || c == '_' || c == ':')
                        {
                            target = w.to_string();
                            break;
                        }
                    }
                }
                (line.chars().take(420).collect::<String>(), target)
            } else {
                (String::new(), "unattributed".to_string())
            };
            sample_once(
                sink,
                format!("LEAK {} as {enc} in {wh}: {line}", secret.name),
            );
            return if target == "rust-main-return" || target == "unattributed" || is_own(&target) {
                format!("violation leak:{target}:{}:{}", secret.name, family(&enc))
            } else {
                sink.count(&format!(
                    "dep-leak.{}.{}.{}",
                    crate_of(&target),
                    secret.name,
                    family(&enc)
                ));
                "ok".to_string()
            };
        }
    }
    "ok".into()
}

// ------------------------------------------------------------------------------------------------------------
fn count_source(sink: &mut Sink) {
    // the harness' own count of the logging constructs in the source text, compared with the table in modeld
    let repo = std::env::var("VERIF_REPO").unwrap_or_else(|_| "/repo".into());
    let (mut instr, mut ev) = (0usize, 0usize);
    fn walk(p: &std::path::Path, f: &mut dyn FnMut(&str)) {
        if let Ok(rd) = std::fs::read_dir(p) {
            for e in rd.flatten() {
                let p = e.path();
                if p.is_dir() {
                    walk(&p, f);
                } else if p.extension().map(|x| x == "rs").unwrap_or(false) {
                    if let Ok(t) = std::fs::read_to_string(&p) {
                        f(&t);
                    }
                }
            }
        }
    }
    for c in ["netconf/src", "junos-agent/src"] {
        walk(
            std::path::Path::new(&format!("{repo}/{c}")),
            &mut |t: &str| {
                for l in t.lines() {
                    let l = l.trim_start();
                    if l.starts_with("//") {
                        continue;
                    }
                    instr += l.matches("#[tracing::instrument").count();
                    for lv in ["trace!", "debug!", "info!", "warn!", "error!"] {
                        ev += l.matches(&format!("tracing::{lv}")).count();
                    }
                }
            },
        );
    }
    sink.corr(
        "source-count;instrument",
        "logs count instrument".into(),
        instr.to_string(),
    );
    sink.corr(
        "source-count;event",
        "logs count event".into(),
        ev.to_string(),
    );
}

pub fn main(opts: &Opts) {
    let mut ctx = Ctx {
        sink: Sink::new(),
        sites: BTreeSet::new(),
        out: opts.out.clone(),
    };
    let mut cases: Vec<String> = vec![];
    if let Some(rp) = &opts.replay {
        for l in std::fs::read_to_string(rp).unwrap_or_default().lines() {
            let p: Vec<&str> = l.split('\t').collect();
            if p.len() >= 2 && p[0] == "case" {
                cases.push(p[1].to_string());
            }
        }
    } else {
        let mut rng = Rng::new(opts.seed);
        cases.push(
            "static;table-side-condition-of-log_noninterference(allSafe LogTableGen.table)".into(),
        );
        cases.push("static;source-count".into());
        // SSH: every password accepted and rejected at TRACE; the first two under every directive
        for (i, pw) in PASSWORDS.iter().enumerate() {
            for accept in [true, false] {
                cases.push(format!(
                    "ssh;{};{};{}",
                    if accept { "accept" } else { "reject" },
                    hexs(pw),
                    hexs("trace")
                ));
            }
            if i < 2 || opts.thorough() {
                for d in &DIRECTIVES[1..] {
                    cases.push(format!(
                        "ssh;{};{};{}",
                        if rng.chance(1, 2) { "accept" } else { "reject" },
                        hexs(pw),
                        hexs(d)
                    ));
                }
            }
        }
        // random passwords (printable, quotes, non-ASCII)
        let alphabet: Vec<char> = "abcXYZ019 \"'\\{}%$#<>&;=\u{e9}\u{df}\u{4e2d}\u{1f600}\t"
            .chars()
            .collect();
        for _ in 0..(if opts.thorough() { 40 } else { 4 }) {
            let n = 8 + rng.below(24);
            let pw: String = (0..n).map(|_| *rng.pick(&alphabet)).collect();
            cases.push(format!(
                "ssh;{};{};{}",
                if rng.chance(1, 2) { "accept" } else { "reject" },
                hexs(&pw),
                hexs("trace")
            ));
        }
        // TLS: every key format, success and the failure variants at TRACE; directives on the first key
        for key in KEYS {
            for v in ["ok", "wrongca", "badname", "mismatch"] {
                cases.push(format!("tls;{v};{key};{}", hexs("trace")));
            }
        }
        for d in &DIRECTIVES[1..] {
            cases.push(format!("tls;ok;ed25519;{}", hexs(d)));
            if opts.thorough() {
                cases.push(format!("tls;wrongca;rsa_pkcs8;{}", hexs(d)));
            }
        }
        for d in ["trace", "debug", "info"] {
            cases.push(format!("cli;{}", hexs(d)));
        }
        // agent binary: every scenario in daemon mode (where tracing logs the error) for every key format,
        // one-shot and quiet/file variants for one key
        for sc in SCENARIOS {
            for key in KEYS {
                cases.push(format!("agent;{sc};{key};daemon;-vvvv"));
            }
            cases.push(format!("agent;{sc};ed25519;oneshot;-vvvv"));
            cases.push(format!("agent;{sc};ec_sec1;daemon-file;-"));
            if opts.thorough() {
                cases.push(format!("agent;{sc};rsa_pkcs1;daemon-file;-q"));
                cases.push(format!("agent;{sc};rsa_pkcs8;oneshot-file;-vv"));
            }
        }
    }

    let mut agent_cases = vec![];
    for case in &cases {
        let p: Vec<&str> = case.split(';').collect();
        let un = |h: &str| String::from_utf8(unhex(h).unwrap_or_default()).unwrap_or_default();
        match p[0] {
            "static" if p[1].starts_with("table") => ctx.sink.spec(case, "logs specsafe".into()),
            "static" => count_source(&mut ctx.sink),
            "ssh" if p.len() == 4 => {
                run_ssh(&mut ctx, case, p[1] == "accept", &un(p[2]), &un(p[3]))
            }
            "tls" if p.len() == 4 => run_tls(&mut ctx, case, p[1], p[2], &un(p[3])),
            "cli" if p.len() == 2 => run_cli(&mut ctx, case, &un(p[1])),
            "agent" if p.len() == 5 => agent_cases.push(case.clone()),
            "site" => {
                // a callsite row is a by-product of the connection cases: replay a representative set once
                if ctx.sites.is_empty() {
                    run_ssh(&mut ctx, "site-replay;ssh", true, PASSWORDS[0], "trace");
                    run_ssh(
                        &mut ctx,
                        "site-replay;ssh-reject",
                        false,
                        PASSWORDS[0],
                        "trace",
                    );
                    run_tls(&mut ctx, "site-replay;tls", "ok", "ed25519", "trace");
                    run_tls(
                        &mut ctx,
                        "site-replay;tls-wrongca",
                        "wrongca",
                        "ed25519",
                        "trace",
                    );
                    run_cli(&mut ctx, "site-replay;cli", "trace");
                }
            }
            _ => ctx
                .sink
                .direct(case, "violation bad-case-descriptor".into()),
        }
    }
    if !agent_cases.is_empty() {
        match build_agent(&mut ctx.sink) {
            None => {
                for c in &agent_cases {
                    ctx.sink
                        .direct(c, "violation agent-binary-unavailable".into());
                }
            }
            Some(agent) => {
                let out = ctx.out.clone();
                let jobs: Vec<(usize, String)> = agent_cases.iter().cloned().enumerate().collect();
                let results = run_pool(jobs, 8, move |(i, case): (usize, String)| {
                    let p: Vec<&str> = case.split(';').collect();
                    let r = run_agent(&agent, &out, p[1], p[2], p[3], p[4], i);
                    (case.clone(), r)
                });
                for (case, (status, texts, secret)) in results {
                    let v = agent_verdict(&texts, &secret, &mut ctx.sink);
                    ctx.sink.direct(&case, v);
                    let p: Vec<&str> = case.split(';').collect();
                    ctx.sink.count(&format!("agent.{}.exit.{status}", p[3]));
                    ctx.sink.add(
                        "captured.bytes.agent",
                        texts.iter().map(|t| t.1.len() as u64).sum(),
                    );
                    ctx.sink
                        .add("needles.searched", secret.needles.len() as u64);
                    let all: String = texts
                        .iter()
                        .map(|t| t.1.as_str())
                        .collect::<Vec<_>>()
                        .join("\n");
                    for marker in [
                        "expected X.509 certificate, got",
                        "expected private key, got",
                        "failed to decode PEM",
                        "no PEM section found",
                        "[secret key elided]",
                        "updater job failed",
                    ] {
                        if all.contains(marker) {
                            ctx.sink
                                .count(&format!("agent.saw.{}", marker.replace(' ', "_")));
                        }
                    }
                }
            }
        }
    }
    // every callsite of the two crates seen at run time must be in the table, with the same fields and level
    let sites: Vec<String> = ctx.sites.iter().cloned().collect();
    for s in sites {
        let case = format!("site;{}", s.replace("logs specsite ", "").replace(' ', ";"));
        ctx.sink.spec(&case, s.clone());
    }
    ctx.sink.add("sites.distinct", ctx.sites.len() as u64);
    let _ = std::io::stdout().flush();
    ctx.sink.write(opts, "logs");
}
