//! C01 / C02 / C03 correspondence: the agent's real reader of installed policies, real candidate
//! reader, real `compare` and real `write_xml` (through the `agent::verif` facade) against the Lean
//! model (`Model/Policy.lean`, `Model/Junos.lean`).
//!
//! A case is an initial ephemeral configuration plus a sequence of running configurations
//! (annotated statements + what the IRR says for each expression). Per step the harness renders the
//! configurations as get-config replies, runs the real pipeline, turns every emitted payload into
//! the generic element list, lets `modeld` apply the implementation's payloads to the reference
//! Junos model, renders the resulting state and feeds it to the real reader again (read-back), and
//! plans a second time with unchanged inputs (idempotence). Rows:
//!   corr  `plan cands` / `plan read` / `plan cmp`   model == implementation
//!   spec  `plan spec1|spec2|spec3`                  C01 / C02 / C03 on the implementation's payloads
use std::{io::Write as _, path::PathBuf, process::Command, str::FromStr};

use quick_xml::{events::Event, Reader};

use crate::util::*;

// ---------------------------------------------------------------------------------------------
// data

#[derive(Clone, Debug, PartialEq, Eq, PartialOrd, Ord)]
pub struct Range {
    pub v6: bool,
    pub addr: u128,
    pub len: u8,
    pub lo: u8,
    pub hi: u8,
}

#[derive(Clone, Debug, PartialEq)]
pub struct JTerm {
    pub name: String,
    pub family: Option<String>,
    pub filters: Vec<Range>,
    pub accept: bool,
}

#[derive(Clone, Debug, PartialEq)]
pub struct JPolicy {
    pub name: String,
    pub comment: Option<String>,
    pub terms: Vec<JTerm>,
    pub reject: bool,
}

pub type JCfg = Vec<JPolicy>;

#[derive(Clone, Debug, PartialEq)]
pub enum Ann {
    None,
    /// raw text after `bgpfu-fltr:` that the rpsl parser rejects
    Malformed(String),
    /// expression in the parser's `Display` form
    Parsed(String),
}

#[derive(Clone, Debug, PartialEq)]
pub struct RStmt {
    pub name: String,
    pub ann: Ann,
    pub active: bool,
    pub reject: bool,
    pub eval: Option<(Vec<Range>, Vec<Range>)>,
}

#[derive(Clone, Debug)]
pub struct Case {
    /// the initial configuration is a state the agent can produce (spec rows apply)
    pub agent: bool,
    pub cfg: JCfg,
    pub steps: Vec<Vec<RStmt>>,
    pub tag: String,
}

// ---------------------------------------------------------------------------------------------
// line encodings (see lean/Bgpfu/Drive/Policy.lean)

fn enc_opt(s: &Option<String>) -> String {
    match s {
        None => "!".into(),
        Some(s) => hexs(s),
    }
}
fn enc_range(r: &Range) -> String {
    format!(
        "{}.{:x}.{}.{}.{}",
        if r.v6 { 6 } else { 4 },
        r.addr,
        r.len,
        r.lo,
        r.hi
    )
}
fn enc_ranges(rs: &[Range]) -> String {
    list(&rs.iter().map(enc_range).collect::<Vec<_>>())
}
fn enc_seplist(items: Vec<String>, sep: &str) -> String {
    if items.is_empty() {
        ".".into()
    } else {
        items.join(sep)
    }
}
fn enc_term(t: &JTerm) -> String {
    format!(
        "{}/{}/{}/{}",
        hexs(&t.name),
        enc_opt(&t.family),
        if t.accept { "a" } else { "n" },
        enc_ranges(&t.filters)
    )
}
fn enc_policy(p: &JPolicy) -> String {
    format!(
        "{}:{}:{}:{}",
        hexs(&p.name),
        enc_opt(&p.comment),
        if p.reject { "r" } else { "n" },
        enc_seplist(p.terms.iter().map(enc_term).collect(), "+")
    )
}
pub fn enc_cfg(c: &JCfg) -> String {
    enc_seplist(c.iter().map(enc_policy).collect(), ";")
}
fn enc_stmt(s: &RStmt) -> String {
    let ann = match &s.ann {
        Ann::None => "n".to_string(),
        Ann::Malformed(_) => "m".to_string(),
        Ann::Parsed(e) => format!("p{}", hexs(e)),
    };
    let eval = match &s.eval {
        None => "!".to_string(),
        Some((a, b)) => format!("{}/{}", enc_ranges(a), enc_ranges(b)),
    };
    format!(
        "{}:{}:{}:{}:{}",
        hexs(&s.name),
        ann,
        if s.active { "a" } else { "i" },
        if s.reject { "r" } else { "n" },
        eval
    )
}
pub fn enc_running(r: &[RStmt]) -> String {
    enc_seplist(r.iter().map(enc_stmt).collect(), ";")
}

fn dec_str(s: &str) -> Option<String> {
    String::from_utf8(unhex(s)?).ok()
}
fn dec_opt(s: &str) -> Option<Option<String>> {
    if s == "!" {
        Some(None)
    } else {
        dec_str(s).map(Some)
    }
}
fn dec_range(s: &str) -> Option<Range> {
    let p: Vec<&str> = s.split('.').collect();
    if p.len() != 5 {
        return None;
    }
    Some(Range {
        v6: match p[0] {
            "4" => false,
            "6" => true,
            _ => return None,
        },
        addr: u128::from_str_radix(p[1], 16).ok()?,
        len: p[2].parse().ok()?,
        lo: p[3].parse().ok()?,
        hi: p[4].parse().ok()?,
    })
}
fn dec_list<T>(s: &str, sep: char, f: impl Fn(&str) -> Option<T>) -> Option<Vec<T>> {
    if s == "." {
        return Some(vec![]);
    }
    s.split(sep).map(f).collect()
}
fn dec_ranges(s: &str) -> Option<Vec<Range>> {
    dec_list(s, ',', dec_range)
}
fn dec_term(s: &str) -> Option<JTerm> {
    let p: Vec<&str> = s.split('/').collect();
    if p.len() != 4 {
        return None;
    }
    Some(JTerm {
        name: dec_str(p[0])?,
        family: dec_opt(p[1])?,
        accept: p[2] == "a",
        filters: dec_ranges(p[3])?,
    })
}
fn dec_policy(s: &str) -> Option<JPolicy> {
    let p: Vec<&str> = s.split(':').collect();
    if p.len() != 4 {
        return None;
    }
    Some(JPolicy {
        name: dec_str(p[0])?,
        comment: dec_opt(p[1])?,
        reject: p[2] == "r",
        terms: dec_list(p[3], '+', dec_term)?,
    })
}
pub fn dec_cfg(s: &str) -> Option<JCfg> {
    dec_list(s, ';', dec_policy)
}
fn dec_stmt(s: &str) -> Option<RStmt> {
    let p: Vec<&str> = s.split(':').collect();
    if p.len() != 5 {
        return None;
    }
    let ann = match p[1] {
        "n" => Ann::None,
        x if x.starts_with('m') => Ann::Malformed(dec_str(&x[1..]).unwrap_or_default()),
        x if x.starts_with('p') => Ann::Parsed(dec_str(&x[1..])?),
        _ => return None,
    };
    let eval = if p[4] == "!" {
        None
    } else {
        let (a, b) = p[4].split_once('/')?;
        Some((dec_ranges(a)?, dec_ranges(b)?))
    };
    Some(RStmt {
        name: dec_str(p[0])?,
        ann,
        active: p[2] == "a",
        reject: p[3] == "r",
        eval,
    })
}

impl Case {
    /// re-runnable descriptor: `a|x @ cfg @ running … ` (malformed annotations keep their raw text)
    pub fn descr(&self) -> String {
        let mut s = format!(
            "{}@{}",
            if self.agent { "a" } else { "x" },
            enc_cfg(&self.cfg)
        );
        for st in &self.steps {
            s.push('@');
            s.push_str(&enc_seplist(
                st.iter()
                    .map(|x| {
                        let mut e = enc_stmt(x);
                        if let Ann::Malformed(raw) = &x.ann {
                            // n:m:… → n:m<rawhex>:…
                            let p: Vec<&str> = e.splitn(3, ':').collect();
                            e = format!("{}:m{}:{}", p[0], hexs(raw), p[2]);
                        }
                        e
                    })
                    .collect(),
                ";",
            ));
        }
        s
    }
    pub fn parse(s: &str) -> Option<Case> {
        let p: Vec<&str> = s.split('@').collect();
        if p.len() < 2 {
            return None;
        }
        let steps = p[2..]
            .iter()
            .map(|r| dec_list(r, ';', dec_stmt))
            .collect::<Option<Vec<_>>>()?;
        Some(Case {
            agent: p[0] == "a",
            cfg: dec_cfg(p[1])?,
            steps,
            tag: "replay".into(),
        })
    }
}

// ---------------------------------------------------------------------------------------------
// rendering as NETCONF replies (DESIGN.md Appendix B `renderGetConfig`)

const HDR: &str = r#"<rpc-reply xmlns="urn:ietf:params:xml:ns:netconf:base:1.0" message-id="1"><data><configuration xmlns="http://xml.juniper.net/xnm/1.1/xnm">"#;
const TRL: &str = "</configuration></data></rpc-reply>";

/// text content as Junos emits it: only the three characters that must be escaped
fn esc_text(s: &str) -> String {
    s.replace('&', "&amp;")
        .replace('<', "&lt;")
        .replace('>', "&gt;")
}
fn esc_attr(s: &str) -> String {
    esc_text(s).replace('"', "&quot;")
}

pub fn addr_text(r: &Range) -> String {
    if r.v6 {
        format!("{}/{}", std::net::Ipv6Addr::from(r.addr), r.len)
    } else if r.addr > u32::MAX as u128 {
        // not an IPv4 address: the excess shows in the first component (as `showV4L` in Spec/InstalledGrammar.lean)
        format!(
            "{}.{}.{}.{}/{}",
            r.addr >> 24,
            (r.addr >> 16) & 255,
            (r.addr >> 8) & 255,
            r.addr & 255,
            r.len
        )
    } else {
        format!("{}/{}", std::net::Ipv4Addr::from(r.addr as u32), r.len)
    }
}

pub fn render_get_config(cfg: &JCfg) -> String {
    let mut s = String::from(HDR);
    if !cfg.is_empty() {
        s.push_str("<policy-options>");
        for p in cfg {
            s.push_str("<policy-statement>");
            s.push_str(&format!("<name>{}</name>", esc_text(&p.name)));
            for t in &p.terms {
                s.push_str(&format!("<term><name>{}</name>", esc_text(&t.name)));
                if t.family.is_some() || !t.filters.is_empty() {
                    s.push_str("<from>");
                    if let Some(f) = &t.family {
                        s.push_str(&format!("<family>{}</family>", esc_text(f)));
                    }
                    for r in &t.filters {
                        s.push_str(&format!(
                            "<route-filter><address>{}</address><choice-ident>prefix-length-range</choice-ident><choice-value>/{}-/{}</choice-value></route-filter>",
                            addr_text(r), r.lo, r.hi
                        ));
                    }
                    s.push_str("</from>");
                }
                if t.accept {
                    s.push_str("<then><accept/></then>");
                }
                s.push_str("</term>");
            }
            if p.reject {
                s.push_str("<then><reject/></then>");
            }
            s.push_str("</policy-statement>");
        }
        s.push_str("</policy-options>");
    }
    s.push_str(TRL);
    s
}

pub fn render_running(stmts: &[RStmt]) -> String {
    let mut s = String::from(HDR);
    s.push_str("<policy-options>");
    for (i, st) in stmts.iter().enumerate() {
        s.push_str(r#"<policy-statement xmlns:jcmd="http://yang.juniper.net/junos/jcmd""#);
        match &st.ann {
            Ann::None => {
                if i % 2 == 0 {
                    s.push_str(r#" jcmd:comment="/* unrelated comment */""#);
                }
            }
            Ann::Malformed(e) | Ann::Parsed(e) => {
                s.push_str(&format!(
                    r#" jcmd:comment="/* bgpfu-fltr: {} */""#,
                    esc_attr(e)
                ));
            }
        }
        if !st.active {
            s.push_str(r#" jcmd:active="false""#);
        }
        s.push('>');
        s.push_str(&format!("<name>{}</name>", esc_text(&st.name)));
        if st.reject {
            s.push_str("<then><reject/></then>");
        }
        s.push_str("</policy-statement>");
    }
    s.push_str("</policy-options>");
    s.push_str(TRL);
    s
}

// ---------------------------------------------------------------------------------------------
// payload XML → generic element list

fn enc_tag(t: &str) -> String {
    if !t.is_empty()
        && t.bytes()
            .all(|b| b.is_ascii_alphanumeric() || b == b'-' || b == b':' || b == b'_')
    {
        t.to_string()
    } else {
        format!("%{}", hexs(t))
    }
}

fn canon_comment(v: &str) -> String {
    const A: &str = "Last updated at ";
    const B: &str = " from mp-filter expression ";
    if let Some(rest) = v.strip_prefix(A) {
        if let Some(i) = rest.find(B) {
            return format!("{A}T{}", &rest[i..]);
        }
    }
    v.to_string()
}

fn canon_addr(t: &str) -> String {
    if let Some((a, l)) = t.split_once('/') {
        if let Ok(l) = l.parse::<u8>() {
            if let Ok(a) = std::net::Ipv4Addr::from_str(a) {
                return format!("4.{:x}.{}", u32::from(a), l);
            }
            if let Ok(a) = std::net::Ipv6Addr::from_str(a) {
                return format!("6.{:x}.{}", u128::from(a), l);
            }
        }
    }
    t.to_string()
}

/// `Err` if the payload is not well-formed XML
pub fn payload_entries(xml: &str) -> Result<String, String> {
    struct E {
        path: Vec<String>,
        attrs: Vec<(String, String)>,
        text: Option<String>,
    }
    let mut rd = Reader::from_str(xml);
    let mut stack: Vec<usize> = vec![];
    let mut out: Vec<E> = vec![];
    let mut path: Vec<String> = vec![];
    loop {
        match rd.read_event().map_err(|e| e.to_string())? {
            ev @ (Event::Start(_) | Event::Empty(_)) => {
                let (t, empty) = match &ev {
                    Event::Start(t) => (t, false),
                    Event::Empty(t) => (t, true),
                    _ => unreachable!(),
                };
                let name = String::from_utf8_lossy(t.name().as_ref()).to_string();
                path.push(enc_tag(&name));
                let mut attrs = vec![];
                for a in t.attributes() {
                    let a = a.map_err(|e| e.to_string())?;
                    let k = String::from_utf8_lossy(a.key.as_ref()).to_string();
                    let v = a.unescape_value().map_err(|e| e.to_string())?.to_string();
                    let v = if k == "junos:comment" {
                        canon_comment(&v)
                    } else {
                        v
                    };
                    attrs.push((enc_tag(&k), v));
                }
                out.push(E {
                    path: path.clone(),
                    attrs,
                    text: None,
                });
                if empty {
                    path.pop();
                } else {
                    stack.push(out.len() - 1);
                }
            }
            Event::Text(t) => {
                let txt = t.unescape().map_err(|e| e.to_string())?.to_string();
                match stack.last() {
                    Some(&i) => {
                        let cur = out[i].text.take().unwrap_or_default();
                        out[i].text = Some(cur + &txt);
                    }
                    None => {
                        if !txt.trim().is_empty() {
                            return Err("text outside the root element".into());
                        }
                    }
                }
            }
            Event::End(_) => {
                stack.pop();
                path.pop();
            }
            Event::Eof => break,
            Event::Comment(_) => {}
            other => return Err(format!("unexpected xml event {other:?}")),
        }
    }
    if out.is_empty() {
        return Err("empty payload".into());
    }
    Ok(out
        .iter()
        .map(|e| {
            let attrs = if e.attrs.is_empty() {
                "!".to_string()
            } else {
                e.attrs
                    .iter()
                    .map(|(k, v)| format!("{k}={}", hexs(v)))
                    .collect::<Vec<_>>()
                    .join("&")
            };
            let text = match &e.text {
                None => "!".to_string(),
                Some(t) => {
                    if e.path.last().map(String::as_str) == Some("address") {
                        hexs(&canon_addr(t))
                    } else {
                        hexs(t)
                    }
                }
            };
            format!("{}?{}?{}", e.path.join("/"), attrs, text)
        })
        .collect::<Vec<_>>()
        .join(","))
}

pub fn enc_payloads(r: &Result<Vec<String>, String>) -> String {
    match r {
        Err(_) => "err".into(),
        Ok(v) => {
            if v.is_empty() {
                ".".into()
            } else {
                v.iter()
                    .map(|x| payload_entries(x).unwrap_or_else(|_| "malformed-xml?!?!".into()))
                    .collect::<Vec<_>>()
                    .join("|")
            }
        }
    }
}

// ---------------------------------------------------------------------------------------------
// the real code

pub fn fromstr_syntax(r: &Range) -> String {
    format!("{},{},{}", addr_text(r), r.lo, r.hi)
}

/// `192.0.2.0/24^24-32` → Range
pub fn parse_display(s: &str, v6: bool) -> Option<Range> {
    let (p, lr) = s.split_once('^')?;
    let (a, l) = p.split_once('/')?;
    let (lo, hi) = lr.split_once('-')?;
    let addr = if v6 {
        u128::from(std::net::Ipv6Addr::from_str(a).ok()?)
    } else {
        u32::from(std::net::Ipv4Addr::from_str(a).ok()?) as u128
    };
    Some(Range {
        v6,
        addr,
        len: l.parse().ok()?,
        lo: lo.parse().ok()?,
        hi: hi.parse().ok()?,
    })
}

fn catch<T>(f: impl FnOnce() -> Result<T, String> + std::panic::UnwindSafe) -> Result<T, String> {
    match std::panic::catch_unwind(f) {
        Ok(r) => r,
        Err(_) => Err("panic".into()),
    }
}

/// canonical `ok:<name>:<v4>/<v6>;…` | `err`
pub fn real_read_installed(cfg: &JCfg) -> String {
    real_read_installed_xml(render_get_config(cfg))
}

/// the real reader on an arbitrary reply document
pub fn real_read_installed_xml(xml: String) -> String {
    match catch(move || agent::verif::read_installed(&xml)) {
        Err(_) => "err".into(),
        Ok(v) => {
            let mut items: Vec<(Vec<u8>, String)> = v
                .iter()
                .map(|(n, a, b)| {
                    let mut ra: Vec<Range> =
                        a.iter().filter_map(|s| parse_display(s, false)).collect();
                    let mut rb: Vec<Range> =
                        b.iter().filter_map(|s| parse_display(s, true)).collect();
                    assert!(
                        ra.len() == a.len() && rb.len() == b.len(),
                        "unparsable range in {a:?} {b:?}"
                    );
                    ra.sort();
                    rb.sort();
                    (
                        n.as_bytes().to_vec(),
                        format!("{}:{}/{}", hexs(n), enc_ranges(&ra), enc_ranges(&rb)),
                    )
                })
                .collect();
            items.sort();
            format!(
                "ok:{}",
                enc_seplist(items.into_iter().map(|x| x.1).collect(), ";")
            )
        }
    }
}

pub fn parses(expr: &str) -> Option<String> {
    rpsl::expr::MpFilterExpr::from_str(expr)
        .ok()
        .map(|e| e.to_string())
}

/// the real candidate reader: `Ok(vec of (raw name, expression text))`
pub fn real_candidates(running: &[RStmt]) -> Result<Vec<(String, String)>, String> {
    let xml = render_running(running);
    catch(move || agent::verif::read_candidates(&xml))
}

pub fn canon_cands(r: &Result<Vec<(String, String)>, String>) -> String {
    match r {
        Err(_) => "err".into(),
        Ok(v) => {
            let mut items: Vec<(Vec<u8>, String)> = v
                .iter()
                .map(|(n, e)| {
                    let e2 = if parses(e).is_some() {
                        hexs(e)
                    } else {
                        "!".to_string()
                    };
                    (n.as_bytes().to_vec(), format!("{}:{}", hexs(n), e2))
                })
                .collect();
            items.sort();
            format!(
                "ok:{}",
                list(&items.into_iter().map(|x| x.1).collect::<Vec<_>>())
            )
        }
    }
}

type EvImpl = Vec<(String, String, Option<(Vec<String>, Vec<String>)>)>;

/// what the evaluation stage hands to `compare`: per candidate the IRR result for its expression
pub fn ev_impl(cands: &[(String, String)], running: &[RStmt]) -> EvImpl {
    cands
        .iter()
        .map(|(n, e)| {
            let res = running
                .iter()
                .find(|s| s.ann == Ann::Parsed(e.clone()))
                .and_then(|s| s.eval.clone());
            (
                n.clone(),
                e.clone(),
                res.map(|(a, b)| {
                    (
                        a.iter().map(fromstr_syntax).collect(),
                        b.iter().map(fromstr_syntax).collect(),
                    )
                }),
            )
        })
        .collect()
}

pub fn real_plan(cfg: &JCfg, ev: &EvImpl) -> Result<Vec<String>, String> {
    let xml = render_get_config(cfg);
    let ev = ev.clone();
    catch(move || agent::verif::plan(&xml, &ev))
}

// ---------------------------------------------------------------------------------------------
// modeld (reference Junos: applies the implementation's payloads)

fn modeld_path() -> PathBuf {
    if let Ok(p) = std::env::var("VERIF_MODELD") {
        return p.into();
    }
    let exe = std::env::current_exe().unwrap();
    // <root>/harness/target/debug/vh → <root>/lean/.lake/build/bin/modeld
    let root = exe
        .ancestors()
        .nth(4)
        .map(|p| p.to_path_buf())
        .unwrap_or_default();
    root.join("lean/.lake/build/bin/modeld")
}

pub fn ask_model(lines: &[String]) -> Vec<String> {
    if lines.is_empty() {
        return vec![];
    }
    let mut child = Command::new(modeld_path())
        .stdin(std::process::Stdio::piped())
        .stdout(std::process::Stdio::piped())
        .spawn()
        .expect("cannot start modeld (build it with `lake build modeld`)");
    let mut stdin = child.stdin.take().unwrap();
    let body = lines.join("\n") + "\n";
    let w = std::thread::spawn(move || {
        let _ = stdin.write_all(body.as_bytes());
    });
    let out = child.wait_with_output().unwrap();
    w.join().unwrap();
    let v: Vec<String> = String::from_utf8_lossy(&out.stdout)
        .lines()
        .map(str::to_string)
        .collect();
    assert_eq!(
        v.len(),
        lines.len(),
        "modeld answered {} of {} lines",
        v.len(),
        lines.len()
    );
    v
}

// ---------------------------------------------------------------------------------------------
// generators

fn v4(a: [u8; 4], len: u8, lo: u8, hi: u8) -> Range {
    Range {
        v6: false,
        addr: u32::from_be_bytes(a) as u128,
        len,
        lo,
        hi,
    }
}
fn v6(a: &str, len: u8, lo: u8, hi: u8) -> Range {
    Range {
        v6: true,
        addr: u128::from(std::net::Ipv6Addr::from_str(a).unwrap()),
        len,
        lo,
        hi,
    }
}

/// 12 ranges per family; several share a prefix and differ only in the length range
pub fn universe(six: bool) -> Vec<Range> {
    if !six {
        vec![
            v4([192, 0, 2, 0], 24, 24, 24),
            v4([192, 0, 2, 0], 24, 24, 32),
            v4([192, 0, 2, 0], 24, 25, 32),
            v4([10, 0, 0, 0], 8, 8, 24),
            v4([10, 0, 0, 0], 8, 16, 24),
            v4([198, 51, 100, 0], 24, 24, 24),
            v4([203, 0, 113, 0], 25, 25, 32),
            v4([0, 0, 0, 0], 0, 0, 32),
            v4([172, 16, 0, 0], 12, 12, 12),
            v4([192, 0, 2, 128], 25, 25, 25),
            v4([100, 64, 0, 0], 10, 10, 32),
            v4([255, 255, 255, 255], 32, 32, 32),
        ]
    } else {
        vec![
            v6("2001:db8::", 32, 32, 32),
            v6("2001:db8::", 32, 32, 48),
            v6("2001:db8::", 32, 48, 64),
            v6("::", 0, 0, 128),
            v6("2c0f:fa90::", 32, 33, 48),
            v6("fe80::", 10, 10, 64),
            v6("2001:db8:1::", 48, 48, 48),
            v6("::1", 128, 128, 128),
            v6("2001:db8:ffff::", 48, 48, 128),
            v6("ff00::", 8, 8, 8),
            v6("2400::", 12, 12, 32),
            v6("64:ff9b::", 96, 96, 128),
        ]
    }
}

const PLAIN_NAMES: &[&str] = &[
    "fltr-foo",
    "p1",
    "AS-FOO:in",
    "it's",
    "say\"hi\"",
    "ünï-ß",
    "with space",
    "x",
    "fltr-bar",
    "p2",
];
const META_NAMES: &[&str] = &["a&b", "x<y", "q>r", "r&d;x", "<&>"];

fn subset(rng: &mut Rng, uni: &[Range], p_empty: u64) -> Vec<Range> {
    if rng.chance(p_empty, 100) {
        return vec![];
    }
    let k = 1 + rng.below(4);
    let mut v: Vec<Range> = (0..k).map(|_| rng.pick(uni).clone()).collect();
    v.sort();
    v.dedup();
    rng.shuffle(&mut v);
    v
}

fn agent_term(six: bool, filters: Vec<Range>) -> JTerm {
    let n = if six { "inet6" } else { "inet" };
    JTerm {
        name: n.into(),
        family: Some(n.into()),
        filters,
        accept: true,
    }
}

/// a policy as the (repaired) agent installs it for the evaluated sets `a`, `b`
pub fn agent_policy(name: &str, a: &[Range], b: &[Range], flip: bool) -> JPolicy {
    let mut terms = vec![];
    if !a.is_empty() {
        terms.push(agent_term(false, a.to_vec()));
    }
    if !b.is_empty() {
        terms.push(agent_term(true, b.to_vec()));
    }
    if flip {
        terms.reverse();
    }
    JPolicy {
        name: name.into(),
        comment: None,
        terms,
        reject: true,
    }
}

fn tag_expr(i: usize) -> String {
    format!("AS-X{i}")
}

/// syntactic breakages of an annotation; `None` if the rpsl parser accepts the text after all
fn breakage(rng: &mut Rng, i: usize) -> String {
    let t = tag_expr(i);
    let all: Vec<String> = vec![
        "error!".into(),
        format!("{t} AND"),
        format!("({t}"),
        format!("{t})"),
        format!("{t} OR OR AS-Y{i}"),
        "{10.0.0.0/33}".into(),
        format!("{t}^"),
        "{192.0.2.0/24^33}".into(),
        format!("{t} AND NOT"),
        String::new(),
        format!("{t}!"),
        format!("{t} EXCEPT"),
        format!("<{t}"),
        "{2001:db8::/129}".into(),
        format!("{t}^24-8"),
        format!("{t} && AS-Y{i}"),
        format!("\"{t}\""),
        format!("{t};"),
        "{,}".into(),
        format!("{t} AS-Y{i}"),
        format!("AND {t}"),
        format!("{t} OR"),
        "{192.0.2.0/24".into(),
        "192.0.2.0/24}".into(),
        format!("{t}^+-"),
        format!("NOT NOT"),
        format!("AS-"),
        format!("{{{t}}}"),
        format!("{t}^33-34"),
        format!("AS{i}x"),
        format!("AS99999999999"),
        format!("{t}:"),
        format!("RS-{i} AND ("),
        format!("{t} & {t}"),
        format!("{{192.0.2.0/24^24-32,}}"),
        format!("{{192.0.2.0/24^-+}}"),
        format!("fltr-{i}"),
        format!("community(65000:{i})("),
        format!("<^AS{i} .*"),
        format!("{t} AND {{ 10.0.0.0/8 }}^"),
    ];
    all[rng.below(all.len())].clone()
}

fn mk_stmt(
    rng: &mut Rng,
    name: &str,
    i: usize,
    p_fail: u64,
    p_empty: u64,
    p_malformed: u64,
) -> RStmt {
    let roll = rng.below(100) as u64;
    let ann = if roll < p_malformed {
        let raw = breakage(rng, i);
        match parses(&raw) {
            None => Ann::Malformed(raw),
            Some(_) => Ann::Parsed(tag_expr(i)),
        }
    } else if roll < p_malformed + 6 {
        Ann::None
    } else {
        Ann::Parsed(tag_expr(i))
    };
    let eval = if rng.chance(p_fail, 100) {
        None
    } else {
        Some((
            subset(rng, &universe(false), p_empty),
            subset(rng, &universe(true), p_empty),
        ))
    };
    RStmt {
        name: name.into(),
        ann,
        active: !rng.chance(5, 100),
        reject: !rng.chance(5, 100),
        eval,
    }
}

/// old/new contents for the relation `rel` ∈ equal, subset, superset, disjoint, overlapping
fn related(uni: &[Range], rel: usize, off: usize) -> (Vec<Range>, Vec<Range>) {
    let u = |i: usize| uni[(i + off) % uni.len()].clone();
    match rel {
        0 => (vec![u(0), u(1)], vec![u(1), u(0)]),
        1 => (vec![u(0)], vec![u(0), u(1), u(2)]),
        2 => (vec![u(0), u(1), u(2)], vec![u(2)]),
        3 => (vec![u(0), u(1)], vec![u(2), u(3)]),
        _ => (vec![u(0), u(1), u(2)], vec![u(1), u(2), u(3)]),
    }
}

/// the 6 × 6 per-family shapes × 5 content relations, each as a one-step case
fn shape_cases() -> Vec<Case> {
    let mut out = vec![];
    // per family: old ∈ {policy absent, term absent, non-empty}, new ∈ {empty, non-empty}
    for s4 in 0..6 {
        for s6 in 0..6 {
            for rel in 0..5 {
                let (o4, n4) = (s4 / 2, s4 % 2);
                let (o6, n6) = (s6 / 2, s6 % 2);
                let (old4, new4) = related(&universe(false), rel, s6);
                let (old6, new6) = related(&universe(true), rel, s4);
                let a = if n4 == 1 { new4 } else { vec![] };
                let b = if n6 == 1 { new6 } else { vec![] };
                let absent = o4 == 0 || o6 == 0;
                let cfg = if absent {
                    vec![]
                } else {
                    vec![agent_policy(
                        "fltr-foo",
                        if o4 == 2 { &old4 } else { &[] },
                        if o6 == 2 { &old6 } else { &[] },
                        rel % 2 == 1,
                    )]
                };
                let st = RStmt {
                    name: "fltr-foo".into(),
                    ann: Ann::Parsed(tag_expr(1)),
                    active: true,
                    reject: true,
                    eval: Some((a, b)),
                };
                out.push(Case {
                    agent: true,
                    cfg,
                    steps: vec![vec![st.clone()], vec![st]],
                    tag: format!("shape.{o4}{n4}.{o6}{n6}.r{rel}"),
                });
            }
        }
    }
    // scale: more than a thousand route-filters of one family leave (or enter) the evaluated set in one
    // run (a large as-set churns): whatever is done differently above some size must still be a merge
    // patch that deletes what is stale
    for (tag, n_old, n_new) in [("churn-1100-to-5", 1100usize, 5usize), ("churn-1025-to-1", 1025, 1), ("grow-3-to-1100", 3, 1100), ("churn-1100-to-1100", 1100, 1100)] {
        let big = |n: usize, off: u32| -> Vec<Range> {
            (0..n as u32).map(|k| v4([10, ((k + off) / 256) as u8, ((k + off) % 256) as u8, 0], 24, 24, 24)).collect()
        };
        let old4 = big(n_old, 0);
        let new4 = big(n_new, 2000);
        let u6 = universe(true);
        let st = RStmt {
            name: "fltr-big".into(),
            ann: Ann::Parsed(tag_expr(1)),
            active: true,
            reject: true,
            eval: Some((new4, vec![u6[0].clone()])),
        };
        out.push(Case {
            agent: true,
            cfg: vec![agent_policy("fltr-big", &old4, &u6[0..1], false)],
            steps: vec![vec![st.clone()], vec![st]],
            tag: format!("scale.{tag}"),
        });
    }
    out
}

/// configurations the agent never produces: only the reader / compare / render correspondence applies
fn foreign_cases() -> Vec<Case> {
    let u4 = universe(false);
    let u6 = universe(true);
    let good = agent_policy("p1", &u4[0..2], &u6[0..1], false);
    let st = |n: &str| RStmt {
        name: n.into(),
        ann: Ann::Parsed(tag_expr(1)),
        active: true,
        reject: true,
        eval: Some((vec![u4[1].clone()], vec![])),
    };
    let mut v: Vec<(String, JCfg)> = vec![];
    let mut m = |tag: &str, f: &dyn Fn(&mut JPolicy)| {
        let mut p = good.clone();
        f(&mut p);
        v.push((tag.to_string(), vec![p]));
    };
    m("no-accept", &|p| p.terms[0].accept = false);
    m("no-family", &|p| p.terms[0].family = None);
    m("no-from", &|p| {
        p.terms[0].family = None;
        p.terms[0].filters.clear()
    });
    m("empty-term", &|p| {
        p.terms.push(JTerm {
            name: "inet6".into(),
            family: None,
            filters: vec![],
            accept: false,
        })
    });
    m("name-mismatch", &|p| p.terms[0].name = "v4".into());
    m("unknown-family", &|p| {
        p.terms[0].name = "iso".into();
        p.terms[0].family = Some("iso".into())
    });
    m("dup-family", &|p| {
        let t = p.terms[0].clone();
        p.terms.push(t)
    });
    m("padded-family", &|p| {
        p.terms[0].family = Some(" inet ".into())
    });
    m("padded-family-nl", &|p| {
        p.terms[0].family = Some("\n\tinet\n".into())
    });
    m("padded-family-nbsp", &|p| {
        p.terms[0].family = Some("\u{a0}inet\u{2003}".into())
    });
    m("padded-family-and-name", &|p| {
        p.terms[0].family = Some(" inet".into());
        p.terms[0].name = " inet".into()
    });
    m("padded-name", &|p| p.terms[0].name = "inet ".into());
    m("padded-unknown-family", &|p| {
        p.terms[0].family = Some(" iso ".into());
        p.terms[0].name = "iso".into()
    });
    m("family-inner-space", &|p| {
        p.terms[0].family = Some("in et".into())
    });
    m("no-reject", &|p| p.reject = false);
    m("no-reject-bad-term", &|p| {
        p.reject = false;
        p.terms[0].accept = false
    });
    m("accept-no-filters", &|p| p.terms[0].filters.clear());
    m("lo-below-len", &|p| p.terms[0].filters[0].lo = 20);
    m("hi-below-lo", &|p| {
        p.terms[0].filters[0].lo = 30;
        p.terms[0].filters[0].hi = 28
    });
    m("hi-too-large", &|p| p.terms[0].filters[0].hi = 33);
    m("len-too-large", &|p| p.terms[0].filters[0].len = 40);
    m("host-bits", &|p| p.terms[0].filters[0].addr += 5);
    m("wrong-afi", &|p| {
        p.terms[0].filters.push(universe(true)[0].clone())
    });
    m("dup-filter", &|p| {
        let f = p.terms[0].filters[0].clone();
        p.terms[0].filters.push(f)
    });
    m("term-order", &|p| p.terms.reverse());
    for fam in ["evpn", "iso", "inet-vpn", "inet6 ", "INET"] {
        m(&format!("extra-family-term-{}", fam.trim()), &|p| {
            p.terms.push(JTerm { name: fam.into(), family: Some(fam.into()), filters: vec![], accept: true })
        });
        m(&format!("extra-family-term-first-{}", fam.trim()), &|p| {
            p.terms.insert(0, JTerm { name: fam.into(), family: Some(fam.into()), filters: vec![], accept: true })
        });
    }
    m("no-terms", &|p| p.terms.clear());
    v.push(("dup-policy".into(), vec![good.clone(), good.clone()]));
    let mut nr = good.clone();
    nr.reject = false;
    v.push(("dup-policy-one-skipped".into(), vec![good.clone(), nr]));
    v.into_iter()
        .flat_map(|(tag, cfg)| {
            vec![
                Case {
                    agent: false,
                    cfg: cfg.clone(),
                    steps: vec![vec![st("p1")]],
                    tag: format!("foreign.{tag}"),
                },
                Case {
                    agent: false,
                    cfg,
                    steps: vec![vec![st("other")]],
                    tag: format!("foreign.{tag}.unmanaged"),
                },
            ]
        })
        .collect()
}

/// C03 witnesses: every way a marked statement can fail to yield prefix data, against every
/// installed shape
fn c03_cases(rng: &mut Rng) -> Vec<Case> {
    let u4 = universe(false);
    let u6 = universe(true);
    let mut out = vec![];
    let installed: Vec<(&str, JCfg)> = vec![
        ("none", vec![]),
        (
            "both",
            vec![agent_policy("p1", &u4[0..2], &u6[0..2], false)],
        ),
        ("v4only", vec![agent_policy("p1", &u4[0..2], &[], false)]),
        (
            "two",
            vec![
                agent_policy("p1", &u4[0..2], &u6[0..2], false),
                agent_policy("p2", &u4[2..3], &u6[2..3], false),
            ],
        ),
    ];
    for (itag, cfg) in &installed {
        for kind in 0..45 {
            let other = RStmt {
                name: "p2".into(),
                ann: Ann::Parsed(tag_expr(2)),
                active: true,
                reject: true,
                eval: Some((vec![u4[4].clone()], vec![u6[4].clone()])),
            };
            let (ann, eval, tag) = match kind {
                0 => (Ann::Parsed(tag_expr(1)), None, "failed".to_string()),
                1 => (Ann::None, None, "unannotated".to_string()),
                2 => (
                    Ann::Parsed(tag_expr(1)),
                    Some((vec![], vec![])),
                    "evaluates-empty".to_string(),
                ),
                3 => (
                    Ann::Parsed(tag_expr(1)),
                    Some((vec![u4[0].clone()], vec![u6[0].clone()])),
                    "ok".to_string(),
                ),
                k => {
                    let mut r = Rng::new(k as u64 * 7919);
                    let raw = breakage(&mut r, 1);
                    let _ = rng.next();
                    match parses(&raw) {
                        None => (Ann::Malformed(raw), None, format!("malformed{k}")),
                        Some(_) => continue,
                    }
                }
            };
            let s = RStmt {
                name: "p1".into(),
                ann,
                active: true,
                reject: true,
                eval,
            };
            out.push(Case {
                agent: true,
                cfg: cfg.clone(),
                steps: vec![vec![s.clone(), other.clone()], vec![s, other]],
                tag: format!("c03.{itag}.{tag}"),
            });
        }
    }
    out
}

fn random_history(rng: &mut Rng, idx: usize) -> Case {
    // mode: 0 = families never empty (deep sequences even where an empty family breaks the
    // read-back), 1 = anything, 2 = names with XML metacharacters
    let mode = match idx % 10 {
        0..=3 => 0,
        9 => 2,
        _ => 1,
    };
    let p_empty = if mode == 0 { 0 } else { 30 };
    let pool: Vec<&str> = if mode == 2 {
        let mut p: Vec<&str> = META_NAMES.to_vec();
        p.push("p1");
        p
    } else {
        let k = 2 + rng.below(3);
        let off = rng.below(PLAIN_NAMES.len());
        (0..k)
            .map(|i| PLAIN_NAMES[(off + i) % PLAIN_NAMES.len()])
            .collect()
    };
    // initial state: empty, or what the agent would have installed earlier
    let mut cfg: JCfg = vec![];
    if rng.chance(1, 2) {
        for n in &pool {
            if rng.chance(1, 2) {
                let a = subset(rng, &universe(false), p_empty);
                let b = subset(rng, &universe(true), p_empty);
                cfg.push(agent_policy(n, &a, &b, rng.chance(1, 3)));
            }
        }
    }
    let nsteps = 2 + rng.below(5);
    let mut steps = vec![];
    for _ in 0..nsteps {
        let mut st = vec![];
        for (i, n) in pool.iter().enumerate() {
            if rng.chance(3, 4) {
                st.push(mk_stmt(
                    rng,
                    n,
                    i,
                    if mode == 0 { 8 } else { 15 },
                    p_empty,
                    if mode == 0 { 3 } else { 8 },
                ));
            }
        }
        if rng.chance(1, 25) && !st.is_empty() {
            // duplicate statement name in the running configuration
            let mut d = st[0].clone();
            d.ann = Ann::Parsed(tag_expr(90));
            st.push(d);
        }
        rng.shuffle(&mut st);
        steps.push(st);
    }
    Case {
        agent: true,
        cfg,
        steps,
        tag: format!("hist.m{mode}"),
    }
}

// ---------------------------------------------------------------------------------------------
// driver

struct Live {
    case: Case,
    descr: String,
    cfg: JCfg,
    step: usize,
}

pub fn main(opts: &Opts) {
    let mut variant = "fixed".to_string();
    let mut prop = "all".to_string();
    // `evlevel=1`: additionally the event-level rows (src/instev.rs) for every distinct configuration
    // (capped: an event list with all its `read_text` spans is ~50 kB per configuration)
    let evlevel = opts.extra.iter().any(|e| e == "evlevel=1");
    let ev_cap = if opts.thorough() { 5000 } else { 1000 };
    let mut ev_seen: std::collections::HashSet<String> = Default::default();
    for e in &opts.extra {
        if let Some(v) = e.strip_prefix("variant=") {
            variant = v.to_string();
        }
        if let Some(v) = e.strip_prefix("prop=") {
            prop = v.to_string();
        }
    }
    // self-check of the generator's assumption: tags are in the parser's Display form
    for i in [0usize, 1, 7, 90] {
        assert_eq!(parses(&tag_expr(i)).as_deref(), Some(tag_expr(i).as_str()));
    }
    let mut sink = Sink::new();
    let mut rng = Rng::new(opts.seed);
    let mut cases: Vec<Case> = vec![];
    if let Some(p) = &opts.replay {
        for l in std::fs::read_to_string(p).unwrap_or_default().lines() {
            if let Some(d) = l.strip_prefix("case\t") {
                let d = d.split('\t').next().unwrap_or("");
                // a violation row names `descr#step`
                let d = d.split('#').next().unwrap_or("");
                if let Some(c) = Case::parse(d) {
                    cases.push(c);
                }
            }
        }
    } else {
        cases.extend(shape_cases());
        cases.extend(foreign_cases());
        cases.extend(c03_cases(&mut rng));
        let n = if opts.thorough() { 12000 } else { 700 };
        for i in 0..n {
            cases.push(random_history(&mut rng, i));
        }
    }
    sink.add("cases", cases.len() as u64);

    let mut live: Vec<Live> = cases
        .into_iter()
        .map(|c| {
            let descr = c.descr();
            Live {
                cfg: c.cfg.clone(),
                case: c,
                descr,
                step: 0,
            }
        })
        .collect();

    while !live.is_empty() {
        // phase 1: the real pipeline on every live case
        struct Work {
            running: Vec<RStmt>,
            ev: EvImpl,
            payloads: Result<Vec<String>, String>,
            enc_pl: String,
            case_id: String,
        }
        let mut work: Vec<Work> = vec![];
        let mut apply_lines = vec![];
        for l in &live {
            let running = l.case.steps[l.step].clone();
            let case_id = format!("{}#{}", l.descr, l.step);
            progress(&case_id);
            let cands = real_candidates(&running);
            sink.corr(
                &case_id,
                format!("plan cands {variant} {}", enc_running(&running)),
                canon_cands(&cands),
            );
            sink.corr(
                &case_id,
                format!("plan read {variant} {}", enc_cfg(&l.cfg)),
                real_read_installed(&l.cfg),
            );
            if evlevel && ev_seen.len() < ev_cap && ev_seen.insert(enc_cfg(&l.cfg)) {
                crate::instev::ev_rows(&mut sink, &case_id, &l.cfg);
            }
            let (ev, payloads) = match &cands {
                Ok(c) => {
                    let ev = ev_impl(c, &running);
                    let p = real_plan(&l.cfg, &ev);
                    (ev, p)
                }
                Err(e) => (vec![], Err(format!("candidates: {e}"))),
            };
            progress_idle();
            let enc_pl = enc_payloads(&payloads);
            sink.corr(
                &case_id,
                format!(
                    "plan cmp {variant} {} {} {}",
                    enc_cfg(&l.cfg),
                    enc_running(&running),
                    enc_pl
                ),
                "same".into(),
            );
            sink.count(&format!("step.{}", l.step));
            sink.count(&format!(
                "tag.{}",
                l.case.tag.split('.').next().unwrap_or("")
            ));
            match &payloads {
                Ok(v) => {
                    sink.add("payloads", v.len() as u64);
                    sink.count(&format!("payloads-per-run.{}", v.len().min(5)));
                    for x in v {
                        sink.count(if x.contains("<policy-statement delete=") {
                            "payload.delete"
                        } else {
                            "payload.update"
                        });
                        if x.contains("<term delete=") {
                            sink.count("payload.with-term-delete");
                        }
                        if x.contains("<route-filter delete=") {
                            sink.count("payload.with-filter-delete");
                        }
                    }
                    if sink.samples.len() < 3 && !v.is_empty() {
                        sink.sample(format!("{} => {}", l.case.tag, v[0]));
                    }
                }
                Err(_) => sink.count("plan.err"),
            }
            if payloads.is_ok() {
                apply_lines.push(format!("plan apply {} {}", enc_cfg(&l.cfg), enc_pl));
            }
            work.push(Work {
                running,
                ev,
                payloads,
                enc_pl,
                case_id,
            });
        }
        // phase 2: reference Junos applies the implementation's payloads
        let answers = ask_model(&apply_lines);
        let mut ai = 0;
        let mut next: Vec<Live> = vec![];
        for (l, w) in live.into_iter().zip(work.into_iter()) {
            let applied: Option<Result<JCfg, String>> = if w.payloads.is_ok() {
                let a = &answers[ai];
                ai += 1;
                Some(match a.strip_prefix("ok:") {
                    Some(c) => {
                        dec_cfg(c).ok_or_else(|| format!("undecodable cfg from modeld: {a}"))
                    }
                    None => Err(a.clone()),
                })
            } else {
                None
            };
            // phase 3: read-back and second plan on the state the implementation produced
            let (readback, pl2, cfg2) = match &applied {
                Some(Ok(c2)) => {
                    if evlevel && ev_seen.len() < ev_cap && ev_seen.insert(enc_cfg(c2)) {
                        crate::instev::ev_rows(&mut sink, &w.case_id, c2);
                    }
                    let rb = real_read_installed(c2);
                    let p2 = real_plan(c2, &w.ev);
                    (rb, enc_payloads(&p2), Some(c2.clone()))
                }
                Some(Err(e)) => {
                    sink.count(&format!("apply.{e}"));
                    ("err".to_string(), "err".to_string(), None)
                }
                None => ("err".to_string(), "err".to_string(), None),
            };
            if !l.case.agent && (prop == "all" || prop == "C02") {
                sink.spec(&w.case_id, format!("plan specx {} {}", enc_cfg(&l.cfg), w.enc_pl));
            }
            if l.case.agent {
                let cfg_s = enc_cfg(&l.cfg);
                let run_s = enc_running(&w.running);
                if prop == "all" || prop == "C01" {
                    sink.spec(
                        &w.case_id,
                        format!("plan spec1 {cfg_s} {run_s} {} {readback} {pl2}", w.enc_pl),
                    );
                }
                if prop == "all" || prop == "C02" {
                    sink.spec(
                        &w.case_id,
                        format!("plan spec2 {cfg_s} {run_s} {}", w.enc_pl),
                    );
                }
                if prop == "all" || prop == "C03" {
                    sink.spec(
                        &w.case_id,
                        format!("plan spec3 {cfg_s} {run_s} {}", w.enc_pl),
                    );
                }
                for s in &w.running {
                    let k = match (&s.ann, &s.eval, s.active && s.reject) {
                        (_, _, false) => "stmt.unmarked-inactive-or-noreject",
                        (Ann::None, _, _) => "stmt.unannotated",
                        (Ann::Malformed(_), _, _) => "stmt.malformed",
                        (Ann::Parsed(_), None, _) => "stmt.eval-failed",
                        (Ann::Parsed(_), Some((a, b)), _) => match (a.is_empty(), b.is_empty()) {
                            (true, true) => "stmt.eval-both-empty",
                            (true, false) | (false, true) => "stmt.eval-one-family-empty",
                            _ => "stmt.eval-both-nonempty",
                        },
                    };
                    sink.count(k);
                }
            }
            if readback == "err" {
                sink.count("readback.err");
            } else {
                sink.count("readback.ok");
            }
            if let Some(c2) = cfg2 {
                if l.case.agent && readback != "err" && l.step + 1 < l.case.steps.len() {
                    next.push(Live {
                        case: l.case,
                        descr: l.descr,
                        cfg: c2,
                        step: l.step + 1,
                    });
                }
            }
        }
        live = next;
    }
    sink.notes.push(format!("variant={variant} prop={prop}"));
    // C02 outside what the configuration type can express: installed terms whose route-filters use a
    // match type the agent never writes and its reader cannot represent (`orlonger`, `exact`, `upto`, …),
    // or that hold elements it does not know. Such a filter accepts routes no evaluated set accounts
    // for; an update merged into that term would leave it in place, so the run must stop before anything
    // is loaded (the same rule as `specx`, here with the raw reply text).
    if opts.replay.is_none() && (prop == "all" || prop == "C02") {
        let rf = |inner: &str| format!("<route-filter><address>0.0.0.0/0</address>{inner}</route-filter>");
        let good = "<route-filter><address>192.0.2.0/24</address><choice-ident>prefix-length-range</choice-ident><choice-value>/24-/32</choice-value></route-filter>";
        let raws: Vec<(&str, String)> = vec![
            ("orlonger-empty", rf("<orlonger/>")),
            ("exact-empty", rf("<exact/>")),
            ("longer-empty", rf("<longer/>")),
            ("orlonger-choice", rf("<choice-ident>orlonger</choice-ident><choice-value/>")),
            ("exact-choice", rf("<choice-ident>exact</choice-ident><choice-value/>")),
            ("longer-choice", rf("<choice-ident>longer</choice-ident><choice-value/>")),
            ("upto-choice", rf("<choice-ident>upto</choice-ident><choice-value>/24</choice-value>")),
            ("through-choice", rf("<choice-ident>through</choice-ident><choice-value>10.0.0.0/8</choice-value>")),
            ("address-mask-choice", rf("<choice-ident>address-mask</choice-ident><choice-value>255.0.0.0</choice-value>")),
            ("prefix-list", "<prefix-list><name>all</name></prefix-list>".to_string()),
            ("prefix-list-filter", "<prefix-list-filter><list_name>all</list_name><orlonger/></prefix-list-filter>".to_string()),
            ("source-address-filter", "<source-address-filter><address>0.0.0.0/0</address><orlonger/></source-address-filter>".to_string()),
        ];
        for (tag, extra) in &raws {
            for (pos, first) in [("before", true), ("after", false)] {
                let filters = if first { format!("{extra}{good}") } else { format!("{good}{extra}") };
                let xml = format!(
                    "{HDR}<policy-options><policy-statement><name>p1</name><term><name>inet</name><from><family>inet</family>{filters}</from><then><accept/></then></term><then><reject/></then></policy-statement></policy-options>{TRL}"
                );
                for (evtag, v4) in [("same", vec!["192.0.2.0/24,24,32".to_string()]), ("other", vec!["198.51.100.0/24,24,24".to_string()])] {
                    let ev: EvImpl = vec![("p1".into(), tag_expr(1), Some((v4.clone(), vec![])))];
                    let x2 = xml.clone();
                    let r = catch(move || agent::verif::plan(&x2, &ev));
                    let case = format!("foreign.raw.{tag}.{pos}.{evtag}");
                    let verdict = match r {
                        Err(_) => "ok".to_string(),
                        Ok(p) if p.is_empty() => "ok".to_string(),
                        Ok(_) => "violation update-into-unreadable-configuration".to_string(),
                    };
                    sink.direct(&case, verdict);
                    sink.count("foreign.raw");
                }
            }
        }
    }
    // C03 with an annotation the reader cannot even unescape (`&nbsp;`, a bare `&`, `&#0;` in the
    // attribute value — not well-formed, so Junos never sends it, but it is what a damaged or hostile
    // reply looks like): the statement still carries the management mark. Either the whole read fails
    // (nothing is loaded) or the statement is kept as a candidate that cannot be evaluated; it must never
    // be treated as "no longer managed" and have its installed policy deleted.
    if opts.replay.is_none() && (prop == "all" || prop == "C03") {
        let installed = vec![
            agent_policy("p1", &universe(false)[0..1], &[], false),
            agent_policy("p2", &universe(false)[1..2], &[], false),
        ];
        for bad in ["AS-FOO&nbsp;", "AS-FOO & AS-BAR", "AS-FOO&#0;", "AS&bogus;-FOO", "&#xD800;AS-FOO", "AS-FOO&"] {
            for order in [0, 1] {
                let a = format!(
                    "<policy-statement xmlns:jcmd=\"http://yang.juniper.net/junos/jcmd\" jcmd:comment=\"/* bgpfu-fltr: {bad} */\"><name>p1</name><then><reject/></then></policy-statement>"
                );
                let b = format!(
                    "<policy-statement xmlns:jcmd=\"http://yang.juniper.net/junos/jcmd\" jcmd:comment=\"/* bgpfu-fltr: {} */\"><name>p2</name><then><reject/></then></policy-statement>",
                    tag_expr(2)
                );
                let stmts = if order == 0 { format!("{a}{b}") } else { format!("{b}{a}") };
                let running = format!("{HDR}<policy-options>{stmts}</policy-options>{TRL}");
                let case = format!("c03.unreadable-annotation.{}.{order}", hexs(bad));
                let verdict = match catch(move || agent::verif::read_candidates(&running)) {
                    Err(_) => "ok".to_string(),
                    Ok(cands) => {
                        let ev: EvImpl = cands
                            .iter()
                            .map(|(n, e)| (n.clone(), e.clone(), parses(e).map(|_| (vec!["192.0.2.0/24,24,32".to_string()], vec![]))))
                            .collect();
                        match real_plan(&installed, &ev) {
                            Err(_) => "ok".to_string(),
                            Ok(pl) => {
                                if pl.iter().any(|p| p.contains("<name>p1</name>")) {
                                    "violation unreadable-annotation-policy-touched".to_string()
                                } else {
                                    "ok".to_string()
                                }
                            }
                        }
                    }
                };
                sink.direct(&case, verdict);
                sink.count("c03.unreadable-annotation");
            }
        }
    }
    sink.write(opts, "plan");
}
