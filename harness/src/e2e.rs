//! End-to-end runs of the REAL agent binary (built from /repo, started through its own `main`:
//! clap parsing, `LoggingOpts::init`, the production `Remote` TLS target) against a scripted fake
//! Junos served over loopback TLS (the in-memory `fakejunos` script behind a byte bridge) and the fake
//! IRRd. Every other op reaches the agent through the verification facade (`Updater` built directly
//! over an in-memory transport), so whatever the start-up code or the production connector does to a
//! property is visible here only.
//!
//! `e2e c15` — one-shot runs whose candidate configuration contains policies that cannot be evaluated
//!   (unknown as-set, AS-path regexp, attribute match: the evaluator `todo!()`s, the agent contains the
//!   panic) between ones that can: the others must be loaded and committed, exit status 0.
//! `e2e c07` — peers that hang up during the TLS handshake, after it, in the middle of the hello, or
//!   never say anything / stop answering: a one-shot agent must terminate with a failure within a bound
//!   (it has no deadline of its own only where the peer stays connected AND silent — that case is C07's
//!   known scope limit and is not generated), and must not reconnect forever.
use std::{
    path::PathBuf,
    process::{Command, Stdio},
    sync::{
        atomic::{AtomicUsize, Ordering},
        Arc, Mutex,
    },
    time::{Duration, Instant},
};

use bytes::Bytes;
use netconf::transport::{RecvHandle, SendHandle, Transport};
use tokio::io::{AsyncReadExt, AsyncWriteExt};

use crate::{
    fakeirrd::FakeIrrd,
    fakejunos::{self, Log, Script},
    logs::{acceptor_client_auth, build_agent, build_agent_profile, key_files},
    memtransport as mt,
    tlsserver::CERT_DIR,
    util::*,
};

#[derive(Clone, Copy, PartialEq, Debug)]
pub enum Peer {
    /// a conforming router
    Serve,
    /// TCP accepted, connection closed before any TLS record
    CloseAtOnce,
    /// the ClientHello is read, then the connection is closed
    CloseInHandshake,
    /// TLS established, closed before the NETCONF hello
    CloseBeforeHello,
    /// half a hello, then closed
    CloseMidHello,
    /// hello, then closed at the first request
    CloseAtFirstRequest,
}

impl Peer {
    fn token(&self) -> &'static str {
        match self {
            Peer::Serve => "serve",
            Peer::CloseAtOnce => "close-at-once",
            Peer::CloseInHandshake => "close-in-handshake",
            Peer::CloseBeforeHello => "close-before-hello",
            Peer::CloseMidHello => "close-mid-hello",
            Peer::CloseAtFirstRequest => "close-at-first-request",
        }
    }
    fn parse(s: &str) -> Option<Peer> {
        [
            Peer::Serve,
            Peer::CloseAtOnce,
            Peer::CloseInHandshake,
            Peer::CloseBeforeHello,
            Peer::CloseMidHello,
            Peer::CloseAtFirstRequest,
        ]
        .into_iter()
        .find(|p| p.token() == s)
    }
}

pub struct Router {
    pub port: u16,
    pub conns: Arc<AtomicUsize>,
    pub logs: Arc<Mutex<Vec<Arc<Mutex<Log>>>>>,
}

/// bridge one TLS connection to the in-memory fake Junos
async fn serve_tls<S>(tls: S, script: Script, log: Arc<Mutex<Log>>)
where
    S: tokio::io::AsyncRead + tokio::io::AsyncWrite + Unpin + Send + 'static,
{
    let (t, peer) = mt::new();
    let (mut to_server, mut from_server) = t.split();
    let server = tokio::spawn(fakejunos::serve(peer.clone(), script, log));
    let (mut rd, mut wr) = tokio::io::split(tls);
    let peer2 = peer.clone();
    // router → agent
    let down = tokio::spawn(async move {
        while let Ok(msg) = from_server.recv().await {
            if wr.write_all(&msg).await.is_err() || wr.flush().await.is_err() {
                break;
            }
        }
        let _ = wr.shutdown().await;
    });
    // agent → router, message by message
    let mut buf: Vec<u8> = vec![];
    let mut chunk = [0u8; 8192];
    loop {
        match rd.read(&mut chunk).await {
            Ok(n) if n > 0 => buf.extend_from_slice(&chunk[..n]),
            _ => break,
        }
        while let Some(p) = buf.windows(6).position(|w| w == b"]]>]]>") {
            let msg: Vec<u8> = buf.drain(..p + 6).collect();
            if to_server.send(Bytes::from(msg)).await.is_err() {
                break;
            }
        }
    }
    peer2.close();
    let _ = server.await;
    down.abort();
}

pub fn start_router(rt: &tokio::runtime::Runtime, kind: Peer, script: Script) -> Router {
    let listener = rt.block_on(async { tokio::net::TcpListener::bind("127.0.0.1:0").await.unwrap() });
    let port = listener.local_addr().unwrap().port();
    let conns = Arc::new(AtomicUsize::new(0));
    let logs: Arc<Mutex<Vec<Arc<Mutex<Log>>>>> = Default::default();
    let (conns2, logs2) = (conns.clone(), logs.clone());
    let acc = acceptor_client_auth();
    rt.spawn(async move {
        loop {
            let Ok((mut sock, _)) = listener.accept().await else {
                return;
            };
            let n = conns2.fetch_add(1, Ordering::SeqCst);
            if n > 200 {
                return;
            }
            let (acc, script, logs) = (acc.clone(), script.clone(), logs2.clone());
            tokio::spawn(async move {
                match kind {
                    Peer::CloseAtOnce => drop(sock),
                    Peer::CloseInHandshake => {
                        let mut b = [0u8; 512];
                        let _ = sock.read(&mut b).await;
                        drop(sock);
                    }
                    _ => {
                        let Ok(mut tls) = acc.accept(sock).await else {
                            return;
                        };
                        match kind {
                            Peer::CloseBeforeHello => {
                                let _ = tls.shutdown().await;
                            }
                            Peer::CloseMidHello => {
                                let h = mt::hello(&[mt::CAP_BASE10], 4);
                                let _ = tls.write_all(&h.as_bytes()[..h.len() / 2]).await;
                                let _ = tls.flush().await;
                                tokio::time::sleep(Duration::from_millis(50)).await;
                                let _ = tls.shutdown().await;
                            }
                            Peer::CloseAtFirstRequest => {
                                let log: Arc<Mutex<Log>> = Default::default();
                                logs.lock().unwrap().push(log.clone());
                                let mut s = script.clone();
                                s.fault = Some((1, fakejunos::Fault::CloseBefore));
                                serve_tls(tls, s, log).await;
                            }
                            _ => {
                                let log: Arc<Mutex<Log>> = Default::default();
                                logs.lock().unwrap().push(log.clone());
                                serve_tls(tls, script, log).await;
                            }
                        }
                    }
                }
            });
        }
    });
    Router { port, conns, logs }
}

pub struct AgentRun {
    /// `Some(code)` / `None` = killed by the harness after the limit
    pub exit: Option<i32>,
    pub secs: f64,
    pub stderr: String,
}

pub fn run_agent_oneshot(agent: &PathBuf, router_port: u16, irrd_port: u16, limit: Duration) -> AgentRun {
    let (cert, key) = key_files("rsa_pkcs8");
    let mut cmd = Command::new(agent);
    cmd.args(["-f", "0", "--irrd-host", "127.0.0.1", "--irrd-port", &irrd_port.to_string(), "remote"]);
    cmd.args([
        "--netconf-host",
        "127.0.0.1",
        "--netconf-port",
        &router_port.to_string(),
        "--tls-server-name",
        "localhost",
        "--ca-cert-path",
        &format!("{CERT_DIR}/ca.pem"),
        "--client-cert-path",
        &cert,
        "--client-key-path",
        &key,
    ]);
    cmd.env_remove("RUST_LOG").env("RUST_BACKTRACE", "0").env("NO_COLOR", "1");
    cmd.stdin(Stdio::null()).stdout(Stdio::null()).stderr(Stdio::piped());
    let t0 = Instant::now();
    let mut child = match cmd.spawn() {
        Ok(c) => c,
        Err(e) => {
            return AgentRun {
                exit: Some(-1),
                secs: 0.0,
                stderr: format!("spawn failed: {e}"),
            }
        }
    };
    // drain stderr on a thread so that a chatty agent never blocks on a full pipe
    let mut err = child.stderr.take().unwrap();
    let reader = std::thread::spawn(move || {
        let mut s = String::new();
        let _ = std::io::Read::read_to_string(&mut err, &mut s);
        s
    });
    let mut exit = None;
    loop {
        if let Ok(Some(st)) = child.try_wait() {
            exit = Some(st.code().unwrap_or(-2));
            break;
        }
        if t0.elapsed() > limit {
            let _ = child.kill();
            let _ = child.wait();
            break;
        }
        std::thread::sleep(Duration::from_millis(10));
    }
    let secs = t0.elapsed().as_secs_f64();
    let stderr = reader.join().unwrap_or_default();
    AgentRun { exit, secs, stderr }
}

fn tail(s: &str, n: usize) -> String {
    let v: Vec<char> = s.chars().collect();
    v[v.len().saturating_sub(n)..].iter().collect::<String>().replace('\n', " | ")
}

/// (name, expression) — literal expressions need no IRR data
fn lit(i: usize) -> String {
    format!("{{ 10.{}.{}.0/24^24-28, 2001:db8:{:x}::/48 }}", i / 256, i % 256, i)
}

const BAD: [(&str, &str); 5] = [
    ("aspath", "<^AS65000 .* AS65001$>"),
    ("aspath-and", "AS65000 AND <^AS65000$>"),
    ("attr", "community(65000:1)"),
    ("unknown-as-set", "AS-DOES-NOT-EXIST"),
    ("peeras", "PeerAS"),
];

fn c15(agent: &PathBuf, opts: &Opts, sink: &mut Sink) {
    let mut cases: Vec<String> = vec![];
    if let Some(p) = &opts.replay {
        for l in std::fs::read_to_string(p).unwrap_or_default().lines() {
            if let Some(d) = l.strip_prefix("case\t") {
                cases.push(d.split('\t').next().unwrap_or("").to_string());
            }
        }
    } else {
        // the unevaluable policy first, in the middle, last; then two of them
        for (tag, _) in BAD {
            for pos in [0usize, 1, 2] {
                cases.push(format!("c15;n=3;bad={tag}@{pos}"));
            }
        }
        cases.push("c15;n=4;bad=aspath@0,attr@3".into());
        cases.push("c15;n=3;bad=".into());
    }
    for case in cases {
        progress(&case);
        let mut n = 3usize;
        let mut bad: Vec<(String, usize)> = vec![];
        for f in case.split(';').skip(1) {
            match f.split_once('=') {
                Some(("n", v)) => n = v.parse().unwrap_or(3),
                Some(("bad", v)) => {
                    for b in v.split(',').filter(|b| !b.is_empty()) {
                        if let Some((t, p)) = b.split_once('@') {
                            bad.push((t.to_string(), p.parse().unwrap_or(0)));
                        }
                    }
                }
                _ => {}
            }
        }
        let stmts: Vec<(String, String)> = (0..n)
            .map(|i| {
                let e = bad
                    .iter()
                    .find(|(_, p)| *p == i)
                    .and_then(|(t, _)| BAD.iter().find(|(bt, _)| bt == t))
                    .map(|(_, e)| e.to_string())
                    .unwrap_or_else(|| lit(i));
                (format!("p{i}"), e)
            })
            .collect();
        let rt = tokio::runtime::Builder::new_multi_thread().worker_threads(2).enable_all().build().unwrap();
        let irrd = FakeIrrd::start(std::collections::HashMap::new());
        let script = Script {
            // … next to statements that are not managed (hand-written with the annotation, deactivated,
            // plain): the fake router applies the subtree filter of the request, so what the agent asks
            // for decides what its reader gets to see
            running: fakejunos::with_unmanaged(&fakejunos::running_with_exprs(&stmts)),
            ephemeral: fakejunos::empty_config(),
            fault: None,
        };
        let router = start_router(&rt, Peer::Serve, script);
        let run = run_agent_oneshot(agent, router.port, irrd.port, Duration::from_secs(30));
        std::thread::sleep(Duration::from_millis(30));
        let (names, loaded) = {
            let logs = router.logs.lock().unwrap();
            match logs.first() {
                None => (vec![], vec![]),
                Some(l) => {
                    let g = l.lock().unwrap();
                    let mut loaded: Vec<String> = g
                        .loads
                        .iter()
                        .filter_map(|l| {
                            let a = l.find("<name>")? + 6;
                            let b = l[a..].find("</name>")? + a;
                            Some(l[a..b].to_string())
                        })
                        .collect();
                    loaded.sort();
                    (g.names.clone(), loaded)
                }
            }
        };
        let mut want: Vec<String> = (0..n).filter(|i| !bad.iter().any(|(_, p)| p == i)).map(|i| format!("p{i}")).collect();
        want.sort();
        let committed = names.iter().any(|x| x == "commit-configuration");
        let verdict = if run.exit.is_none() {
            "violation agent-does-not-terminate".to_string()
        } else if loaded != want {
            format!(
                "violation evaluable-policies-not-loaded-want-{}-got-{}-exit-{}",
                want.join("+"),
                if loaded.is_empty() { "none".to_string() } else { loaded.join("+") },
                run.exit.unwrap_or(-9)
            )
        } else if !committed {
            "violation run-not-committed".to_string()
        } else if run.exit != Some(0) {
            format!("violation exit-status-{}", run.exit.unwrap_or(-9))
        } else {
            "ok".to_string()
        };
        if verdict != "ok" {
            sink.sample(format!("{case} -> exit={:?} names={} stderr…{}", run.exit, names.join(","), tail(&run.stderr, 300)));
        }
        sink.direct(&case, verdict);
        sink.count("c15.runs");
        drop(irrd);
        rt.shutdown_timeout(Duration::from_millis(100));
    }
}

fn c07(agent: &PathBuf, opts: &Opts, sink: &mut Sink) {
    let mut cases: Vec<String> = vec![];
    if let Some(p) = &opts.replay {
        for l in std::fs::read_to_string(p).unwrap_or_default().lines() {
            if let Some(d) = l.strip_prefix("case\t") {
                cases.push(d.split('\t').next().unwrap_or("").to_string());
            }
        }
    } else {
        for k in [
            Peer::CloseAtOnce,
            Peer::CloseInHandshake,
            Peer::CloseBeforeHello,
            Peer::CloseMidHello,
            Peer::CloseAtFirstRequest,
            Peer::Serve,
        ] {
            cases.push(format!("c07;peer={}", k.token()));
        }
    }
    let limit = Duration::from_secs(if opts.thorough() { 40 } else { 15 });
    for case in cases {
        progress(&case);
        let Some(kind) = case.split("peer=").nth(1).and_then(Peer::parse) else {
            sink.direct(&case, "violation bad-case-descriptor".into());
            continue;
        };
        let rt = tokio::runtime::Builder::new_multi_thread().worker_threads(2).enable_all().build().unwrap();
        let irrd = FakeIrrd::start(std::collections::HashMap::new());
        let script = Script {
            running: fakejunos::running_with(2),
            ephemeral: fakejunos::empty_config(),
            fault: None,
        };
        let router = start_router(&rt, kind, script);
        let run = run_agent_oneshot(agent, router.port, irrd.port, limit);
        let conns = router.conns.load(Ordering::SeqCst);
        let verdict = match (kind, run.exit) {
            (_, None) => format!("violation agent-still-running-after-{}s-and-{conns}-connections", limit.as_secs()),
            (Peer::Serve, Some(0)) => "ok".to_string(),
            (Peer::Serve, Some(c)) => format!("violation run-against-a-conforming-router-fails-exit-{c}"),
            (_, Some(0)) => "violation success-reported-although-the-peer-hung-up".to_string(),
            (_, Some(_)) if conns > 3 => format!("violation {conns}-connections-for-one-run"),
            (_, Some(_)) => "ok".to_string(),
        };
        if verdict != "ok" {
            sink.sample(format!("{case} -> exit={:?} after {:.1}s conns={conns} stderr…{}", run.exit, run.secs, tail(&run.stderr, 300)));
        }
        sink.direct(&case, verdict);
        sink.count("c07.runs");
        drop(irrd);
        rt.shutdown_timeout(Duration::from_millis(100));
    }
}

/// C04 through the real binary: a fault at every position of the request sequence; the exit status
/// is the run's result, the fake router's log says whether a commit was requested
fn c04(agent: &PathBuf, opts: &Opts, sink: &mut Sink) {
    use fakejunos::Fault;
    let mut cases: Vec<String> = vec![];
    if let Some(p) = &opts.replay {
        for l in std::fs::read_to_string(p).unwrap_or_default().lines() {
            if let Some(d) = l.strip_prefix("case\t") {
                cases.push(d.split('\t').next().unwrap_or("").to_string());
            }
        }
    } else {
        let n = 2usize;
        cases.push(format!("c04;n={n};fault=none"));
        for pos in 4..=(4 + n) {
            for k in 0..8 {
                cases.push(format!("c04;n={n};fault={pos}:{}", Fault::RpcErrorTag(k).token()));
            }
        }
        for pos in 1..=(6 + n) {
            for f in [Fault::RpcError, Fault::ErrWarnOk, Fault::ErrLoadSuccess, Fault::Malformed, Fault::WrongId, Fault::CloseBefore, Fault::WarnOk] {
                if !opts.thorough() && matches!(f, Fault::ErrWarnOk | Fault::WrongId) && pos % 2 == 0 {
                    continue;
                }
                cases.push(format!("c04;n={n};fault={pos}:{}", f.token()));
            }
        }
    }
    for case in cases {
        progress(&case);
        let mut n = 2usize;
        let mut fault: Option<(usize, Fault)> = None;
        for f in case.split(';').skip(1) {
            match f.split_once('=') {
                Some(("n", v)) => n = v.parse().unwrap_or(2),
                Some(("fault", v)) => {
                    fault = v.split_once(':').and_then(|(p, k)| Some((p.parse().ok()?, Fault::parse(k)?)));
                }
                _ => {}
            }
        }
        let rt = tokio::runtime::Builder::new_multi_thread().worker_threads(2).enable_all().build().unwrap();
        let irrd = FakeIrrd::start(std::collections::HashMap::new());
        let script = Script {
            running: fakejunos::running_with(n),
            ephemeral: fakejunos::empty_config(),
            fault: fault.clone(),
        };
        let router = start_router(&rt, Peer::Serve, script);
        let run = run_agent_oneshot(agent, router.port, irrd.port, Duration::from_secs(30));
        std::thread::sleep(Duration::from_millis(30));
        let names: Vec<String> = router
            .logs
            .lock()
            .unwrap()
            .first()
            .map(|l| l.lock().unwrap().names.clone())
            .unwrap_or_default();
        let committed = names.iter().any(|x| x == "commit-configuration");
        // open, get-config ×2, load × n, commit, close-db, close-session
        let benign = matches!(fault, None | Some((_, Fault::WarnOk)));
        let before_commit = matches!(&fault, Some((p, _)) if *p <= 3 + n) && !benign;
        let verdict = if run.exit.is_none() {
            "violation agent-does-not-terminate".to_string()
        } else if before_commit && committed {
            "violation commit-after-fault".to_string()
        } else if !benign && run.exit == Some(0) && !matches!(&fault, Some((p, Fault::CloseAfter)) if *p == 6 + n) {
            "violation success-reported-after-fault".to_string()
        } else if benign && (run.exit != Some(0) || !committed) {
            format!("violation clean-run-fails-exit-{:?}", run.exit)
        } else {
            "ok".to_string()
        };
        if verdict != "ok" {
            sink.sample(format!("{case} -> exit={:?} names={} stderr…{}", run.exit, names.join(","), tail(&run.stderr, 300)));
        }
        sink.direct(&case, verdict);
        sink.count("c04.runs");
        drop(irrd);
        rt.shutdown_timeout(Duration::from_millis(100));
    }
}

/// C02 with the binary as it SHIPS (release profile): policies installed with ranges that are no
/// longer evaluated; the loads of the run must delete exactly those route-filters (and the term of a
/// family that became empty). Everything else in the harness runs dev-profile code, where
/// `debug_assert!` and overflow checks are active.
fn c02(agent: &PathBuf, opts: &Opts, sink: &mut Sink) {
    let _ = opts;
    for n in [1usize, 3] {
        let case = format!("c02rel;n={n}");
        progress(&case);
        let rt = tokio::runtime::Builder::new_multi_thread().worker_threads(2).enable_all().build().unwrap();
        let irrd = FakeIrrd::start(std::collections::HashMap::new());
        let names: Vec<String> = (0..n).map(|i| format!("p{i}")).collect();
        let script = Script {
            // evaluated: 10.0.i.0/24^24-28 and 2001:db8:i::/48; installed: 203.0.113.0/25^25-32 and
            // 2001:db8:ffff::/48^48-64 (fakejunos::installed_with) — both stale
            running: fakejunos::running_with(n),
            ephemeral: fakejunos::installed_with(&names),
            fault: None,
        };
        let router = start_router(&rt, Peer::Serve, script);
        let run = run_agent_oneshot(agent, router.port, irrd.port, Duration::from_secs(30));
        std::thread::sleep(Duration::from_millis(30));
        let loads: Vec<String> = router
            .logs
            .lock()
            .unwrap()
            .first()
            .map(|l| l.lock().unwrap().loads.clone())
            .unwrap_or_default();
        let mut verdict = "ok".to_string();
        if run.exit != Some(0) {
            verdict = format!("violation clean-run-fails-exit-{:?}", run.exit);
        } else {
            for name in &names {
                let Some(l) = loads.iter().find(|l| l.contains(&format!("<name>{name}</name>"))) else {
                    verdict = format!("violation no-update-for-{name}-with-stale-ranges");
                    break;
                };
                // the stale filters must be deleted (a `delete` attribute on a route-filter holding
                // the stale address), for both families
                let deletes = |addr: &str| {
                    l.split("<route-filter").skip(1).any(|rf| {
                        let head = rf.split('>').next().unwrap_or("");
                        head.contains("delete") && rf.split("</route-filter>").next().unwrap_or("").contains(addr)
                    })
                };
                if !deletes("203.0.113.0/25") || !deletes("2001:db8:ffff::/48") {
                    verdict = format!("violation stale-route-filter-of-{name}-not-deleted");
                    break;
                }
            }
        }
        if verdict != "ok" {
            sink.sample(format!("{case} -> exit={:?} loads={} first={}", run.exit, loads.len(), loads.first().map(|l| l.chars().take(600).collect::<String>()).unwrap_or_default()));
        }
        sink.direct(&case, verdict);
        sink.count("c02rel.runs");
        drop(irrd);
        rt.shutdown_timeout(Duration::from_millis(100));
    }
}

pub fn main(opts: &Opts) {
    let mut sink = Sink::new();
    let fam = opts
        .extra
        .iter()
        .find(|e| ["c02", "c04", "c07", "c15", "c16"].contains(&e.as_str()))
        .cloned()
        .unwrap_or_else(|| "c15".into());
    let built = if fam == "c02" { build_agent_profile(&mut sink, true) } else { build_agent(&mut sink) };
    match built {
        None => sink.direct(&format!("{fam};build"), "violation agent-binary-unavailable".into()),
        Some(agent) => match fam.as_str() {
            "c07" => c07(&agent, opts, &mut sink),
            "c02" => c02(&agent, opts, &mut sink),
            "c04" => c04(&agent, opts, &mut sink),
            // C16 end to end: which statements of the running configuration get loaded (same runs)
            "c16" => c15(&agent, opts, &mut sink),
            _ => c15(&agent, opts, &mut sink),
        },
    }
    progress_idle();
    sink.write(opts, "e2e");
}
