//! C10 at the transport: what `SendHandle::send` hands to the peer is the message, whole and once.
//! The peer is an echo (child process for the CLI transport, loopback TLS server) that starts reading
//! after a delay, so that large and pipelined messages meet full pipe / socket buffers; the harness
//! sends through the real sender and reads the echo back through the real receiver, concurrently.
use std::time::Duration;

use bytes::Bytes;
use netconf::transport::{JunosLocal, RecvHandle, SendHandle, Tls, Transport};
use tokio::io::{AsyncReadExt, AsyncWriteExt};

use crate::{
    frame::{pattern, MARKER},
    tlsserver::{acceptor, load_cert, load_key},
    util::*,
};

fn message(n: usize, tag: usize) -> Vec<u8> {
    let mut m = format!("<m{tag}>").into_bytes();
    m.extend(pattern(n));
    m.extend(format!("</m{tag}>").into_bytes());
    m.extend_from_slice(MARKER);
    m
}

async fn exchange<T: Transport>(t: T, msgs: Vec<Vec<u8>>) -> Result<Vec<Vec<u8>>, String>
where
    T::SendHandle: Send,
    T::RecvHandle: Send,
{
    let (mut tx, mut rx) = t.split();
    let k = msgs.len();
    let send = async move {
        for m in msgs {
            tx.send(Bytes::from(m)).await.map_err(|e| format!("send: {e}"))?;
        }
        // keep the sender alive: dropping it may close the peer's input
        Ok::<_, String>(tx)
    };
    let recv = async move {
        let mut got = vec![];
        for _ in 0..k {
            match rx.recv().await {
                Ok(b) => got.push(b.to_vec()),
                Err(e) => return Err(format!("recv after {} message(s): {e}", got.len())),
            }
        }
        Ok(got)
    };
    match tokio::time::timeout(Duration::from_secs(20), async { tokio::join!(send, recv) }).await {
        Err(_) => Err("not all messages came back within 20s".into()),
        Ok((Err(e), _)) => Err(e),
        Ok((Ok(_tx), r)) => r,
    }
}

async fn run_cli(msgs: Vec<Vec<u8>>, delay_ms: u64) -> Result<Vec<Vec<u8>>, String> {
    let exe = std::env::current_exe().unwrap();
    let echo = format!("echo:{delay_ms}");
    let t = JunosLocal::verif_connect(exe.to_str().unwrap(), &["fakecli", &echo]).await.map_err(|e| format!("connect: {e}"))?;
    exchange(t, msgs).await
}

async fn run_tls(msgs: Vec<Vec<u8>>, delay_ms: u64) -> Result<Vec<Vec<u8>>, String> {
    let listener = tokio::net::TcpListener::bind("127.0.0.1:0").await.unwrap();
    let port = listener.local_addr().unwrap().port();
    let acc = acceptor();
    let server = tokio::spawn(async move {
        let Ok((sock, _)) = listener.accept().await else { return };
        let Ok(mut tls) = acc.accept(sock).await else { return };
        tokio::time::sleep(Duration::from_millis(delay_ms)).await;
        let mut buf = vec![0u8; 65536];
        loop {
            match tls.read(&mut buf).await {
                Ok(0) | Err(_) => return,
                Ok(n) => {
                    if tls.write_all(&buf[..n]).await.is_err() || tls.flush().await.is_err() {
                        return;
                    }
                }
            }
        }
    });
    let t = Tls::verif_connect(("127.0.0.1", port), "localhost", load_cert("ca.pem"), load_cert("client.pem"), load_key("client.key"))
        .await
        .map_err(|e| format!("connect: {e}"))?;
    let r = exchange(t, msgs).await;
    server.abort();
    r
}

pub fn main(opts: &Opts) {
    let mut sink = Sink::new();
    let shapes: Vec<Vec<usize>> = vec![
        vec![10],
        vec![70_000],
        vec![1_200_000],
        vec![10, 10, 10, 10, 10, 10, 10, 10],
        vec![10, 70_000, 10],
        vec![40_000, 40_000, 40_000],
        vec![1_200_000, 10, 1_200_000],
    ];
    let mut cases: Vec<(String, Vec<usize>, u64)> = vec![];
    for tr in ["cli", "tls"] {
        for sh in &shapes {
            for delay in [0u64, 300] {
                cases.push((tr.to_string(), sh.clone(), delay));
            }
        }
    }
    if let Some(p) = &opts.replay {
        let text = std::fs::read_to_string(p).unwrap_or_default();
        cases.retain(|(tr, sh, d)| text.contains(&format!("case\t{}", descr(tr, sh, *d))));
    }
    let rt = tokio::runtime::Builder::new_multi_thread().worker_threads(4).enable_all().build().unwrap();
    for (tr, sh, delay) in cases {
        let case = descr(&tr, &sh, delay);
        progress(&case);
        let msgs: Vec<Vec<u8>> = sh.iter().enumerate().map(|(i, n)| message(*n, i)).collect();
        let want = msgs.clone();
        let got = rt.block_on(async {
            match tr.as_str() {
                "cli" => run_cli(msgs, delay).await,
                _ => run_tls(msgs, delay).await,
            }
        });
        progress_idle();
        let verdict = match got {
            Ok(g) if g == want => "ok".to_string(),
            Ok(g) => {
                let k = g.iter().zip(&want).take_while(|(a, b)| a == b).count();
                format!("violation message-{}-of-{}-not-delivered-intact", k + 1, want.len())
            }
            Err(e) => format!("violation {}", e.replace([' ', ':', '(', ')'], "-").chars().take(70).collect::<String>()),
        };
        sink.direct(&case, verdict);
        sink.count(&format!("transport.{tr}"));
        sink.add("bytes_sent", sh.iter().sum::<usize>() as u64);
    }
    sink.notes.push("SSH sender not exercised here (the russh echo peer is not implemented); its send path is `channel.data`, covered by the sessions of the logs/frame ops only".into());
    sink.write(opts, "sendecho");
}

fn descr(tr: &str, sh: &[usize], delay: u64) -> String {
    format!("{tr};{};delay={delay}", sh.iter().map(|n| n.to_string()).collect::<Vec<_>>().join("+"))
}
