//! PRNG, hex, case/row output shared by all ops.
use std::{fmt::Write as _, fs, io::Write as _, path::PathBuf};

#[derive(Clone)]
pub struct Rng(pub u64);
impl Rng {
    pub fn new(seed: u64) -> Self {
        Rng(seed.wrapping_mul(0x9E3779B97F4A7C15) ^ 0xD1B54A32D192ED03)
    }
    pub fn next(&mut self) -> u64 {
        self.0 = self.0.wrapping_add(0x9E3779B97F4A7C15);
        let mut z = self.0;
        z = (z ^ (z >> 30)).wrapping_mul(0xBF58476D1CE4E5B9);
        z = (z ^ (z >> 27)).wrapping_mul(0x94D049BB133111EB);
        z ^ (z >> 31)
    }
    pub fn below(&mut self, n: usize) -> usize {
        if n == 0 {
            0
        } else {
            (self.next() % n as u64) as usize
        }
    }
    pub fn chance(&mut self, num: u64, den: u64) -> bool {
        self.next() % den < num
    }
    pub fn pick<'a, T>(&mut self, xs: &'a [T]) -> &'a T {
        &xs[self.below(xs.len())]
    }
    pub fn shuffle<T>(&mut self, xs: &mut [T]) {
        for i in (1..xs.len()).rev() {
            let j = self.below(i + 1);
            xs.swap(i, j);
        }
    }
}

pub fn hex(bs: &[u8]) -> String {
    if bs.is_empty() {
        return "-".into();
    }
    let mut s = String::with_capacity(bs.len() * 2);
    for b in bs {
        let _ = write!(s, "{b:02x}");
    }
    s
}
pub fn hexs(s: &str) -> String {
    hex(s.as_bytes())
}
pub fn unhex(s: &str) -> Option<Vec<u8>> {
    if s == "-" {
        return Some(vec![]);
    }
    if s.len() % 2 != 0 {
        return None;
    }
    (0..s.len() / 2)
        .map(|i| u8::from_str_radix(&s[2 * i..2 * i + 2], 16).ok())
        .collect()
}
pub fn hexlist(l: &[Vec<u8>]) -> String {
    if l.is_empty() {
        ".".into()
    } else {
        l.iter().map(|b| hex(b)).collect::<Vec<_>>().join(",")
    }
}
pub fn list<S: AsRef<str>>(l: &[S]) -> String {
    if l.is_empty() {
        ".".into()
    } else {
        l.iter()
            .map(|s| s.as_ref().to_string())
            .collect::<Vec<_>>()
            .join(",")
    }
}

/// Options common to all ops.
#[derive(Clone)]
pub struct Opts {
    pub tier: String,
    pub seed: u64,
    pub out: PathBuf,
    pub replay: Option<PathBuf>,
    pub extra: Vec<String>,
}
impl Opts {
    pub fn thorough(&self) -> bool {
        self.tier == "thorough"
    }
}

/// One output row. `kind`:
///  * `corr`  — `line` is sent to modeld; its answer must equal `expect` (what the implementation did)
///  * `spec`  — `line` (which embeds the implementation's behaviour) is sent to modeld; answer must be `ok`
///  * `direct`— no model involved: `line` is a violation class ("ok" if none) decided by the harness oracle
pub struct Row {
    pub case: String,
    pub kind: &'static str,
    pub line: String,
    pub expect: String,
}

pub struct Sink {
    rows: Vec<Row>,
    pub stats: std::collections::BTreeMap<String, u64>,
    pub samples: Vec<String>,
    pub notes: Vec<String>,
}
impl Sink {
    pub fn new() -> Self {
        Sink {
            rows: vec![],
            stats: Default::default(),
            samples: vec![],
            notes: vec![],
        }
    }
    pub fn corr(&mut self, case: &str, line: String, expect: String) {
        self.rows.push(Row {
            case: case.into(),
            kind: "corr",
            line,
            expect,
        });
    }
    pub fn spec(&mut self, case: &str, line: String) {
        self.rows.push(Row {
            case: case.into(),
            kind: "spec",
            line,
            expect: "ok".into(),
        });
    }
    pub fn direct(&mut self, case: &str, verdict: String) {
        self.rows.push(Row {
            case: case.into(),
            kind: "direct",
            line: verdict,
            expect: "ok".into(),
        });
    }
    pub fn count(&mut self, key: &str) {
        *self.stats.entry(key.to_string()).or_insert(0) += 1;
    }
    pub fn add(&mut self, key: &str, n: u64) {
        *self.stats.entry(key.to_string()).or_insert(0) += n;
    }
    pub fn sample(&mut self, s: String) {
        if self.samples.len() < 8 {
            self.samples.push(s);
        }
    }
    pub fn merge(&mut self, other: Sink) {
        self.rows.extend(other.rows);
        for (k, v) in other.stats {
            *self.stats.entry(k).or_insert(0) += v;
        }
        for s in other.samples {
            self.sample(s);
        }
        self.notes.extend(other.notes);
    }
    pub fn write(&self, opts: &Opts, op: &str) {
        fs::create_dir_all(&opts.out).unwrap();
        let mut f = fs::File::create(opts.out.join(format!("{op}.rows"))).unwrap();
        for r in &self.rows {
            assert!(!r.case.contains('\t') && !r.line.contains('\t') && !r.expect.contains('\t'));
            writeln!(f, "{}\t{}\t{}\t{}", r.case, r.kind, r.line, r.expect).unwrap();
        }
        let mut f = fs::File::create(opts.out.join(format!("{op}.stats"))).unwrap();
        for (k, v) in &self.stats {
            writeln!(f, "stat\t{k}\t{v}").unwrap();
        }
        for s in &self.samples {
            writeln!(f, "sample\t{}", s.replace('\t', " ").replace('\n', " ")).unwrap();
        }
        for s in &self.notes {
            writeln!(f, "note\t{}", s.replace('\t', " ").replace('\n', " ")).unwrap();
        }
    }
}

/// CPU time consumed by the calling thread, in seconds.
pub fn thread_cpu() -> f64 {
    let mut ts = libc::timespec {
        tv_sec: 0,
        tv_nsec: 0,
    };
    unsafe {
        libc::clock_gettime(libc::CLOCK_THREAD_CPUTIME_ID, &mut ts);
    }
    ts.tv_sec as f64 + ts.tv_nsec as f64 * 1e-9
}

/// Run `jobs` on a pool of OS threads; each job gets its own current-thread tokio runtime so that
/// CPU time spent polling it is attributable to the job (spin detection).
pub fn run_pool<J, R, F>(jobs: Vec<J>, threads: usize, f: F) -> Vec<R>
where
    J: Send + 'static,
    R: Send + 'static,
    F: Fn(J) -> R + Send + Sync + 'static,
{
    use std::sync::{Arc, Mutex};
    let n = jobs.len();
    let queue = Arc::new(Mutex::new(jobs.into_iter().enumerate().collect::<Vec<_>>()));
    let results: Arc<Mutex<Vec<Option<R>>>> = Arc::new(Mutex::new((0..n).map(|_| None).collect()));
    let f = Arc::new(f);
    let mut hs = vec![];
    for _ in 0..threads.max(1) {
        let queue = queue.clone();
        let results = results.clone();
        let f = f.clone();
        hs.push(std::thread::spawn(move || loop {
            let job = queue.lock().unwrap().pop();
            let Some((i, j)) = job else { break };
            let r = f(j);
            results.lock().unwrap()[i] = Some(r);
        }));
    }
    for h in hs {
        h.join().unwrap();
    }
    let mut g = results.lock().unwrap();
    g.drain(..).map(|r| r.unwrap()).collect()
}

/// Like `run_pool`, with a per-job wall-clock watchdog: a job that does not return within `limit`
/// (e.g. the code under test spins inside a single poll, which no async timeout can interrupt) gets
/// `on_timeout` as its result; its worker thread is abandoned (the process exits when `main` returns)
/// and replaced.
pub fn run_pool_watchdog<J, R, F>(
    jobs: Vec<J>,
    threads: usize,
    limit: std::time::Duration,
    on_timeout: R,
    f: F,
) -> Vec<R>
where
    J: Send + 'static,
    R: Send + Clone + 'static,
    F: Fn(J) -> R + Send + Sync + 'static,
{
    run_pool_watchdog_opt(jobs, threads, limit, usize::MAX, f)
        .into_iter()
        .map(|r| r.unwrap_or_else(|_| on_timeout.clone()))
        .collect()
}

/// why a job of `run_pool_watchdog_opt` has no result
#[derive(Debug, Clone, Copy, PartialEq)]
pub enum Stuck {
    /// the job did not return within the limit; its thread was abandoned (it may still be spinning)
    Timeout,
    /// the job was never started because `max_abandoned` threads had already been abandoned
    Skipped,
}

/// The general form: results are `Err(Stuck::Timeout)` for jobs whose thread had to be abandoned, and
/// once `max_abandoned` threads have been abandoned (each may burn a core until the process exits) the
/// jobs not yet started are not run at all and get `Err(Stuck::Skipped)`.
pub fn run_pool_watchdog_opt<J, R, F>(
    jobs: Vec<J>,
    threads: usize,
    limit: std::time::Duration,
    max_abandoned: usize,
    f: F,
) -> Vec<Result<R, Stuck>>
where
    J: Send + 'static,
    R: Send + 'static,
    F: Fn(J) -> R + Send + Sync + 'static,
{
    use std::collections::HashMap;
    use std::sync::{mpsc, Arc, Mutex};
    use std::time::Instant;
    let n = jobs.len();
    let queue = Arc::new(Mutex::new(jobs.into_iter().enumerate().collect::<Vec<_>>()));
    queue.lock().unwrap().reverse();
    let inflight: Arc<Mutex<HashMap<usize, (usize, Instant)>>> =
        Arc::new(Mutex::new(HashMap::new()));
    let (tx, rx) = mpsc::channel::<(usize, usize, R)>();
    let f = Arc::new(f);
    let next_worker = std::cell::Cell::new(0usize);
    // workers the supervisor has given up on: if one of them comes back after all it must not take
    // another job (its results are ignored, so that job would be lost)
    let retired: Arc<Mutex<std::collections::HashSet<usize>>> = Default::default();
    let spawn = |wid: usize| {
        let queue = queue.clone();
        let inflight = inflight.clone();
        let retired = retired.clone();
        let tx = tx.clone();
        let f = f.clone();
        std::thread::spawn(move || loop {
            // take the job and register it in one step, so that the supervisor never sees an empty
            // queue and an empty in-flight table while a job is being handed over
            let job = {
                let mut q = queue.lock().unwrap();
                if retired.lock().unwrap().contains(&wid) {
                    break;
                }
                let job = q.pop();
                if let Some((i, _)) = &job {
                    inflight.lock().unwrap().insert(wid, (*i, Instant::now()));
                }
                job
            };
            let Some((i, j)) = job else { break };
            let r = f(j);
            inflight.lock().unwrap().remove(&wid);
            if tx.send((wid, i, r)).is_err() {
                break;
            }
        });
    };
    for _ in 0..threads.max(1) {
        spawn(next_worker.get());
        next_worker.set(next_worker.get() + 1);
    }
    let mut results: Vec<Option<Result<R, Stuck>>> = (0..n).map(|_| None).collect();
    let mut abandoned: Vec<usize> = vec![];
    let mut done = 0;
    while done < n {
        match rx.recv_timeout(std::time::Duration::from_millis(200)) {
            Ok((wid, i, r)) => {
                if !abandoned.contains(&wid) && results[i].is_none() {
                    results[i] = Some(Ok(r));
                    done += 1;
                }
            }
            Err(mpsc::RecvTimeoutError::Timeout) => {}
            Err(mpsc::RecvTimeoutError::Disconnected) => break,
        }
        let stuck: Vec<(usize, usize)> = inflight
            .lock()
            .unwrap()
            .iter()
            .filter(|(w, (_, t))| t.elapsed() > limit && !abandoned.contains(w))
            .map(|(w, (i, _))| (*w, *i))
            .collect();
        for (w, i) in stuck {
            {
                // under the queue lock: the worker checks `retired` under the same lock before it pops
                let _q = queue.lock().unwrap();
                retired.lock().unwrap().insert(w);
            }
            abandoned.push(w);
            inflight.lock().unwrap().remove(&w);
            if results[i].is_none() {
                results[i] = Some(Err(Stuck::Timeout));
                done += 1;
            }
            if abandoned.len() >= max_abandoned {
                // stop feeding the pool: whatever has not been started is skipped
                let skipped: Vec<(usize, J)> = queue.lock().unwrap().drain(..).collect();
                for (k, _) in skipped {
                    if results[k].is_none() {
                        results[k] = Some(Err(Stuck::Skipped));
                        done += 1;
                    }
                }
            } else {
                spawn(next_worker.get());
                next_worker.set(next_worker.get() + 1);
            }
        }
    }
    results
        .into_iter()
        .map(|r| r.unwrap_or(Err(Stuck::Timeout)))
        .collect()
}

// ---------------------------------------------------------------------------------------------
// progress monitor for the ops that run their cases one after the other on the main thread: if the
// code under test does not return from one case (a loop inside a single poll cannot be interrupted
// by an async timeout), the monitor writes a rows file that holds exactly that case as a violation
// and ends the process, so that the check reports the failing input instead of timing out.

static CURRENT_CASE: std::sync::Mutex<Option<(String, std::time::Instant)>> =
    std::sync::Mutex::new(None);

/// the op is about to hand `case` to the code under test
pub fn progress(case: &str) {
    *CURRENT_CASE.lock().unwrap() =
        Some((case.replace(['\t', '\n'], " "), std::time::Instant::now()));
}

/// the op is not inside the code under test (generating, asking the model, writing)
pub fn progress_idle() {
    *CURRENT_CASE.lock().unwrap() = None;
}

/// a panic escaped the op (the code under test panicked outside any per-case `catch_unwind`): report
/// the case that was running as the failing input; returns false if no case was registered
pub fn report_escaped_panic(opts: &Opts, op: &str) -> bool {
    let Some((case, _)) = CURRENT_CASE.lock().map(|g| g.clone()).unwrap_or(None) else {
        return false;
    };
    let _ = fs::create_dir_all(&opts.out);
    if let Ok(mut f) = fs::File::create(opts.out.join(format!("{op}.rows"))) {
        let _ = writeln!(f, "{case}\tdirect\tviolation panic-in-code-under-test\tok");
    }
    if let Ok(mut f) = fs::File::create(opts.out.join(format!("{op}.stats"))) {
        let _ = writeln!(f, "stat\tpanic_escaped\t1");
        let _ = writeln!(f, "note\tthe code under test panicked on the case above; all other rows of this run were discarded");
    }
    true
}

pub fn start_monitor(opts: &Opts, op: &str, limit: std::time::Duration) {
    let out = opts.out.clone();
    let op = op.to_string();
    std::thread::spawn(move || loop {
        std::thread::sleep(std::time::Duration::from_millis(500));
        let stuck = match &*CURRENT_CASE.lock().unwrap() {
            Some((c, t)) if t.elapsed() > limit => Some(c.clone()),
            _ => None,
        };
        if let Some(case) = stuck {
            let _ = fs::create_dir_all(&out);
            if let Ok(mut f) = fs::File::create(out.join(format!("{op}.rows"))) {
                let _ = writeln!(f, "{case}\tdirect\tviolation case-does-not-return\tok");
            }
            if let Ok(mut f) = fs::File::create(out.join(format!("{op}.stats"))) {
                let _ = writeln!(f, "stat\tcase_does_not_return\t1");
                let _ = writeln!(f, "note\tthe code under test did not return within {}s on the case above; all other rows of this run were discarded", limit.as_secs());
            }
            std::process::exit(0);
        }
    });
}
