//! Loopback SSH peer (russh server) for the real `Ssh` transport (C06/C07/C20).
use std::{sync::Arc, time::Duration};

use async_trait::async_trait;
use netconf::transport::{Password, Ssh, Transport};
use russh::{
    server::{self, Auth, Msg, Session},
    Channel, ChannelId, CryptoVec,
};
use tokio::{net::TcpListener, sync::mpsc};

use crate::frame::{observe_dyn, Case, End, Obs};

pub struct Handler {
    ready: mpsc::UnboundedSender<(server::Handle, ChannelId)>,
    pub password_seen: Option<Arc<std::sync::Mutex<Option<String>>>>,
    pub accept: bool,
}

#[async_trait]
impl server::Handler for Handler {
    type Error = anyhow::Error;

    async fn auth_password(self, _user: &str, password: &str) -> Result<(Self, Auth), Self::Error> {
        if let Some(p) = &self.password_seen {
            *p.lock().unwrap() = Some(password.to_string());
        }
        if self.accept {
            Ok((self, Auth::Accept))
        } else {
            Ok((
                self,
                Auth::Reject {
                    proceed_with_methods: None,
                },
            ))
        }
    }

    async fn channel_open_session(
        self,
        _channel: Channel<Msg>,
        session: Session,
    ) -> Result<(Self, bool, Session), Self::Error> {
        Ok((self, true, session))
    }

    async fn subsystem_request(
        self,
        channel: ChannelId,
        _name: &str,
        mut session: Session,
    ) -> Result<(Self, Session), Self::Error> {
        session.channel_success(channel);
        let _ = self.ready.send((session.handle(), channel));
        Ok((self, session))
    }
}

pub fn config() -> Arc<server::Config> {
    let key = russh_keys::load_secret_key(
        format!("{}/ssh_host_ed25519", crate::tlsserver::CERT_DIR),
        None,
    )
    .expect("ssh host key");
    Arc::new(server::Config {
        inactivity_timeout: Some(Duration::from_secs(3600)),
        auth_rejection_time: Duration::from_millis(10),
        auth_rejection_time_initial: Some(Duration::from_millis(0)),
        keys: vec![key],
        ..Default::default()
    })
}

/// start a one-connection SSH server; returns (port, receiver of (handle, channel) once the netconf
/// subsystem was requested, task handle of the connection)
pub async fn start(
    accept: bool,
    password_seen: Option<Arc<std::sync::Mutex<Option<String>>>>,
) -> (
    u16,
    mpsc::UnboundedReceiver<(server::Handle, ChannelId)>,
    tokio::task::JoinHandle<()>,
) {
    let listener = TcpListener::bind("127.0.0.1:0").await.unwrap();
    let port = listener.local_addr().unwrap().port();
    let (tx, rx) = mpsc::unbounded_channel();
    let cfg = config();
    let conn = tokio::spawn(async move {
        let Ok((sock, _)) = listener.accept().await else {
            return;
        };
        let h = Handler {
            ready: tx,
            password_seen,
            accept,
        };
        if let Ok(running) = server::run_stream(cfg, sock, h).await {
            let _ = running.await;
        }
    });
    (port, rx, conn)
}

pub async fn run_case(case: &Case, window: Duration, max: usize) -> Obs {
    let (port, mut ready, conn) = start(true, None).await;
    let chunks = case.chunks.clone();
    let end = case.end.clone();
    let conn_abort = conn.abort_handle();
    let script = tokio::spawn(async move {
        let Some((handle, ch)) = ready.recv().await else {
            return;
        };
        // let the client finish channel setup and start its pump
        tokio::time::sleep(Duration::from_millis(20)).await;
        // Channel messages that are not data do not end the byte stream (RFC 4254: only EOF and CLOSE
        // do; `exit-status` is not ordered relative to data, and an sshd may send it before the last
        // data packets; extended data is stderr). Which ones a case gets, and where, is a function of
        // the case, so a replay sends the same packets. The model does not see them: they change nothing.
        let n = chunks.len();
        let noise = (n + chunks.iter().map(|c| c.len()).sum::<usize>()) % 4;
        for (i, c) in chunks.into_iter().enumerate() {
            match noise {
                1 if i + 1 == n && n > 1 => {
                    let _ = handle.exit_status_request(ch, 0).await;
                }
                2 if i == 1 => {
                    let _ = handle.extended_data(ch, 1, CryptoVec::from_slice(b"warning: x\n")).await;
                    let _ = handle.exit_status_request(ch, 0).await;
                }
                3 if i == n / 2 && n > 1 => {
                    let _ = handle.extended_data(ch, 1, CryptoVec::from_slice(b"]]>]]>")).await;
                }
                _ => {}
            }
            if handle.data(ch, CryptoVec::from_slice(&c)).await.is_err() {
                return;
            }
            tokio::time::sleep(Duration::from_millis(crate::frame::gap_ms())).await;
        }
        match end {
            End::Quiet => tokio::time::sleep(Duration::from_secs(3600)).await,
            End::Eof => {
                let _ = handle.eof(ch).await;
                tokio::time::sleep(Duration::from_millis(5)).await;
                let _ = handle.close(ch).await;
                tokio::time::sleep(Duration::from_secs(3600)).await;
            }
            End::EofHold => {
                let _ = handle.eof(ch).await;
                tokio::time::sleep(Duration::from_secs(3600)).await;
            }
            End::Abort => {
                // channel closed without EOF; then the TCP connection goes away
                let _ = handle.close(ch).await;
                tokio::time::sleep(Duration::from_millis(20)).await;
                conn_abort.abort();
                tokio::time::sleep(Duration::from_secs(3600)).await;
            }
        }
    });
    let pw: Password = "verif-password".parse().unwrap();
    let t = tokio::time::timeout(
        Duration::from_secs(10),
        Ssh::verif_connect(("127.0.0.1", port), "verif".to_string(), pw),
    )
    .await;
    let obs = match t {
        Ok(Ok(t)) => {
            let (_tx, mut rx) = t.split();
            let o = observe_dyn(&mut rx, window + Duration::from_millis(100), max).await;
            drop(_tx);
            o
        }
        Ok(Err(e)) => Obs {
            msgs: vec![],
            end: "err",
            again: "-",
            note: format!("connect: {e}"),
        },
        Err(_) => Obs {
            msgs: vec![],
            end: "err",
            again: "-",
            note: "connect: timeout".into(),
        },
    };
    script.abort();
    conn.abort();
    obs
}
