//! C13: metamorphic correspondence — a message and an XML-equivalent re-serialisation of it must be
//! accepted alike and parse to the same value. Documents come from a small DOM; each variant
//! applies ONE information-preserving rewrite at ONE target, so a difference is attributable to a
//! (rewrite, element) class.
use std::time::Duration;

use crate::{hello, memtransport as mt, reply, util::*};

#[derive(Clone, Debug)]
pub enum Node {
    El(El),
    Text(String),
}

#[derive(Clone, Debug)]
pub struct El {
    pub ns: &'static str,
    pub name: String,
    pub attrs: Vec<(String, String)>, // (qualified name, value); namespace declarations are generated
    pub kids: Vec<Node>,
    pub token: bool, // text content is token-valued (whitespace around it is insignificant)
    pub opaque: bool, // content is an opaque value (never rewritten inside)
}

pub fn el(ns: &'static str, name: &str, kids: Vec<Node>) -> El {
    El {
        ns,
        name: name.into(),
        attrs: vec![],
        kids,
        token: false,
        opaque: false,
    }
}
pub fn leaf(ns: &'static str, name: &str, text: &str, token: bool) -> Node {
    Node::El(El {
        ns,
        name: name.into(),
        attrs: vec![],
        kids: vec![Node::Text(text.into())],
        token,
        opaque: false,
    })
}
pub fn empty(ns: &'static str, name: &str) -> Node {
    Node::El(el(ns, name, vec![]))
}

#[derive(Clone, Debug, Default)]
pub struct Style {
    pub prefix: bool,     // nc:/jc: prefixes instead of default namespace declarations
    pub ws_between: bool, // newline + indentation between elements
    pub pad: Option<String>, // element name whose text is padded with whitespace
    pub pad_crlf: bool,      // … with CR LF line ends (a document pretty-printed on another platform)
    pub comment_in: Option<String>, // element name that gets a comment between its children (or before end)
    pub comment_in_text: Option<String>, // element name that gets a comment inside its text
    pub flip_empty: Option<String>, // childless element name written in the other form (<x/> <-> <x></x>)
    pub single_quotes: bool,
    pub reverse_attrs: bool,
    pub decl: Option<&'static str>, // an XML declaration in front of the root, in this spelling
    pub root_comment: bool,
    pub after_root: Option<&'static str>, // Misc after the root element: comment, whitespace, PI
    pub charref_attrs: bool, // attribute values spelled with character references
    pub tag_ws: u8, // white space inside tags: 1 `</x >`, 2 `</x\n>` and `<x >` (XML 1.0 [40], [42]: `S?` before `>`)
}

fn esc(s: &str) -> String {
    s.replace('&', "&amp;")
        .replace('<', "&lt;")
        .replace('>', "&gt;")
}

fn prefix_of(ns: &str) -> &'static str {
    match ns {
        mt::BASE_NS => "nc",
        "http://xml.juniper.net/xnm/1.1/xnm" => "xnm",
        _ => "x",
    }
}

fn write(
    e: &El,
    parent_ns: Option<&str>,
    st: &Style,
    depth: usize,
    out: &mut String,
    declared: &mut Vec<String>,
) {
    let q = if st.prefix {
        format!("{}:{}", prefix_of(e.ns), e.name)
    } else {
        e.name.clone()
    };
    let mut attrs: Vec<(String, String)> = vec![];
    let mut pushed = false;
    if st.prefix {
        if !declared.iter().any(|d| d == e.ns) {
            attrs.push((format!("xmlns:{}", prefix_of(e.ns)), e.ns.to_string()));
            declared.push(e.ns.to_string());
            pushed = true;
        }
    } else if parent_ns != Some(e.ns) {
        attrs.push(("xmlns".into(), e.ns.to_string()));
    }
    attrs.extend(e.attrs.iter().cloned());
    if st.reverse_attrs {
        attrs.reverse();
    }
    let qt = if st.single_quotes { '\'' } else { '"' };
    let ind = if st.ws_between {
        format!("\n{}", "  ".repeat(depth))
    } else {
        String::new()
    };
    out.push_str(&ind);
    out.push('<');
    out.push_str(&q);
    for (k, v) in &attrs {
        let v = esc(v).replace(qt, if qt == '"' { "&quot;" } else { "&apos;" });
        // character references: the first character of the value (namespace declarations excepted:
        // quick-xml compares namespace names as raw bytes); the message-id placeholder is replaced
        // by a char-ref spelling of the real id where the id is filled in (`CRID`)
        let v = if st.charref_attrs && !k.starts_with("xmlns") {
            if v == "ID" {
                "CRID".to_string()
            } else {
                match v.chars().next() {
                    Some(c) if c != '&' => format!("&#x{:x};{}", c as u32, &v[c.len_utf8()..]),
                    _ => v,
                }
            }
        } else {
            v
        };
        out.push_str(&format!(" {k}={qt}{v}{qt}"));
    }
    let collapse_default = e.kids.is_empty()
        && e.attrs.iter().all(|_| true)
        && !matches!(
            e.name.as_str(),
            "rpc-reply"
                | "data"
                | "capabilities"
                | "hello"
                | "configuration"
                | "policy-options"
                | "load-configuration-results"
                | "name"
                | "from"
                | "then"
        );
    let as_empty = if e.kids.is_empty() {
        collapse_default != (st.flip_empty.as_deref() == Some(e.name.as_str()))
    } else {
        false
    };
    if as_empty {
        out.push_str("/>");
    } else {
        out.push('>');
        let n = e.kids.len();
        for (i, k) in e.kids.iter().enumerate() {
            match k {
                Node::El(c) => {
                    if e.opaque {
                        let mut inner = String::new();
                        // opaque content is a value: never re-serialised differently
                        write(c, None, &Style::default(), 0, &mut inner, &mut vec![]);
                        out.push_str(&inner);
                    } else {
                        write(c, Some(e.ns), st, depth + 1, out, declared);
                        if st.comment_in.as_deref() == Some(e.name.as_str()) && i + 1 < n.max(1) {
                            out.push_str("<!-- c & d -->");
                        }
                    }
                }
                Node::Text(t) => {
                    let mut s = esc(t);
                    if st.comment_in_text.as_deref() == Some(e.name.as_str()) {
                        s = format!("{s}<!-- c -->");
                    }
                    if st.pad.as_deref() == Some(e.name.as_str()) {
                        s = if st.pad_crlf { format!("\r\n   {s}\r\n\t") } else { format!("\n   {s} \t") };
                    }
                    out.push_str(&s);
                }
            }
        }
        if st.comment_in.as_deref() == Some(e.name.as_str())
            && !e.opaque
            && e.kids.iter().all(|k| matches!(k, Node::El(_)))
        {
            out.push_str("<!-- end -->");
        }
        if st.ws_between && !e.opaque && e.kids.iter().any(|k| matches!(k, Node::El(_))) {
            out.push_str(&format!("\n{}", "  ".repeat(depth)));
        }
        out.push_str(&match st.tag_ws {
            1 => format!("</{q} >"),
            2 => format!("</{q}\n\t>"),
            _ => format!("</{q}>"),
        });
    }
    if pushed {
        // keep declarations in scope for descendants only
        declared.pop();
    }
}

pub fn render(root: &El, st: &Style) -> String {
    let mut out = String::new();
    if let Some(d) = st.decl {
        out.push_str(d);
    }
    if st.root_comment {
        out.push_str("<!-- before root: R&D lab, rack 4 &nbsp; < > -->");
    }
    let mut declared = vec![];
    write(root, None, st, 0, &mut out, &mut declared);
    if let Some(m) = st.after_root {
        out.push_str(m);
    }
    out.push_str("]]>]]>");
    out.trim_start_matches('\n').to_string()
}

fn names(e: &El, pred: &dyn Fn(&El) -> bool, out: &mut Vec<String>) {
    if pred(e) && !out.contains(&e.name) {
        out.push(e.name.clone());
    }
    if !e.opaque {
        for k in &e.kids {
            if let Node::El(c) = k {
                names(c, pred, out);
            }
        }
    }
}

/// all single-rewrite variants of a document, each labelled `<rewrite>@<target>`
pub fn variants(root: &El) -> Vec<(String, Style)> {
    let mut v: Vec<(String, Style)> = vec![];
    v.push((
        "prefix@*".into(),
        Style {
            prefix: true,
            ..Default::default()
        },
    ));
    v.push((
        "whitespace-between@*".into(),
        Style {
            ws_between: true,
            ..Default::default()
        },
    ));
    v.push((
        "attr-quotes@*".into(),
        Style {
            single_quotes: true,
            ..Default::default()
        },
    ));
    for k in [1u8, 2] {
        v.push((
            format!("tag-ws{k}@*"),
            Style {
                tag_ws: k,
                ..Default::default()
            },
        ));
    }
    v.push((
        "attr-order@*".into(),
        Style {
            reverse_attrs: true,
            ..Default::default()
        },
    ));
    // every spelling of the XML declaration (XML 1.0 §2.8, §4.3.3: encoding names are case-insensitive)
    for (i, d) in [
        "<?xml version=\"1.0\" encoding=\"UTF-8\"?>",
        "<?xml version=\"1.0\"?>",
        "<?xml version='1.0' encoding='UTF-8'?>",
        "<?xml version=\"1.0\" encoding=\"utf-8\"?>",
        "<?xml version=\"1.0\" encoding=\"Utf-8\" ?>",
        "<?xml version=\"1.0\" encoding=\"UTF-8\" standalone=\"yes\"?>",
        "<?xml  version = \"1.0\"  encoding = \"UTF-8\"?>\n",
    ]
    .into_iter()
    .enumerate()
    {
        v.push((
            format!("xml-decl{i}@*"),
            Style {
                decl: Some(d),
                ..Default::default()
            },
        ));
    }
    v.push((
        "charref-attrs@*".into(),
        Style {
            charref_attrs: true,
            ..Default::default()
        },
    ));
    v.push((
        "comment@root".into(),
        Style {
            root_comment: true,
            ..Default::default()
        },
    ));
    // XML `document ::= prolog element Misc*`: comments, white space (and PIs) may follow the root
    v.push((
        "comment@after-root".into(),
        Style {
            after_root: Some("<!-- after root: R&D &#0; &; -->"),
            ..Default::default()
        },
    ));
    v.push((
        "comments@after-root".into(),
        Style {
            after_root: Some("\n<!-- a --><!-- b -->\n"),
            ..Default::default()
        },
    ));
    v.push((
        "whitespace@after-root".into(),
        Style {
            after_root: Some("\n  \n"),
            ..Default::default()
        },
    ));
    let mut t = vec![];
    names(root, &|e| e.token, &mut t);
    for n in t {
        v.push((
            format!("pad-text@{n}"),
            Style {
                pad: Some(n.clone()),
                ..Default::default()
            },
        ));
        v.push((
            format!("pad-text-crlf@{n}"),
            Style {
                pad: Some(n.clone()),
                pad_crlf: true,
                ..Default::default()
            },
        ));
        v.push((
            format!("comment-in-text@{n}"),
            Style {
                comment_in_text: Some(n),
                ..Default::default()
            },
        ));
    }
    let mut c = vec![];
    names(
        root,
        &|e| {
            !e.opaque
                && (e.kids.is_empty() || e.kids.iter().all(|k| matches!(k, Node::El(_))))
                && !e.kids.is_empty()
        },
        &mut c,
    );
    for n in c {
        v.push((
            format!("comment@{n}"),
            Style {
                comment_in: Some(n),
                ..Default::default()
            },
        ));
    }
    let mut em = vec![];
    names(root, &|e| e.kids.is_empty(), &mut em);
    for n in em {
        v.push((
            format!("empty-form@{n}"),
            Style {
                flip_empty: Some(n),
                ..Default::default()
            },
        ));
    }
    v
}

// ---------------------------------------------------------------------------------------------
// document families

const B: &str = mt::BASE_NS;
const X: &str = "http://xml.juniper.net/xnm/1.1/xnm";

fn rpc_error(sev: &str, rich: bool) -> Node {
    let mut kids = vec![
        leaf(B, "error-type", "protocol", true),
        leaf(B, "error-tag", "operation-failed", true),
        leaf(B, "error-severity", sev, true),
    ];
    if rich {
        kids.push(leaf(B, "error-app-tag", "app", true));
        kids.push(leaf(B, "error-path", "/a/b", true));
        kids.push(leaf(B, "error-message", "statement creation failed", true));
        kids.push(Node::El(el(
            B,
            "error-info",
            vec![
                leaf(B, "bad-element", "route-filter", false),
                leaf(B, "session-id", "7", true),
            ],
        )));
    }
    Node::El(el(B, "rpc-error", kids))
}

fn reply_root(kids: Vec<Node>) -> El {
    let mut e = el(B, "rpc-reply", kids);
    e.attrs = vec![
        ("message-id".into(), "ID".into()),
        ("other".into(), "a\"b'c".into()),
    ];
    e
}

pub fn reply_docs() -> Vec<(&'static str, &'static str, El)> {
    let mut data = el(
        B,
        "data",
        vec![Node::El(el(
            X,
            "configuration",
            vec![leaf(X, "a", "1", false)],
        ))],
    );
    data.opaque = true;
    vec![
        ("empty", "ok", reply_root(vec![empty(B, "ok")])),
        (
            "empty",
            "errors",
            reply_root(vec![rpc_error("error", true), rpc_error("warning", false)]),
        ),
        ("data", "data", reply_root(vec![Node::El(data.clone())])),
        (
            "data",
            "errors",
            reply_root(vec![rpc_error("error", false)]),
        ),
        (
            "data",
            "empty-data",
            reply_root(vec![Node::El(el(B, "data", vec![]))]),
        ),
        ("bare", "bare-ok", reply_root(vec![])),
        ("bare", "errors", reply_root(vec![rpc_error("error", true)])),
        (
            "load",
            "ok",
            reply_root(vec![Node::El(el(
                B,
                "load-configuration-results",
                vec![rpc_error("warning", false), empty(B, "ok")],
            ))]),
        ),
        (
            "load",
            "errors",
            reply_root(vec![Node::El(el(
                B,
                "load-configuration-results",
                vec![
                    rpc_error("error", true),
                    leaf(B, "load-error-count", "1", true),
                ],
            ))]),
        ),
    ]
}

pub fn hello_doc() -> El {
    el(
        B,
        "hello",
        vec![
            Node::El(el(
                B,
                "capabilities",
                vec![
                    leaf(B, "capability", mt::CAP_BASE10, true),
                    leaf(
                        B,
                        "capability",
                        "urn:ietf:params:netconf:capability:url:1.0?scheme=http,ftp&x=1",
                        true,
                    ),
                    leaf(B, "capability", mt::CAP_JUNOS, true),
                ],
            )),
            leaf(B, "session-id", "4711", true),
        ],
    )
}

fn route_filter(addr: &str, range: &str) -> Node {
    Node::El(el(
        X,
        "route-filter",
        vec![
            leaf(X, "address", addr, true),
            leaf(X, "choice-ident", "prefix-length-range", true),
            leaf(X, "choice-value", range, true),
        ],
    ))
}

/// an installed (ephemeral) configuration as Junos renders it, wrapped in a get-config reply
pub fn installed_doc() -> El {
    let term = |fam: &str, filters: Vec<Node>| {
        let mut from = vec![leaf(X, "family", fam, true)];
        from.extend(filters);
        Node::El(el(
            X,
            "term",
            vec![
                leaf(X, "name", fam, false),
                Node::El(el(X, "from", from)),
                Node::El(el(X, "then", vec![empty(X, "accept")])),
            ],
        ))
    };
    let ps = el(
        X,
        "policy-statement",
        vec![
            leaf(X, "name", "fltr-foo", false),
            term(
                "inet",
                vec![
                    route_filter("192.0.2.0/24", "/24-/32"),
                    route_filter("198.51.100.0/24", "/24-/24"),
                ],
            ),
            term("inet6", vec![route_filter("2001:db8::/32", "/32-/48")]),
            Node::El(el(X, "then", vec![empty(X, "reject")])),
        ],
    );
    let data = el(
        B,
        "data",
        vec![Node::El(el(
            X,
            "configuration",
            vec![Node::El(el(X, "policy-options", vec![Node::El(ps)]))],
        ))],
    );
    reply_root(vec![Node::El(data)])
}

/// a running configuration with annotated policy statements (candidates)
pub fn candidates_doc() -> El {
    let mut ps = el(
        X,
        "policy-statement",
        vec![
            leaf(X, "name", "fltr-foo", false),
            Node::El(el(X, "then", vec![empty(X, "reject")])),
        ],
    );
    ps.attrs = vec![
        (
            "xmlns:jcmd".into(),
            "http://yang.juniper.net/junos/jcmd".into(),
        ),
        (
            "jcmd:comment".into(),
            "/* bgpfu-fltr: AS-FOO AND { 0.0.0.0/0^8-24 } */".into(),
        ),
    ];
    let mut ps2 = el(
        X,
        "policy-statement",
        vec![
            leaf(X, "name", "other", false),
            Node::El(el(X, "then", vec![empty(X, "accept")])),
        ],
    );
    ps2.attrs = vec![];
    // a deactivated annotated statement and an explicitly active one: three attributes each, so that
    // attribute order (comment before / after the flag) is a rewrite with something to get wrong
    let mk3 = |name: &str, flag: &str| {
        let mut p = el(
            X,
            "policy-statement",
            vec![
                leaf(X, "name", name, false),
                Node::El(el(X, "then", vec![empty(X, "reject")])),
            ],
        );
        p.attrs = vec![
            ("xmlns:jcmd".into(), "http://yang.juniper.net/junos/jcmd".into()),
            ("jcmd:comment".into(), "/* bgpfu-fltr: AS-BAR */".into()),
            ("jcmd:active".into(), flag.into()),
        ];
        p
    };
    let (ps3, ps4) = (mk3("fltr-off", "false"), mk3("fltr-on", "true"));
    let data = el(
        B,
        "data",
        vec![Node::El(el(
            X,
            "configuration",
            vec![Node::El(el(
                X,
                "policy-options",
                vec![Node::El(ps), Node::El(ps2), Node::El(ps3), Node::El(ps4)],
            ))],
        ))],
    );
    reply_root(vec![Node::El(data)])
}

async fn run_reply(kind: &str, text: &str) -> String {
    let t = text.to_string();
    reply::outcome(kind, move |id| {
        let cr: String = id.chars().enumerate().map(|(i, c)| if i % 2 == 0 { format!("&#{};", c as u32) } else { format!("&#x{:x};", c as u32) }).collect();
        t.replace("message-id=\"ID\"", &format!("message-id=\"{id}\""))
            .replace("message-id='ID'", &format!("message-id='{id}'"))
            .replace("message-id=\"CRID\"", &format!("message-id=\"{cr}\""))
    })
    .await
}

fn run_agent_installed(text: &str) -> String {
    match agent::verif::read_installed(&text.replace("\"ID\"", "\"1\"").replace("'ID'", "'1'").replace("\"CRID\"", "\"&#49;\"")) {
        Ok(v) => format!("ok:{v:?}"),
        Err(_) => "err".into(),
    }
}
fn run_agent_candidates(text: &str) -> String {
    match agent::verif::read_candidates(&text.replace("\"ID\"", "\"1\"").replace("'ID'", "'1'").replace("\"CRID\"", "\"&#49;\"")) {
        Ok(v) => format!("ok:{v:?}"),
        Err(_) => "err".into(),
    }
}

pub fn main(opts: &Opts) {
    let mut sink = Sink::new();
    let rt = tokio::runtime::Builder::new_current_thread()
        .enable_all()
        .build()
        .unwrap();
    let mut check = |family: &str,
                     doc: &El,
                     run: &mut dyn FnMut(&str) -> String,
                     model: &dyn Fn(&str) -> Option<String>,
                     sink: &mut Sink| {
        let base_text = render(doc, &Style::default());
        let base = run(&base_text);
        sink.count(&format!(
            "base.{family}.{}",
            base.split(':').next().unwrap()
        ));
        for (label, st) in variants(doc) {
            let text = render(doc, &st);
            if text == base_text {
                continue;
            }
            let case = format!("{family};{label};{}", hexs(&text));
            progress(&case);
            let out = run(&text);
            progress_idle();
            let verdict = if out == base {
                "ok".to_string()
            } else {
                format!("violation {label}")
            };
            sink.direct(&case, verdict);
            if let Some(line) = model(&text) {
                sink.corr(&case, line, out.clone());
            }
            sink.count(&format!("rewrite.{}", label.split('@').next().unwrap()));
            if sink.samples.len() < 6 {
                sink.sample(format!("{family} {label}: {text} -> {out} (base {base})"));
            }
        }
    };
    for (kind, name, doc) in reply_docs() {
        let fam = format!("reply-{kind}-{name}");
        check(
            &fam,
            &doc,
            &mut |t| {
                rt.block_on(async {
                    tokio::time::timeout(Duration::from_secs(5), run_reply(kind, t))
                        .await
                        .unwrap_or("timeout".into())
                })
            },
            &|t| {
                let t = t.replace("\"ID\"", "\"1\"").replace("'ID'", "'1'").replace("\"CRID\"", "\"&#49;\"");
                Some(format!(
                    "xml reply-for fixed {kind} 1 {}",
                    crate::xmltok::tokenize(&t)
                ))
            },
            &mut sink,
        );
    }
    check(
        "hello",
        &hello_doc(),
        &mut |t| rt.block_on(async { hello::establish(t).await.0 }),
        &|t| {
            Some(format!(
                "xml hello fixed 0 {} {}",
                crate::xmltok::uri_oracle(&crate::xmltok::spans(t)),
                crate::xmltok::tokenize(t)
            ))
        },
        &mut sink,
    );
    check(
        "installed",
        &installed_doc(),
        &mut |t| run_agent_installed(t),
        &|_| None,
        &mut sink,
    );
    check(
        "candidates",
        &candidates_doc(),
        &mut |t| run_agent_candidates(t),
        &|_| None,
        &mut sink,
    );
    let _ = opts;
    sink.write(opts, "meta");
}
