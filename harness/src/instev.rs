//! C01, read-back at event level: the real reader of installed policies
//! (`agent::verif::read_installed`) against the event-level model (`Model/FetchInstalled.lean`,
//! driver family `instev`), and the harness renderer of get-config replies against the Lean
//! `renderGetConfig` (`Spec/InstalledGrammar.lean`).
//!
//! Two entry points:
//!  * `ev_rows` — called by op `plan` (`evlevel=1`) for every distinct configuration it generates or
//!    reaches (initial states, states after the implementation's payloads were applied):
//!      corr  `instev render <cfg>`             tokenize(render_get_config(cfg)) == renderGetConfig events
//!      corr  `instev readev <oracles> <events>`  real reader == event-level model on those events
//!      spec  `instev hyp <cfg> <oracles>`        hypotheses of the C01 event-level theorems hold of the
//!                                                real libraries (quick-xml unescape, generic-ip parsers, UTF-8)
//!  * op `instev` — documents OUTSIDE the agent's own output: every base document (rendered from a few
//!    configurations) with ONE mutation (snippet inserted at a tag boundary or inside a leaf, element
//!    deleted / duplicated / emptied, substring replaced, truncated) → `instev readev` corr row.
//!    Case descriptor: `doc:<hex of the document>` (re-runnable).
use std::collections::HashSet;

use crate::{plan, util::*, xmltok::tokenize};

const XNM_HEX: &str = "687474703a2f2f786d6c2e6a756e697065722e6e65742f786e6d2f312e312f786e6d";

fn unhexs(s: &str) -> Option<String> {
    String::from_utf8(unhex(s)?).ok()
}

fn table(items: Vec<(String, String)>) -> String {
    let mut seen: HashSet<String> = HashSet::new();
    let mut out = vec![];
    for (k, v) in items {
        if seen.insert(k.clone()) {
            out.push(format!("{k}:{v}"));
        }
    }
    if out.is_empty() {
        ".".into()
    } else {
        out.join(";")
    }
}

/// `Prefix<A>::from_str` → `<addr hex>/<len>` | `!`
fn parse_prefix(six: bool, text: &str) -> String {
    use std::str::FromStr;
    if six {
        match text.parse::<ip::concrete::Prefix<ip::Ipv6>>() {
            Err(_) => "!".into(),
            Ok(p) => {
                let s = p.to_string();
                let (a, l) = s.split_once('/').expect("prefix display");
                let a = std::net::Ipv6Addr::from_str(a).expect("ipv6 display");
                format!("{:x}/{}", u128::from(a), l)
            }
        }
    } else {
        match text.parse::<ip::concrete::Prefix<ip::Ipv4>>() {
            Err(_) => "!".into(),
            Ok(p) => {
                let s = p.to_string();
                let (a, l) = s.split_once('/').expect("prefix display");
                let a = std::net::Ipv4Addr::from_str(a).expect("ipv4 display");
                format!("{:x}/{}", u32::from(a), l)
            }
        }
    }
}

/// `PrefixLength<A>::from_str` → `<n>` | `!`
fn parse_len(six: bool, text: &str) -> String {
    if six {
        match text.parse::<ip::concrete::PrefixLength<ip::Ipv6>>() {
            Err(_) => "!".into(),
            Ok(l) => format!("{}", AsRef::<u8>::as_ref(&l)),
        }
    } else {
        match text.parse::<ip::concrete::PrefixLength<ip::Ipv4>>() {
            Err(_) => "!".into(),
            Ok(l) => format!("{}", AsRef::<u8>::as_ref(&l)),
        }
    }
}

/// oracle tables for `instev readev` / `instev hyp` from the tokenised document:
/// (unescape, prefix, len) — the answers of the real libraries to every query the model can make
pub fn inst_oracles(evs: &str) -> (String, String, String) {
    let mut uq = vec![];
    let mut pq = vec![];
    let mut lq = vec![];
    if evs != "." {
        for ev in evs.split(',') {
            let f: Vec<&str> = ev.split('|').collect();
            if f.len() != 6 || f[0] != "S" {
                continue;
            }
            let Some(span) = f[4].strip_prefix('s').and_then(unhexs) else {
                continue;
            };
            let local = unhexs(f[2]).unwrap_or_default();
            if f[1] == format!("b{XNM_HEX}") && local == "name" {
                let u = quick_xml::escape::unescape(&span)
                    .ok()
                    .map(|c| c.into_owned());
                uq.push((
                    hexs(&span),
                    u.map(|u| hexs(&u)).unwrap_or_else(|| "!".into()),
                ));
            }
            if local == "address" {
                let t = span.trim();
                pq.push((format!("4{}", hexs(t)), parse_prefix(false, t)));
                pq.push((format!("6{}", hexs(t)), parse_prefix(true, t)));
            }
            if local == "choice-value" {
                if let Some((l, u)) = span.trim().split_once('-') {
                    for part in [l, u] {
                        lq.push((format!("4{}", hexs(part)), parse_len(false, part)));
                        lq.push((format!("6{}", hexs(part)), parse_len(true, part)));
                    }
                }
            }
        }
    }
    (table(uq), table(pq), table(lq))
}

/// the three event-level rows for one configuration
pub fn ev_rows(sink: &mut Sink, case: &str, cfg: &plan::JCfg) {
    let xml = plan::render_get_config(cfg);
    let evs = tokenize(&xml);
    let enc = plan::enc_cfg(cfg);
    let (uo, po, lo) = inst_oracles(&evs);
    sink.corr(case, format!("instev render {enc}"), evs.clone());
    sink.corr(
        case,
        format!("instev readev {uo} {po} {lo} {evs}"),
        plan::real_read_installed_xml(xml),
    );
    sink.spec(case, format!("instev hyp {enc} {uo} {po} {lo}"));
    sink.count("evlevel.configs");
}

// ---------------------------------------------------------------------------------------------
// documents outside the agent's own output

/// byte offsets of every tag boundary (`>` followed by anything), i.e. positions right after a `>`
fn boundaries(doc: &str) -> Vec<usize> {
    doc.char_indices()
        .filter(|(_, c)| *c == '>')
        .map(|(i, _)| i + 1)
        .collect()
}

/// (start of start tag, end of matching end tag, name, start of content, end of content) of every
/// element written with a start and an end tag or as an empty element (content range empty)
fn elements(doc: &str) -> Vec<(usize, usize, String, usize, usize)> {
    let b = doc.as_bytes();
    let mut out = vec![];
    let mut stack: Vec<(usize, String, usize)> = vec![];
    let mut i = 0;
    while i < b.len() {
        if b[i] == b'<' {
            let Some(j) = doc[i..].find('>').map(|k| i + k) else {
                break;
            };
            let inner = &doc[i + 1..j];
            if let Some(name) = inner.strip_prefix('/') {
                if let Some((s, n, c)) = stack.pop() {
                    if n == name {
                        out.push((s, j + 1, n, c, i));
                    }
                }
            } else if !inner.starts_with('!') && !inner.starts_with('?') {
                let name = inner.split([' ', '/']).next().unwrap_or("").to_string();
                if inner.ends_with('/') {
                    out.push((i, j + 1, name, j + 1, j + 1));
                } else {
                    stack.push((i, name, j + 1));
                }
            }
            i = j + 1;
        } else {
            i += 1;
        }
    }
    out
}

const SNIPPETS: &[&str] = &[
    "<!-- c -->",
    " ",
    "\n    ",
    "<x/>",
    "<x>y</x>",
    "stray",
    "<![CDATA[z]]>",
    "<?pi x?>",
    "<name>n2</name>",
    "<then><accept/></then>",
    "<then><reject/></then>",
    "<then/>",
    "<family>inet</family>",
    "<from/>",
    "<address>10.0.0.0/8</address>",
    "<choice-ident>prefix-length-range</choice-ident>",
    "<choice-value>/8-/8</choice-value>",
    "\u{a0}",
    "&amp;",
];

const REPLACEMENTS: &[(&str, &str)] = &[
    ("<accept/>", "<accept></accept>"),
    ("<accept/>", "<accept />"),
    ("<accept/>", "<accept/><accept/>"),
    ("<accept/>", "<reject/>"),
    ("<accept/>", "<accept/><!-- c -->"),
    ("<accept/>", "<next-policy/>"),
    ("<reject/>", "<reject></reject>"),
    ("<reject/>", "<reject/><reject/>"),
    ("<reject/>", "<accept/>"),
    ("<reject/>", ""),
    ("<family>inet</family>", "<family>iso</family>"),
    ("<family>inet</family>", "<family> inet </family>"),
    ("<family>inet</family>", "<family>\n inet\t</family>"),
    ("<family>inet</family>", "<family>inet6</family>"),
    ("<family>inet</family>", "<family>in&#101;t</family>"),
    ("<family>inet</family>", "<family>INET</family>"),
    ("<family>inet</family>", "<family></family>"),
    ("<family>inet</family>", "<family/>"),
    ("<family>inet6</family>", "<family>inet</family>"),
    ("<name>inet</name>", "<name> inet</name>"),
    ("<name>inet</name>", "<name>inet </name>"),
    ("<name>inet</name>", "<name>in&#101;t</name>"),
    ("<name>inet</name>", "<name>inet6</name>"),
    ("<name>inet</name>", "<name></name>"),
    ("<name>inet</name>", "<name/>"),
    ("<name>inet6</name>", "<name>inet</name>"),
    ("prefix-length-range", "exact"),
    ("prefix-length-range", " prefix-length-range\n"),
    ("prefix-length-range", "Prefix-Length-Range"),
    ("prefix-length-range", ""),
    ("<choice-value>", "<!-- c --><choice-value>"),
    ("<choice-value>", "<x/><choice-value>"),
    ("<choice-value>", "pad<choice-value>"),
    ("<choice-value>", "<choice-value> "),
    ("</choice-value>", " </choice-value>"),
    ("</choice-value>", "</choice-value><choice-value>/1-/2</choice-value>"),
    ("</choice-ident>", "</choice-ident></route-filter><route-filter>"),
    ("-/", "-"),
    ("-/", "/"),
    ("-/", " - /"),
    ("-/", "-/-/"),
    ("-/", "-/3"),
    ("-/", "-/+"),
    ("<choice-value>/", "<choice-value>"),
    ("<choice-value>/", "<choice-value>/0"),
    ("<choice-value>/", "<choice-value>/4"),
    ("<address>", "<address> "),
    ("</address>", "\n</address>"),
    ("</address>", "/1</address>"),
    ("</address>", "0</address>"),
    ("<address>", "<address>1"),
    ("<address>", "<address>::"),
    ("<address>", "<address>x"),
    ("0/", "1/"),
    ("0/", "0/1"),
    ("<policy-statement>", "<policy-statement xmlns:junos=\"http://xml.juniper.net/junos/23.1R1/junos\" junos:comment=\"c\">"),
    ("<policy-statement>", "<policy-statement inactive=\"inactive\">"),
    ("<term>", "<term xmlns=\"urn:other\">"),
    ("<from>", "<from xmlns=\"urn:other\">"),
    ("<then>", "<then xmlns=\"urn:other\">"),
    ("<route-filter>", "<route-filter xmlns=\"urn:other\">"),
    ("<policy-options>", "<policy-options><!-- c -->"),
    ("<policy-options>", "<policy-options><prefix-list><name>l</name></prefix-list>"),
    ("</policy-options>", "</policy-options><policy-options></policy-options>"),
    ("</configuration>", "</configuration><configuration xmlns=\"http://xml.juniper.net/xnm/1.1/xnm\"></configuration>"),
    ("<data>", "<data><!-- c -->"),
    ("<data>", "<?xml version=\"1.0\"?><data>"),
    ("<rpc-reply ", "<?xml version=\"1.0\" encoding=\"UTF-8\"?>\n<rpc-reply "),
    ("<rpc-reply ", "<nc:rpc-reply xmlns:nc=\"urn:ietf:params:xml:ns:netconf:base:1.0\" "),
];

fn base_configs() -> Vec<(String, plan::JCfg)> {
    let u4 = plan::universe(false);
    let u6 = plan::universe(true);
    let dual = plan::agent_policy("fltr-foo", &u4[0..2], &u6[0..1], false);
    let v4only = plan::agent_policy("a&b", &u4[3..4], &[], false);
    let v6only = plan::agent_policy("p2", &[], &u6[4..6], false);
    let mut noreject = plan::agent_policy("other", &u4[5..6], &[], false);
    noreject.reject = false;
    vec![
        ("dual".into(), vec![dual.clone()]),
        ("two".into(), vec![v4only, v6only]),
        ("mixed".into(), vec![dual, noreject]),
        ("none".into(), vec![]),
    ]
}

fn mutations(doc: &str) -> Vec<(String, String)> {
    let mut out: Vec<(String, String)> = vec![];
    // 1. a snippet at every tag boundary (after every `>`) and in front of every `</`
    let mut pos = boundaries(doc);
    pos.extend(doc.match_indices("</").map(|(i, _)| i));
    pos.sort();
    pos.dedup();
    for p in &pos {
        for (k, s) in SNIPPETS.iter().enumerate() {
            let mut d = String::with_capacity(doc.len() + s.len());
            d.push_str(&doc[..*p]);
            d.push_str(s);
            d.push_str(&doc[*p..]);
            out.push((format!("ins{k}@{p}"), d));
        }
    }
    // 2. every element deleted, duplicated, emptied, written as an empty element
    for (s, e, name, cs, ce) in elements(doc) {
        out.push((
            format!("del.{name}@{s}"),
            format!("{}{}", &doc[..s], &doc[e..]),
        ));
        out.push((
            format!("dup.{name}@{s}"),
            format!("{}{}{}", &doc[..e], &doc[s..e], &doc[e..]),
        ));
        if ce > cs {
            out.push((
                format!("clear.{name}@{s}"),
                format!("{}{}", &doc[..cs], &doc[ce..]),
            ));
            out.push((
                format!("empty.{name}@{s}"),
                format!("{}<{name}/>{}", &doc[..s], &doc[e..]),
            ));
        } else if e > s && doc[s..e].ends_with("/>") {
            out.push((
                format!("open.{name}@{s}"),
                format!("{}<{name}></{name}>{}", &doc[..s], &doc[e..]),
            ));
        }
    }
    // 3. substring replacements, one occurrence at a time
    for (k, (from, to)) in REPLACEMENTS.iter().enumerate() {
        for (i, _) in doc.match_indices(from) {
            out.push((
                format!("rep{k}@{i}"),
                format!("{}{}{}", &doc[..i], to, &doc[i + from.len()..]),
            ));
        }
    }
    // 4. truncations
    let mut t = 0;
    while t < doc.len() {
        if doc.is_char_boundary(t) {
            out.push((format!("trunc@{t}"), doc[..t].to_string()));
        }
        t += 7;
    }
    out
}

pub fn main(opts: &Opts) {
    let mut sink = Sink::new();
    let mut docs: Vec<(String, String)> = vec![];
    if let Some(p) = &opts.replay {
        for l in std::fs::read_to_string(p).unwrap_or_default().lines() {
            if let Some(d) = l.strip_prefix("case\t") {
                let d = d.split('\t').next().unwrap_or("");
                if let Some(h) = d.strip_prefix("doc:") {
                    if let Some(x) = unhexs(h) {
                        docs.push(("replay".into(), x));
                    }
                }
            }
        }
    } else {
        let mut rng = Rng::new(opts.seed);
        for (tag, cfg) in base_configs() {
            let doc = plan::render_get_config(&cfg);
            docs.push((format!("{tag}.base"), doc.clone()));
            let ms = mutations(&doc);
            sink.add(&format!("mutations.{tag}"), ms.len() as u64);
            for (m, d) in ms {
                docs.push((format!("{tag}.{m}"), d));
            }
        }
        // two mutations at once (random pairs) — more in the thorough tier
        let n2 = if opts.thorough() { 8000 } else { 1500 };
        let bases: Vec<String> = base_configs()
            .iter()
            .map(|(_, c)| plan::render_get_config(c))
            .collect();
        for _ in 0..n2 {
            let b = rng.pick(&bases).clone();
            let m1 = mutations(&b);
            if m1.is_empty() {
                continue;
            }
            let (t1, d1) = m1[rng.below(m1.len())].clone();
            let m2 = mutations(&d1);
            if m2.is_empty() {
                continue;
            }
            let (t2, d2) = m2[rng.below(m2.len())].clone();
            docs.push((format!("pair.{t1}+{t2}"), d2));
        }
    }
    let mut seen: HashSet<String> = HashSet::new();
    for (tag, doc) in docs {
        if !seen.insert(doc.clone()) {
            sink.count("docs.duplicate-skipped");
            continue;
        }
        let case = format!("doc:{}", hexs(&doc));
        let evs = tokenize(&doc);
        let (uo, po, lo) = inst_oracles(&evs);
        progress(&case);
        let real = plan::real_read_installed_xml(doc.clone());
        progress_idle();
        sink.corr(
            &case,
            format!("instev readev {uo} {po} {lo} {evs}"),
            real.clone(),
        );
        sink.count("docs");
        let kind = tag
            .split('.')
            .nth(1)
            .unwrap_or("")
            .split('@')
            .next()
            .unwrap_or("")
            .to_string();
        let kind = kind.trim_end_matches(char::is_numeric).to_string();
        sink.count(&format!(
            "mutation.{}",
            if tag.starts_with("pair.") {
                "pair"
            } else {
                &kind
            }
        ));
        sink.count(if real == "err" {
            "result.err"
        } else if real == "ok:." {
            "result.ok-none"
        } else {
            "result.ok-some"
        });
        if sink.samples.len() < 6 && tag.contains("rep") {
            sink.sample(format!("{tag} => {real}"));
        }
    }
    sink.write(opts, "instev");
}
