mod agentrun;
mod build;
mod cands;
mod daemon;
mod deep;
mod e2e;
mod evalseq;
mod fakecli;
mod fakeirrd;
mod fakejunos;
mod frame;
mod fuzz;
mod hello;
mod instev;
mod sendecho;
mod logs;
mod memtransport;
mod meta;
mod multirun;
mod plan;
mod reply;
mod sched;
mod ser;
mod sshserver;
mod tlsserver;
mod util;
mod xmlstrict;
mod xmltok;

use util::Opts;

fn main() {
    let args: Vec<String> = std::env::args().collect();
    // When spawned through the JunosLocal hook the first argument is `fakecli`.
    if args.len() >= 2 && args[1] == "fakecli" {
        fakecli::main(&args[2..]);
        return;
    }
    if args.len() >= 4 && args[1] == "deepone" {
        deep::one(&args[2], args[3].parse().unwrap_or(1));
        return;
    }
    if args.len() < 2 {
        eprintln!("usage: vh <op> [--tier T] [--seed N] [--out DIR] [--replay FILE] [extra…]");
        std::process::exit(2);
    }
    let op = args[1].clone();
    let mut opts = Opts {
        tier: "quick".into(),
        seed: 1,
        out: "/verif/work".into(),
        replay: None,
        extra: vec![],
    };
    let mut i = 2;
    while i < args.len() {
        match args[i].as_str() {
            "--tier" => {
                opts.tier = args[i + 1].clone();
                i += 2;
            }
            "--seed" => {
                opts.seed = args[i + 1].parse().unwrap_or(1);
                i += 2;
            }
            "--out" => {
                opts.out = args[i + 1].clone().into();
                i += 2;
            }
            "--replay" => {
                opts.replay = Some(args[i + 1].clone().into());
                i += 2;
            }
            _ => {
                opts.extra.push(args[i].clone());
                i += 1;
            }
        }
    }
    // sequential ops: a case that never returns is reported as that case (see util::start_monitor)
    if [
        "meta", "sched", "cands", "instev", "daemon", "build", "ser", "plan", "sendecho", "multirun", "e2e",
    ]
    .contains(&op.as_str())
    {
        util::start_monitor(
            &opts,
            &op,
            std::time::Duration::from_secs(if opts.tier == "thorough" { 300 } else { 120 }),
        );
    }
    // The parser-facing ops run with every tracing call-site ENABLED (output discarded): the field
    // expressions of a `debug!`/`trace!` are evaluated only when some subscriber wants the event, so
    // code that can fail or panic inside a log statement (`%x.unescape()?`, a slice for an excerpt)
    // would otherwise never run here, and would in a deployment started with `-vv`. (`logs` installs its
    // own capturing subscribers; the timing-sensitive ops stay without one.)
    if ["meta", "hello", "reply", "fuzz", "cands", "instev", "sched", "ser", "build"].contains(&op.as_str())
        && !opts.extra.iter().any(|e| e == "no-trace")
    {
        use tracing_subscriber::{fmt, prelude::*, EnvFilter};
        let _ = tracing_subscriber::registry()
            .with(EnvFilter::new("trace"))
            .with(fmt::layer().with_writer(std::io::sink))
            .try_init();
    }
    let run = std::panic::catch_unwind(std::panic::AssertUnwindSafe(|| match op.as_str() {
        "frame" => frame::main(&opts),
        "reply" => reply::main(&opts),
        "hello" => hello::main(&opts),
        "fuzz" => fuzz::main(&opts),
        "meta" => meta::main(&opts),
        "sched" => sched::main(&opts),
        "agentrun" => agentrun::main(&opts),
        "daemon" => daemon::main(&opts),
        "ser" => ser::main(&opts),
        "plan" => plan::main(&opts),
        "build" => build::main(&opts),
        "logs" => logs::main(&opts),
        "evalseq" => evalseq::main(&opts),
        "cands" => cands::main(&opts),
        "instev" => instev::main(&opts),
        "sendecho" => sendecho::main(&opts),
        "multirun" => multirun::main(&opts),
        "e2e" => e2e::main(&opts),
        "deep" => deep::main(&opts),
        _ => {
            eprintln!("unknown op {op}");
            std::process::exit(2);
        }
    }));
    if run.is_err() {
        // the panic message has been printed by the default hook
        if util::report_escaped_panic(&opts, &op) {
            std::process::exit(0);
        }
        std::process::exit(101);
    }
    // worker threads abandoned by a watchdog must not keep the process alive
    std::process::exit(0);
}
