//! Loopback TLS peer for the real `Tls` transport (C06/C07/C20).
use std::{io::BufReader, sync::Arc, time::Duration};

use netconf::transport::{Tls, Transport};
use rustls_pki_types::{CertificateDer, PrivateKeyDer};
use tokio::{io::AsyncWriteExt, net::TcpListener};
use tokio_rustls::{rustls::ServerConfig, TlsAcceptor};

use crate::frame::{observe_dyn, Case, End, Obs};

pub const CERT_DIR: &str = concat!(env!("CARGO_MANIFEST_DIR"), "/certs");

pub fn init() {}

pub fn load_cert(name: &str) -> CertificateDer<'static> {
    let data = std::fs::read(format!("{CERT_DIR}/{name}")).expect("cert file");
    let c = rustls_pemfile::certs(&mut BufReader::new(&data[..]))
        .next()
        .unwrap()
        .unwrap();
    c
}
pub fn load_key(name: &str) -> PrivateKeyDer<'static> {
    let data = std::fs::read(format!("{CERT_DIR}/{name}")).expect("key file");
    let k = rustls_pemfile::private_key(&mut BufReader::new(&data[..]))
        .unwrap()
        .unwrap();
    k
}

pub fn acceptor() -> TlsAcceptor {
    let cfg = ServerConfig::builder()
        .with_no_client_auth()
        .with_single_cert(vec![load_cert("server.pem")], load_key("server.key"))
        .unwrap();
    TlsAcceptor::from(Arc::new(cfg))
}

pub async fn run_case(case: &Case, window: Duration, max: usize) -> Obs {
    let listener = TcpListener::bind("127.0.0.1:0").await.unwrap();
    let port = listener.local_addr().unwrap().port();
    let acc = acceptor();
    let chunks = case.chunks.clone();
    let end = case.end.clone();
    let server = tokio::spawn(async move {
        let (sock, _) = listener.accept().await.unwrap();
        let mut tls = match acc.accept(sock).await {
            Ok(t) => t,
            Err(_) => return,
        };
        for c in chunks {
            if tls.write_all(&c).await.is_err() || tls.flush().await.is_err() {
                return;
            }
            tokio::time::sleep(Duration::from_millis(crate::frame::gap_ms())).await;
        }
        match end {
            End::Quiet => {
                tokio::time::sleep(Duration::from_secs(3600)).await;
            }
            End::Eof | End::EofHold => {
                let _ = tls.shutdown().await; // close_notify + FIN
            }
            End::Abort => {
                tokio::time::sleep(Duration::from_millis(30)).await;
                let _ = tls.get_ref().0.set_linger(Some(Duration::ZERO)); // RST, no close_notify
                drop(tls);
            }
        }
    });
    let t = Tls::verif_connect(
        ("127.0.0.1", port),
        "localhost",
        load_cert("ca.pem"),
        load_cert("client.pem"),
        load_key("client.key"),
    )
    .await;
    let obs = match t {
        Ok(t) => {
            let (_tx, mut rx) = t.split();
            observe_dyn(&mut rx, window, max).await
        }
        Err(e) => Obs {
            msgs: vec![],
            end: "err",
            again: "-",
            note: format!("connect: {e}"),
        },
    };
    server.abort();
    obs
}
