//! C05 / C18 (and the session part of C07/C14): the real `Session` over the in-memory transport,
//! with `rpc()` and every reply future polled BY HAND (no-op waker) exactly as a schedule says.
//! The same schedule is run by the Lean session model.
use std::{
    future::Future,
    pin::Pin,
    task::{Context, Poll},
};

use netconf::{
    message::rpc::operation::{Builder, Commit, Get},
    Session,
};

use crate::{memtransport as mt, util::*};

type ReplyFut = Pin<Box<dyn Future<Output = Result<String, ()>>>>;
type RpcFut = Pin<Box<dyn Future<Output = Result<ReplyFut, ()>>>>;

async fn do_rpc(s: &'static mut Session<mt::MemTransport>, ok: bool) -> Result<ReplyFut, ()> {
    if ok {
        let fut = s.rpc::<Get, _>(|b| b.finish()).await.map_err(|_| ())?;
        Ok(Box::pin(async move {
            fut.await.map(|o| o.to_string()).map_err(|_| ())
        }))
    } else {
        // the server did not advertise :candidate → Operation::new fails, nothing is sent
        let fut = s.rpc::<Commit, _>(|b| b.finish()).await.map_err(|_| ())?;
        Ok(Box::pin(async move {
            fut.await.map(|()| String::new()).map_err(|_| ())
        }))
    }
}

fn poll_once<T>(f: &mut Pin<Box<dyn Future<Output = T>>>) -> Poll<T> {
    let w = futures::task::noop_waker();
    let mut cx = Context::from_waker(&w);
    f.as_mut().poll(&mut cx)
}

enum Status {
    Live(ReplyFut),
    Ok(String),
    Err,
    Dropped,
}

pub fn message(id: Option<u64>, tag: u64, p2: bool) -> String {
    let idattr = id
        .map(|i| format!(" message-id=\"{i}\""))
        .unwrap_or_default();
    let body = if p2 {
        format!("<data>{tag}</data>")
    } else {
        format!("<junk>{tag}</junk>")
    };
    format!(
        "<rpc-reply xmlns=\"{}\"{idattr}>{body}</rpc-reply>]]>]]>",
        mt::BASE_NS
    )
}

/// run one schedule on the real code; returns the canonical observation
pub fn run_schedule(acts: &[String]) -> String {
    let (t, peer) = mt::new();
    peer.deliver(mt::hello(&[mt::CAP_BASE10], 4));
    let mut est: Pin<Box<dyn Future<Output = Result<Session<mt::MemTransport>, netconf::Error>>>> =
        Box::pin(Session::verif_new(t));
    let session = match poll_once(&mut est) {
        Poll::Ready(Ok(s)) => s,
        _ => return "session-failed".into(),
    };
    drop(est);
    let sptr: *mut Session<mt::MemTransport> = Box::into_raw(Box::new(session));
    let mut futs: Vec<Status> = vec![];
    // (the rpc() call in progress, index of the message it writes, is it a ghost send)
    let mut rpc: Option<(RpcFut, usize)> = None;
    // wire index of the request each future belongs to; wire indices of requests without a future
    let fut_msg: std::cell::RefCell<Vec<usize>> = Default::default();
    let ghost_msg: std::cell::RefCell<Vec<usize>> = Default::default();
    let peer2 = peer.clone();
    let on_rpc_done = |r: Result<ReplyFut, ()>, start: usize, futs: &mut Vec<Status>| match r {
        Ok(f) => {
            futs.push(Status::Live(f));
            fut_msg.borrow_mut().push(start);
        }
        Err(()) => {
            // the call failed; did its request reach the wire all the same?
            if peer2.sent_count() > start {
                ghost_msg.borrow_mut().push(start);
            }
        }
    };
    let poll_fut = |futs: &mut Vec<Status>, i: usize| {
        if let Some(Status::Live(f)) = futs.get_mut(i) {
            if let Poll::Ready(r) = poll_once(f) {
                futs[i] = match r {
                    Ok(v) => Status::Ok(v),
                    Err(()) => Status::Err,
                };
            }
        }
    };
    for a in acts {
        if a == "s1" || a == "s0" || a == "s2" {
            if rpc.is_some() {
                continue; // `&mut self`: not expressible
            }
            if a == "s2" {
                // the request reaches the server, then the send reports an error
                peer.fail_next_send();
            }
            // SAFETY: at most one `rpc()` future exists at a time (checked above); reply futures do
            // not borrow the session (they hold Arcs)
            let s: &'static mut Session<mt::MemTransport> = unsafe { &mut *sptr };
            let start = peer.sent_count();
            let mut f: RpcFut = Box::pin(do_rpc(s, a != "s0"));
            match poll_once(&mut f) {
                Poll::Ready(r) => on_rpc_done(r, start, &mut futs),
                Poll::Pending => rpc = Some((f, start)),
            }
        } else if a == "g0" {
            peer.gate(false);
        } else if a == "g1" {
            peer.gate(true);
            if let Some((mut f, start)) = rpc.take() {
                match poll_once(&mut f) {
                    Poll::Ready(r) => on_rpc_done(r, start, &mut futs),
                    Poll::Pending => rpc = Some((f, start)),
                }
            }
        } else if a == "c" {
            peer.close();
            if let Some((mut f, start)) = rpc.take() {
                match poll_once(&mut f) {
                    Poll::Ready(r) => on_rpc_done(r, start, &mut futs),
                    Poll::Pending => rpc = Some((f, start)),
                }
            }
        } else if let Some(i) = a.strip_prefix('p') {
            poll_fut(&mut futs, i.parse().unwrap());
        } else if let Some(i) = a.strip_prefix('x') {
            let i: usize = i.parse().unwrap();
            if let Some(Status::Live(_)) = futs.get(i) {
                futs[i] = Status::Dropped; // drops the boxed future
            }
        } else if let Some(d) = a.strip_prefix('d').or_else(|| a.strip_prefix('D')) {
            // `D…`: the same reply, padded with a comment to more than 1 MiB
            let big = a.starts_with('D');
            let p: Vec<&str> = d.split('/').collect();
            let id = if p[0] == "n" {
                None
            } else {
                Some(p[0].parse().unwrap())
            };
            let m = message(id, p[1].parse().unwrap(), p[2] == "1");
            let m = if big {
                let at = m.find('>').unwrap() + 1;
                format!("{}<!--{}-->{}", &m[..at], "a".repeat(1_100_000), &m[at..])
            } else {
                m
            };
            peer.deliver(m);
        } else if let Some(n) = a.strip_prefix('r') {
            for _ in 0..n.parse::<usize>().unwrap() {
                // a fair executor also polls a pending `rpc()` call
                if let Some((mut f, start)) = rpc.take() {
                    match poll_once(&mut f) {
                        Poll::Ready(r) => on_rpc_done(r, start, &mut futs),
                        Poll::Pending => rpc = Some((f, start)),
                    }
                }
                for i in 0..futs.len() {
                    poll_fut(&mut futs, i);
                }
            }
        }
    }
    let wire: Vec<String> = peer.sent().iter().map(|m| mt::message_id_of(m).unwrap_or("?".into())).collect();
    // requests that reached the server although `rpc()` returned an error are not "sent" for the client
    let ghosts = ghost_msg.borrow().clone();
    let sent: Vec<String> = wire.iter().enumerate().skip(1).filter(|(k, _)| !ghosts.contains(k)).map(|(_, m)| m.clone()).collect();
    // every message-id on the wire — ghosts included — must be new on this session
    let mut all_ids: Vec<&String> = wire.iter().skip(1).collect();
    all_ids.sort();
    let reused = all_ids.windows(2).any(|w| w[0] == w[1]);
    let fut_ids = fut_msg.borrow().clone();
    let shown: Vec<String> = futs
        .iter()
        .enumerate()
        .map(|(i, st)| {
            let id = fut_ids.get(i).and_then(|k| wire.get(*k)).cloned().unwrap_or("?".into());
            let s = match st {
                Status::Live(_) => "pending".to_string(),
                Status::Ok(v) => format!("ok{v}"),
                Status::Err => "err".to_string(),
                Status::Dropped => "dropped".to_string(),
            };
            format!("{i}:{id}:{s}")
        })
        .collect();
    drop(rpc);
    drop(futs);
    // SAFETY: all futures borrowing or sharing the session are gone
    unsafe { drop(Box::from_raw(sptr)) };
    format!(
        "sent={} futs={}{}",
        list(&sent),
        if shown.is_empty() {
            ".".into()
        } else {
            shown.join(";")
        },
        if reused { " message-id-reused" } else { "" }
    )
}

/// shadow bookkeeping so that generated schedules are expressible (no send while `rpc()` is blocked …)
#[derive(Clone, Default)]
struct Shadow {
    ids: u64,       // message-ids consumed
    futs: Vec<u64>, // id per future
    blocked: Option<u64>,
    gate_open: bool,
    closed: bool,
    tag: u64,
    /// ids of requests that reached the server although their send reported an error
    ghost: Vec<u64>,
}

fn gen_random(rng: &mut Rng, max_len: usize, clean: bool) -> Vec<String> {
    let mut sh = Shadow {
        gate_open: true,
        ..Default::default()
    };
    let mut acts = vec![];
    let mut delivered: Vec<u64> = vec![];
    let len = 3 + rng.below(max_len);
    for _ in 0..len {
        let choice = rng.below(100);
        if choice < 22 && sh.blocked.is_none() && sh.futs.len() < 5 {
            let ok = clean || rng.chance(9, 10);
            // a send that fails AFTER the request reached the server (only with the gate open and the
            // transport up: otherwise nothing is written at all)
            let lost = !clean && ok && sh.gate_open && !sh.closed && rng.chance(1, 8);
            sh.ids += 1;
            if lost {
                sh.ghost.push(sh.ids);
            } else if ok && !sh.closed {
                if sh.gate_open {
                    sh.futs.push(sh.ids);
                } else {
                    sh.blocked = Some(sh.ids);
                }
            }
            acts.push(if lost { "s2" } else if ok { "s1" } else { "s0" }.to_string());
        } else if choice < 50 && !sh.futs.is_empty() {
            acts.push(format!("p{}", rng.below(sh.futs.len())));
        } else if choice < 75 && (sh.ids > 0) {
            sh.tag += 1;
            let tag = 100 + sh.tag;
            if clean || rng.chance(4, 5) {
                // a reply for an issued id that has not been answered yet
                let cand: Vec<u64> = (1..=sh.ids)
                    .filter(|i| {
                        !delivered.contains(i) && (sh.futs.contains(i) || sh.blocked == Some(*i))
                    })
                    .collect();
                if let Some(&id) = cand.get(rng.below(cand.len().max(1))) {
                    delivered.push(id);
                    acts.push(format!("d{id}/{tag}/1"));
                }
            } else {
                match rng.below(if sh.ghost.is_empty() { 4 } else { 7 }) {
                    // the server answers a request whose send reported an error
                    4..=6 => acts.push(format!("d{}/{tag}/1", rng.pick(&sh.ghost))),
                    0 => acts.push(format!("dn/{tag}/1")),
                    1 => acts.push(format!("d{}/{tag}/1", 90 + rng.below(5))),
                    2 => acts.push(format!("d{}/{tag}/0", 1 + rng.below(sh.ids as usize))),
                    _ => acts.push(format!("d{}/{tag}/1", 1 + rng.below(sh.ids as usize))),
                }
            }
        } else if choice < 83 && !sh.futs.is_empty() && !clean {
            acts.push(format!("x{}", rng.below(sh.futs.len())));
        } else if choice < 92 {
            if sh.gate_open {
                sh.gate_open = false;
                acts.push("g0".into());
            } else {
                sh.gate_open = true;
                if let Some(id) = sh.blocked.take() {
                    if !sh.closed {
                        sh.futs.push(id);
                    }
                }
                acts.push("g1".into());
            }
        } else if choice < 94 && !clean {
            sh.closed = true;
            sh.blocked = None;
            acts.push("c".into());
        }
    }
    if !sh.gate_open {
        if let Some(id) = sh.blocked.take() {
            if !sh.closed {
                sh.futs.push(id);
            }
        }
        acts.push("g1".into());
    }
    acts.push("r12".into());
    acts
}

/// the drop windows of C18: drop a future at each suspension point, with the others surviving
fn gen_drop_windows() -> Vec<Vec<String>> {
    let s = |v: &[&str]| v.iter().map(|x| x.to_string()).collect::<Vec<_>>();
    vec![
        // never polled
        s(&["s1", "s1", "x0", "d1/11/1", "d2/22/1", "r8"]),
        // waiting for the receive lock
        s(&[
            "s1", "s1", "s1", "p0", "p1", "x1", "d2/22/1", "d1/11/1", "d3/33/1", "r8",
        ]),
        // handed the lock but not run yet
        s(&[
            "s1", "s1", "s1", "p0", "p1", "p2", "d2/22/1", "p0", "x1", "d1/11/1", "d3/33/1", "r8",
        ]),
        // reading from the transport
        s(&["s1", "s1", "p0", "x0", "d1/11/1", "d2/22/1", "r8"]),
        s(&["s1", "s1", "p0", "p1", "x0", "d2/22/1", "d1/11/1", "r8"]),
        // holding another caller's reply while `rpc()` is blocked in the transport send
        s(&[
            "s1", "s1", "p0", "g0", "s1", "d2/22/1", "p0", "x0", "g1", "d3/33/1", "r8",
        ]),
        // waiting for the requests lock before looking at its own slot
        s(&[
            "s1", "s1", "g0", "s1", "p0", "x0", "g1", "d2/22/1", "d3/33/1", "r8",
        ]),
        // session stays usable: new request after drops
        s(&["s1", "p0", "x0", "s1", "d2/22/1", "r8"]),
        // a send that fails after the request reached the server; the server answers it all the same
        s(&["s1", "s2", "s1", "d2/22/1", "d1/11/1", "d3/33/1", "r8"]),
        s(&["s1", "s2", "s1", "p0", "p1", "d2/22/1", "d3/33/1", "d1/11/1", "r8"]),
        s(&["s2", "s1", "d1/11/1", "d2/22/1", "r8"]),
        s(&["s1", "s2", "s2", "s1", "d3/33/1", "d4/44/1", "d2/22/1", "d1/11/1", "r8"]),
        s(&["s1", "s1", "p1", "x1", "s1", "d1/11/1", "d3/33/1", "r8"]),
        // the reader is dropped right after it took ANOTHER request's reply off the transport
        s(&["s1", "s1", "d1/11/1", "p1", "x1", "d2/22/1", "r8"]),
        s(&["s1", "s1", "s1", "d1/11/1", "p2", "x2", "d2/22/1", "d3/33/1", "r8"]),
    ]
}

pub fn main(opts: &Opts) {
    let mut rng = Rng::new(opts.seed);
    let mut sink = Sink::new();
    let cfg = if opts.extra.iter().any(|e| e == "pinned") {
        "pinned"
    } else {
        "fixed"
    };
    let only_drop = opts.extra.iter().any(|e| e == "only-drop");
    let only_nodrop = opts.extra.iter().any(|e| e == "only-nodrop");
    let mut scheds: Vec<Vec<String>> = vec![];
    if let Some(p) = &opts.replay {
        for l in std::fs::read_to_string(p).unwrap().lines() {
            if let Some(d) = l.strip_prefix("case\t").filter(|d| !d.starts_with("par;")) {
                scheds.push(
                    d.split('\t')
                        .next()
                        .unwrap()
                        .split(',')
                        .map(|s| s.to_string())
                        .collect(),
                );
            }
        }
    } else {
        scheds.extend(gen_drop_windows());
        // … and the same windows with replies of more than 1 MiB (size-dependent suspension points)
        for w in gen_drop_windows() {
            scheds.push(w.iter().map(|a| if a.starts_with('d') { format!("D{}", &a[1..]) } else { a.clone() }).collect());
        }
        // long histories: n completed request/reply cycles on one session, then a request that is
        // abandoned unpolled while its reply is still on the way, then a new request (whatever
        // bookkeeping the session keeps per request has grown to n entries by then)
        for n in [64usize, 255, 256, 257, 300] {
            for variant in 0..2 {
                let mut a: Vec<String> = vec![];
                for i in 0..n {
                    a.push("s1".into());
                    a.push(format!("d{}/{}/1", i + 1, 1000 + i));
                    a.push(format!("p{i}"));
                }
                a.push("s1".into()); // id n+1, future n: abandoned
                if variant == 1 {
                    a.push(format!("p{n}")); // … while it is the reader
                }
                a.push(format!("x{n}"));
                a.push("s1".into()); // id n+2, future n+1
                a.push(format!("d{}/7001/1", n + 1));
                a.push(format!("d{}/7002/1", n + 2));
                // the specification judges liveness only after (deliveries + futures) fair rounds
                a.push(format!("r{}", 2 * n + 8));
                scheds.push(a);
            }
        }
        // C07: the peer goes away with 0..3 requests outstanding, futures at every suspension point
        for n in 0..=3usize {
            for polled in 0..=n {
                for delivered in 0..=1usize {
                    let mut a: Vec<String> = (0..n).map(|_| "s1".to_string()).collect();
                    for i in 0..polled {
                        a.push(format!("p{i}"));
                    }
                    if delivered == 1 && n > 1 {
                        a.push(format!("d{n}/{}/1", 40 + n));
                    }
                    a.push("c".into());
                    a.push("s1".into()); // a later operation must fail, not hang
                    a.push(format!("r{}", 2 * n + 3));
                    scheds.push(a);
                }
            }
        }
        let n = if opts.thorough() { 200_000 } else { 6_000 };
        for i in 0..n {
            scheds.push(gen_random(
                &mut rng,
                if i % 3 == 0 { 8 } else { 18 },
                i % 2 == 0,
            ));
        }
        // all permutations of reply arrival for 3 and 4 pipelined requests, awaited in creation order
        for n in [3usize, 4] {
            let mut perm: Vec<usize> = (1..=n).collect();
            let mut all = vec![];
            heap(&mut perm, n, &mut all);
            for p in all {
                let mut a: Vec<String> = (0..n).map(|_| "s1".to_string()).collect();
                for (k, id) in p.iter().enumerate() {
                    a.push(format!("d{id}/{}/1", 10 * id + k));
                }
                a.push(format!("r{}", 2 * n + 1));
                scheds.push(a);
            }
        }
    }
    if opts.extra.iter().any(|e| e == "only-close") {
        scheds.retain(|s| s.iter().any(|a| a == "c"));
    }
    if only_drop {
        scheds.retain(|s| s.iter().any(|a| a.starts_with('x')));
    }
    if only_nodrop {
        scheds.retain(|s| !s.iter().any(|a| a.starts_with('x')));
    }
    scheds.sort();
    scheds.dedup();
    for s in &scheds {
        let case = s.join(",");
        progress(&case);
        let obs = run_schedule(s);
        progress_idle();
        let obs = match obs.strip_suffix(" message-id-reused") {
            Some(o) => {
                sink.direct(&case, "violation message-id-reused".into());
                o.to_string()
            }
            None => obs,
        };
        sink.corr(&case, format!("sess run {cfg} {case}"), obs.clone());
        sink.spec(&case, format!("sess spec {case} {obs}"));
        sink.count(&format!("len.{}", (s.len() / 4) * 4));
        if s.iter().any(|a| a.starts_with('x')) {
            sink.count("with_drop");
        }
        if s.iter().any(|a| a == "g0") {
            sink.count("with_gate");
        }
        if s.iter().any(|a| a == "c") {
            sink.count("with_close");
        }
        for f in obs.split(" futs=").nth(1).unwrap_or("").split(';') {
            if let Some(st) = f.split(':').nth(2) {
                sink.count(&format!("status.{}", st.trim_end_matches(char::is_numeric)));
            }
        }
        if sink.samples.len() < 6 && s.len() > 6 {
            sink.sample(format!("{case} -> {obs}"));
        }
    }
    // ---- session establishment when only the client's write direction is gone -----------------------
    // The hello exchange sends and receives concurrently. A peer that no longer reads (its input is
    // closed, the write fails at once) but whose output stays open and silent must make the
    // establishment fail, not wait for a hello that will never come.
    if opts.replay.is_none() && (opts.extra.iter().any(|e| e == "only-close") || (!only_drop && !only_nodrop)) {
        // (a) in-memory transport: the first send reports an error, nothing is ever delivered
        {
            let (t, peer) = mt::new();
            peer.fail_next_send();
            let mut est: Pin<Box<dyn Future<Output = Result<Session<mt::MemTransport>, netconf::Error>>>> = Box::pin(Session::verif_new(t));
            let mut done = false;
            for _ in 0..8 {
                if let Poll::Ready(r) = poll_once(&mut est) {
                    done = true;
                    sink.direct("hello;send-fails;peer-silent;mem", if r.is_err() { "ok".into() } else { "violation session-established-without-hello".into() });
                    break;
                }
            }
            if !done {
                sink.direct("hello;send-fails;peer-silent;mem", "violation establishment-pending-after-send-failed".into());
            }
        }
        // (the same with the real child-process transport is a race between the client's write and the
        // child closing its input: not scripted)
    }
    // ---- true parallelism -------------------------------------------------------------------------
    // The hand-polled schedules interleave at `.await` points only. Two reply futures polled on two OS
    // threads at once can also interleave between two statements with no `.await` in between (e.g. a
    // lock released before the reply is parked). Each round: k requests, one future awaited on the
    // calling thread, the others in spawned tasks of a multi-thread runtime, replies in a chosen order;
    // a responsive server ⇒ every caller gets its own reply.
    let replay_par = opts
        .replay
        .as_ref()
        .map(|p| std::fs::read_to_string(p).unwrap_or_default().contains("case\tpar;"))
        .unwrap_or(false);
    if replay_par || (opts.replay.is_none() && !only_drop && !opts.extra.iter().any(|e| e == "only-close")) {
        let rounds = if opts.thorough() { 1500 } else { 150 };
        let rt = tokio::runtime::Builder::new_multi_thread().worker_threads(4).enable_all().build().unwrap();
        let mut bad = 0;
        for r in 0..rounds {
            let k = 2 + r % 2;
            let main_idx = r % k; // which request is awaited on the calling thread
            let rev = (r / 6) % 2 == 1; // replies in reverse request order
            let big = (r / 12) % 4 == 3; // now and then a large first reply (longer parse)
            let case = format!("par;k={k};main={main_idx};rev={};big={};round={r}", rev as u8, big as u8);
            progress(&case);
            let out: Result<Vec<String>, String> = rt.block_on(async {
                let (t, peer) = mt::new();
                peer.deliver(mt::hello(&[mt::CAP_BASE10], 4));
                let mut s = Session::verif_new(t).await.map_err(|e| format!("session: {e}"))?;
                let mut futs = vec![];
                for _ in 0..k {
                    futs.push(s.rpc::<Get, _>(|b| b.finish()).await.map_err(|e| format!("rpc: {e}"))?);
                }
                let ids: Vec<String> = peer.sent()[1..].iter().map(|m| mt::message_id_of(m).unwrap_or_default()).collect();
                let mut main_fut = None;
                let mut handles = vec![];
                for (i, f) in futs.into_iter().enumerate() {
                    if i == main_idx {
                        main_fut = Some(f);
                    } else {
                        handles.push((i, tokio::spawn(async move { f.await.map(|o| o.to_string()).map_err(|e| e.to_string()) })));
                    }
                }
                // let the spawned futures start (one of them becomes the reader)
                tokio::time::sleep(std::time::Duration::from_millis(2)).await;
                let mut order: Vec<usize> = (0..k).collect();
                if rev {
                    order.reverse();
                }
                for (n, &i) in order.iter().enumerate() {
                    let pad = if big && n == 0 { format!("<!--{}-->", "a".repeat(300_000)) } else { String::new() };
                    peer.deliver(format!(
                        "<rpc-reply xmlns=\"{}\" message-id=\"{}\">{pad}<data>{}</data></rpc-reply>]]>]]>",
                        mt::BASE_NS,
                        ids[i],
                        100 + i
                    ));
                }
                let mut res: Vec<String> = vec![String::new(); k];
                let limit = std::time::Duration::from_secs(5);
                res[main_idx] = match tokio::time::timeout(limit, main_fut.unwrap()).await {
                    Err(_) => "pending".into(),
                    Ok(Ok(v)) => format!("ok{v}"),
                    Ok(Err(e)) => format!("err:{e}"),
                };
                for (i, h) in handles {
                    res[i] = match tokio::time::timeout(limit, h).await {
                        Err(_) => "pending".into(),
                        Ok(Ok(Ok(v))) => format!("ok{v}"),
                        Ok(Ok(Err(e))) => format!("err:{e}"),
                        Ok(Err(_)) => "panic".into(),
                    };
                }
                Ok(res)
            });
            progress_idle();
            let verdict = match &out {
                Err(e) => format!("violation harness-{}", e.replace(' ', "-")),
                Ok(res) => {
                    let want: Vec<String> = (0..k).map(|i| format!("ok{}", 100 + i)).collect();
                    if *res == want {
                        "ok".to_string()
                    } else if res.iter().any(|x| x == "pending") {
                        "violation request-not-completed".to_string()
                    } else {
                        "violation foreign-or-unknown-reply-delivered".to_string()
                    }
                }
            };
            if verdict != "ok" {
                bad += 1;
            }
            sink.direct(&case, verdict);
            sink.count("parallel.rounds");
            if bad >= 3 {
                break; // every failing round costs its time-outs
            }
        }
    }
    // Inside a tokio runtime a task has a cooperative budget (128 operations per poll): once it is used
    // up, tokio's own primitives (`Mutex::lock`, channel receive, …) return Pending although they are
    // ready. The hand-polled schedules above run outside any runtime and never see these extra
    // suspension points. Here: n pipelined requests, the replies to all but the last are already on the
    // wire, the future of the LAST request is polled exactly once inside a task (what
    // `FutureExt::now_or_never`, a `select!` that loses, or an expiring `timeout` do) and dropped if it is
    // pending; then every other request must still complete with its own reply, and so must a new one.
    let replay_coop = opts
        .replay
        .as_ref()
        .map(|p| std::fs::read_to_string(p).unwrap_or_default().contains("case\tcoop;"))
        .unwrap_or(false);
    if replay_coop || (opts.replay.is_none() && !opts.extra.iter().any(|e| e == "only-close")) {
        let ns: &[usize] = if opts.thorough() { &[2, 10, 40, 50, 64, 100, 130, 300] } else { &[2, 10, 50, 100, 300] };
        for &n in ns {
            for polls in [1usize, 2, 3] {
                let case = format!("coop;n={n};polls={polls}");
                progress(&case);
                let rt = tokio::runtime::Builder::new_current_thread().enable_all().build().unwrap();
                let out: Result<(Vec<String>, String), String> = rt.block_on(async {
                    let (t, peer) = mt::new();
                    peer.deliver(mt::hello(&[mt::CAP_BASE10], 4));
                    let mut s = Session::verif_new(t).await.map_err(|e| format!("session: {e}"))?;
                    let mut futs = vec![];
                    for _ in 0..n {
                        futs.push(Box::pin(s.rpc::<Get, _>(|b| b.finish()).await.map_err(|e| format!("rpc: {e}"))?));
                    }
                    let ids: Vec<String> = peer.sent()[1..].iter().map(|m| mt::message_id_of(m).unwrap_or_default()).collect();
                    let reply = |i: usize| {
                        format!(
                            "<rpc-reply xmlns=\"{}\" message-id=\"{}\"><data>{}</data></rpc-reply>]]>]]>",
                            mt::BASE_NS,
                            ids[i],
                            100 + i
                        )
                    };
                    for i in 0..n - 1 {
                        peer.deliver(reply(i));
                    }
                    // a fresh task, so that the budget is the full one
                    tokio::task::yield_now().await;
                    let mut last = futs.pop().unwrap();
                    let mut last_res = "dropped".to_string();
                    for _ in 0..polls {
                        let r = std::future::poll_fn(|cx| std::task::Poll::Ready(last.as_mut().poll(cx))).await;
                        if let std::task::Poll::Ready(r) = r {
                            last_res = match r {
                                Ok(v) => format!("ok{v}"),
                                Err(e) => format!("err:{e}"),
                            };
                            break;
                        }
                        tokio::task::yield_now().await;
                    }
                    drop(last);
                    peer.deliver(reply(n - 1));
                    let limit = std::time::Duration::from_secs(3);
                    let mut res = vec![];
                    let mut pending = 0;
                    for f in futs {
                        if pending >= 2 {
                            res.push("skipped".to_string());
                            continue;
                        }
                        res.push(match tokio::time::timeout(limit, f).await {
                            Err(_) => {
                                pending += 1;
                                "pending".into()
                            }
                            Ok(Ok(v)) => format!("ok{v}"),
                            Ok(Err(e)) => format!("err:{e}"),
                        });
                    }
                    Ok((res, last_res))
                });
                progress_idle();
                let verdict = match &out {
                    Err(e) => format!("violation harness-{}", e.replace(' ', "-")),
                    Ok((res, _)) => {
                        let want: Vec<String> = (0..n - 1).map(|i| format!("ok{}", 100 + i)).collect();
                        if *res == want {
                            "ok".to_string()
                        } else if let Some(i) = res.iter().position(|x| x == "pending") {
                            format!("violation request-{i}-of-{n}-not-completed-after-abandoned-reader")
                        } else {
                            "violation foreign-or-unknown-reply-delivered".to_string()
                        }
                    }
                };
                sink.direct(&case, verdict);
                sink.count("coop.cases");
            }
        }
    }
    // A long-lived session: thousands of requests on ONE session, and throughout its life the pattern
    // "X and Y outstanding, Y is awaited first (its future parks X's reply), a further request Z is sent,
    // then X is awaited". Whatever bookkeeping a session does as it ages (pruning, compaction, counters
    // that wrap) must not touch a reply that is parked for a caller who has not collected it yet.
    let replay_long = opts
        .replay
        .as_ref()
        .map(|p| std::fs::read_to_string(p).unwrap_or_default().contains("case\tlongsession;"))
        .unwrap_or(false);
    if replay_long || (opts.replay.is_none() && !only_drop && !opts.extra.iter().any(|e| e == "only-close")) {
        let rounds = if opts.thorough() { 12000 } else { 1500 };
        let case = format!("longsession;rounds={rounds}");
        progress(&case);
        let rt = tokio::runtime::Builder::new_current_thread().enable_all().build().unwrap();
        let out: Result<(), String> = rt.block_on(async {
            let (t, peer) = mt::new();
            peer.deliver(mt::hello(&[mt::CAP_BASE10], 4));
            let mut s = Session::verif_new(t).await.map_err(|e| format!("session: {e}"))?;
            let mut nsent = 1usize; // the client's hello
            let mut val = 0usize;
            let reply = |id: &str, v: usize| {
                format!(
                    "<rpc-reply xmlns=\"{}\" message-id=\"{id}\"><data>{v}</data></rpc-reply>]]>]]>",
                    mt::BASE_NS
                )
            };
            let limit = std::time::Duration::from_secs(3);
            // a rolling pipeline: at EVERY registration of a request the reply to an earlier request
            // (`old`) is parked for a caller that has not collected it yet
            macro_rules! send {
                () => {{
                    let f = s.rpc::<Get, _>(|b| b.finish()).await.map_err(|e| format!("request {nsent}: rpc: {e}"))?;
                    let id = mt::message_id_of(&peer.sent_at(nsent)).unwrap_or_default();
                    nsent += 1;
                    val += 1;
                    let f: Pin<Box<dyn Future<Output = Result<String, String>>>> =
                        Box::pin(async move { f.await.map(|v| v.to_string()).map_err(|e| e.to_string()) });
                    (f, id, val, nsent - 1)
                }};
            }
            macro_rules! collect {
                ($f:expr, $v:expr, $n:expr, $what:expr) => {{
                    let r = tokio::time::timeout(limit, $f).await.map_err(|_| format!("request {} ({}) pending", $n, $what))?;
                    if r.as_ref().ok() != Some(&$v.to_string()) {
                        return Err(format!(
                            "request {} of the session ({}; {} sent by now): {}: {:?}",
                            $n,
                            $what,
                            nsent - 1,
                            if $what == "parked" { "the parked reply was not delivered" } else { "wrong result" },
                            r
                        ));
                    }
                }};
            }
            let mut lrng = Rng::new(opts.seed ^ 0x10f5);
            let (fo, ido, vo, no) = send!();
            let (fy, idy, vy, ny) = send!();
            peer.deliver(reply(&ido, vo));
            peer.deliver(reply(&idy, vy));
            collect!(fy, vy, ny, "reader");
            let (mut old, mut vold, mut nold) = (fo, vo, no);
            for _r in 0..rounds {
                for _ in 0..lrng.below(7) {
                    let (fz, idz, vz, nz) = send!();
                    peer.deliver(reply(&idz, vz));
                    collect!(fz, vz, nz, "filler");
                }
                let (fc, idc, vc, nc) = send!();
                let (fd, idd, vd, nd) = send!();
                peer.deliver(reply(&idc, vc));
                peer.deliver(reply(&idd, vd));
                collect!(fd, vd, nd, "reader");
                collect!(old, vold, nold, "parked");
                (old, vold, nold) = (fc, vc, nc);
            }
            collect!(old, vold, nold, "parked");
            SENT_TOTAL.store(nsent as u64, std::sync::atomic::Ordering::SeqCst);
            Ok(())
        });
        progress_idle();
        if let Err(e) = &out {
            sink.sample(format!("{case} -> {e}"));
        }
        sink.direct(
            &case,
            match &out {
                Ok(()) => "ok".to_string(),
                Err(e) if e.contains("parked reply") => "violation parked-reply-lost-in-long-session".to_string(),
                Err(e) if e.contains("rpc:") => "violation request-refused-in-long-session".to_string(),
                Err(e) if e.contains("pending") => "violation request-not-completed-in-long-session".to_string(),
                Err(_) => "violation wrong-reply-in-long-session".to_string(),
            },
        );
        sink.add("longsession.requests", SENT_TOTAL.load(std::sync::atomic::Ordering::SeqCst));
    }
    // Eager wake-ups: an executor that polls a future INSIDE the `wake()` call that makes it runnable
    // (on the waking thread, nested in whatever poll caused the wake-up). That is the schedule a second
    // OS thread produces when it happens to run at exactly the moment a lock is released or a message is
    // delivered — a window of nanoseconds that the `par` rounds hit once in thousands of rounds — made
    // deterministic. k pipelined requests, every permutation of reply arrival (k ≤ 3), then the peer
    // closes: every request whose reply was delivered must resolve to that reply.
    let replay_eager = opts
        .replay
        .as_ref()
        .map(|p| std::fs::read_to_string(p).unwrap_or_default().contains("case\teager;"))
        .unwrap_or(false);
    if replay_eager || (opts.replay.is_none() && !opts.extra.iter().any(|e| e == "only-close")) {
        for k in 2..=3usize {
            let mut perms = vec![];
            heap(&mut (0..k).collect(), k, &mut perms);
            for perm in perms {
                for answered in 1..=k {
                    let case = format!(
                        "eager;k={k};order={};answered={answered}",
                        perm.iter().map(|i| i.to_string()).collect::<Vec<_>>().join("")
                    );
                    progress(&case);
                    let res = eager::run(k, &perm, answered);
                    progress_idle();
                    let verdict = match res {
                        Err(e) => format!("violation harness-{}", e.replace(' ', "-")),
                        Ok(outs) => {
                            // the first `answered` requests of `perm` got their reply before the close
                            let mut bad = None;
                            for (n, &i) in perm.iter().enumerate() {
                                let want_ok = n < answered;
                                let o = &outs[i];
                                if want_ok && *o != format!("ok{}", 100 + i) {
                                    bad = Some(format!("violation answered-request-{i}-resolves-to-{}", o.split(':').next().unwrap_or("")));
                                    break;
                                }
                                if !want_ok && o.starts_with("ok") {
                                    bad = Some(format!("violation unanswered-request-{i}-resolves-to-a-value"));
                                    break;
                                }
                            }
                            bad.unwrap_or_else(|| "ok".to_string())
                        }
                    };
                    sink.direct(&case, verdict);
                    sink.count("eager.cases");
                }
            }
        }
    }
    sink.write(opts, "sched");
}

mod eager {
    use super::*;
    use std::{
        sync::{
            atomic::{AtomicBool, Ordering},
            Arc, Mutex,
        },
        task::{Context, Poll, Wake, Waker},
    };

    type Fut = Pin<Box<dyn Future<Output = Result<String, String>> + Send>>;

    struct Slot {
        fut: Mutex<Option<Fut>>,
        out: Mutex<Option<String>>,
        polling: AtomicBool,
        again: AtomicBool,
    }

    struct W {
        slots: Arc<Vec<Slot>>,
        idx: usize,
    }

    impl Wake for W {
        fn wake(self: Arc<Self>) {
            poll_slot(&self.slots, self.idx);
        }
    }

    fn poll_slot(slots: &Arc<Vec<Slot>>, idx: usize) {
        let s = &slots[idx];
        if s.polling.swap(true, Ordering::SeqCst) {
            // woken while it is being polled further up the stack: poll once more afterwards
            s.again.store(true, Ordering::SeqCst);
            return;
        }
        loop {
            let f = s.fut.lock().unwrap().take();
            if let Some(mut f) = f {
                let waker = Waker::from(Arc::new(W { slots: slots.clone(), idx }));
                let mut cx = Context::from_waker(&waker);
                match f.as_mut().poll(&mut cx) {
                    Poll::Ready(r) => {
                        *s.out.lock().unwrap() = Some(match r {
                            Ok(v) => format!("ok{v}"),
                            Err(e) => format!("err:{e}"),
                        });
                    }
                    Poll::Pending => *s.fut.lock().unwrap() = Some(f),
                }
            }
            if !s.again.swap(false, Ordering::SeqCst) {
                break;
            }
        }
        s.polling.store(false, Ordering::SeqCst);
    }

    /// k requests, replies delivered in `perm` order to the first `answered` of them, then close
    pub fn run(k: usize, perm: &[usize], answered: usize) -> Result<Vec<String>, String> {
        // session set-up and the sends on an ordinary runtime; the reply futures are then polled by
        // the eager executor only (no runtime: the in-memory transport and tokio's sync primitives
        // need none)
        let rt = tokio::runtime::Builder::new_current_thread().enable_all().build().unwrap();
        let (peer, futs, ids) = rt.block_on(async {
            let (t, peer) = mt::new();
            peer.deliver(mt::hello(&[mt::CAP_BASE10], 4));
            let mut s = Session::verif_new(t).await.map_err(|e| format!("session: {e}"))?;
            let mut futs: Vec<Fut> = vec![];
            for _ in 0..k {
                let f = s.rpc::<Get, _>(|b| b.finish()).await.map_err(|e| format!("rpc: {e}"))?;
                futs.push(Box::pin(async move { f.await.map(|v| v.to_string()).map_err(|e| e.to_string()) }));
            }
            let ids: Vec<String> = peer.sent()[1..].iter().map(|m| mt::message_id_of(m).unwrap_or_default()).collect();
            // the session object stays alive inside the futures' shared state; keep it too
            std::mem::forget(s);
            Ok::<_, String>((peer, futs, ids))
        })?;
        let slots: Arc<Vec<Slot>> = Arc::new(
            futs.into_iter()
                .map(|f| Slot {
                    fut: Mutex::new(Some(f)),
                    out: Mutex::new(None),
                    polling: AtomicBool::new(false),
                    again: AtomicBool::new(false),
                })
                .collect(),
        );
        // every future gets its first poll, in request order: the first becomes the reader
        for i in 0..k {
            poll_slot(&slots, i);
        }
        for &i in perm.iter().take(answered) {
            peer.deliver(format!(
                "<rpc-reply xmlns=\"{}\" message-id=\"{}\"><data>{}</data></rpc-reply>]]>]]>",
                mt::BASE_NS,
                ids[i],
                100 + i
            ));
        }
        peer.close();
        // nothing else will ever wake them: give every unfinished future a last poll
        for _ in 0..3 {
            for i in 0..k {
                poll_slot(&slots, i);
            }
        }
        Ok((0..k)
            .map(|i| slots[i].out.lock().unwrap().clone().unwrap_or_else(|| "pending".into()))
            .collect())
    }
}

static SENT_TOTAL: std::sync::atomic::AtomicU64 = std::sync::atomic::AtomicU64::new(0);

fn heap(a: &mut Vec<usize>, k: usize, out: &mut Vec<Vec<usize>>) {
    if k == 1 {
        out.push(a.clone());
        return;
    }
    for i in 0..k {
        heap(a, k - 1, out);
        if k % 2 == 0 {
            a.swap(i, k - 1);
        } else {
            a.swap(0, k - 1);
        }
    }
}
