//! C04: the real `Updater::run` (hook H3) against the in-memory fake Junos following a fault
//! script, on the multi-thread runtime (the run uses `spawn` + `block_in_place`).
use std::{
    collections::HashMap,
    sync::{Arc, Mutex},
    time::Duration,
};

use crate::{
    fakeirrd::FakeIrrd,
    fakejunos::{self, Fault, Log, Script},
    memtransport as mt,
    util::*,
};

pub struct RunObs {
    pub ok: bool,
    pub names: Vec<String>,
    pub timed_out: bool,
}

pub fn run_one(rt: &tokio::runtime::Runtime, irrd_port: u16, n: usize, fault: Option<(usize, Fault)>) -> RunObs {
    let log = Arc::new(Mutex::new(Log::default()));
    let script = Script { running: fakejunos::running_with(n), ephemeral: fakejunos::empty_config(), fault };
    let log2 = log.clone();
    let connector = agent::verif::connector(move || {
        let script = script.clone();
        let log = log2.clone();
        Box::pin(async move {
            let (t, peer) = mt::new();
            tokio::spawn(fakejunos::serve(peer, script, log));
            Ok(t)
        })
    });
    let res = rt.block_on(async {
        tokio::time::timeout(Duration::from_secs(20), agent::verif::run_once(connector, "127.0.0.1", irrd_port, "bgpfu")).await
    });
    // give the server task a moment to log what it has read
    std::thread::sleep(Duration::from_millis(5));
    let names = log.lock().unwrap().names.clone();
    match res {
        Err(_) => RunObs { ok: false, names, timed_out: true },
        Ok(r) => RunObs { ok: r.is_ok(), names, timed_out: false },
    }
}

pub fn main(opts: &Opts) {
    let mut sink = Sink::new();
    let irrd = FakeIrrd::start(HashMap::new());
    let rt = tokio::runtime::Builder::new_multi_thread().worker_threads(4).enable_all().build().unwrap();
    let mut cases: Vec<(usize, Option<(usize, Fault)>)> = vec![];
    if let Some(p) = &opts.replay {
        for l in std::fs::read_to_string(p).unwrap().lines() {
            if let Some(d) = l.strip_prefix("case\t") {
                let d = d.split('\t').next().unwrap();
                let f: Vec<&str> = d.split(';').collect();
                let n: usize = f[0].parse().unwrap();
                let fault = if f[1] == "none" {
                    None
                } else {
                    let q: Vec<&str> = f[1].split(':').collect();
                    Some((q[0].parse().unwrap(), Fault::parse(q[1]).unwrap()))
                };
                cases.push((n, fault));
            }
        }
    } else {
        let ns: Vec<usize> = if opts.thorough() { vec![0, 1, 2, 3, 5, 8] } else { vec![0, 1, 2, 5] };
        for &n in &ns {
            cases.push((n, None));
            // every fault position × kind (exhaustive)
            for pos in 1..=(6 + n) {
                for f in [Fault::RpcError, Fault::Malformed, Fault::WrongId, Fault::CloseBefore, Fault::CloseAfter] {
                    cases.push((n, Some((pos, f))));
                }
            }
        }
    }
    for (n, fault) in cases {
        let ftok = match &fault {
            None => "none".to_string(),
            Some((p, f)) => format!("{p}:{}", f.token()),
        };
        let case = format!("{n};{ftok}");
        let o = run_one(&rt, irrd.port, n, fault.clone());
        let closing = matches!(fault, Some((_, Fault::CloseBefore)) | Some((_, Fault::CloseAfter)));
        let has = |x: &str| if o.names.iter().any(|m| m == x) { 1 } else { 0 };
        let obs = format!(
            "result={} commit={} closedb={} closesess={} names={}",
            if o.timed_out { "timeout" } else if o.ok { "ok" } else { "err" },
            has("commit-configuration"),
            has("close-configuration"),
            has("close-session"),
            if closing { "*".to_string() } else { list(&o.names) }
        );
        sink.corr(&case, format!("run model {n} {ftok}"), obs.clone());
        sink.spec(&case, format!("run spec {n} {ftok} {obs}"));
        if o.timed_out {
            sink.direct(&case, "violation run-hangs".into());
        }
        sink.count(&format!("n.{n}"));
        sink.count(&format!("fault.{}", ftok.split(':').nth(1).unwrap_or("none")));
        sink.count(if o.ok { "result.ok" } else { "result.err" });
        if sink.samples.len() < 6 {
            sink.sample(format!("{case} -> {obs}"));
        }
    }
    drop(irrd);
    sink.write(opts, "agentrun");
}
