//! C04: the real `Updater::run` (hook H3) against the in-memory fake Junos following a fault
//! script, on the multi-thread runtime (the run uses `spawn` + `block_in_place`).
use std::{
    collections::HashMap,
    sync::{Arc, Mutex},
    time::Duration,
};

use crate::{
    fakeirrd::FakeIrrd,
    fakejunos::{self, Fault, Log, Script},
    memtransport as mt,
    util::*,
};

pub struct RunObs {
    pub ok: bool,
    pub names: Vec<String>,
    pub timed_out: bool,
}

pub fn run_one(
    rt: &tokio::runtime::Runtime,
    irrd_port: u16,
    n: usize,
    fault: Option<(usize, Fault)>,
) -> RunObs {
    let log = Arc::new(Mutex::new(Log::default()));
    let script = Script {
        running: fakejunos::running_with(n),
        ephemeral: fakejunos::empty_config(),
        fault,
    };
    let log2 = log.clone();
    let connector = agent::verif::connector(move || {
        let script = script.clone();
        let log = log2.clone();
        Box::pin(async move {
            let (t, peer) = mt::new();
            tokio::spawn(fakejunos::serve(peer, script, log));
            Ok(t)
        })
    });
    let res = std::panic::catch_unwind(std::panic::AssertUnwindSafe(|| {
        rt.block_on(async {
            tokio::time::timeout(
                Duration::from_secs(20),
                agent::verif::run_once(connector, "127.0.0.1", irrd_port, "bgpfu"),
            )
            .await
        })
    }));
    // a panic inside run() itself (not in one of its tasks): the run did not report success
    let res = match res {
        Ok(r) => r,
        Err(_) => Ok(Err(anyhow::anyhow!("run() panicked"))),
    };
    // the client has written all requests of the phase before it awaits the first reply, but the
    // server task may not have read the later ones yet when the run returns: wait until its log has
    // been stable for 60 ms (at most 1 s)
    let mut last = usize::MAX;
    let mut stable = 0;
    for _ in 0..200 {
        std::thread::sleep(Duration::from_millis(5));
        let n = log.lock().unwrap().names.len();
        if n == last {
            stable += 1;
            if stable >= 12 {
                break;
            }
        } else {
            stable = 0;
            last = n;
        }
    }
    let names = log.lock().unwrap().names.clone();
    match res {
        Err(_) => RunObs {
            ok: false,
            names,
            timed_out: true,
        },
        Ok(r) => RunObs {
            ok: r.is_ok(),
            names,
            timed_out: false,
        },
    }
}

/// C15 end-to-end: managed policies of which some cannot be evaluated (IRR error for an unknown
/// set, PeerAS, AS-path regexp, attribute match); the others must still be loaded and committed.
fn c15_family(rt: &tokio::runtime::Runtime, irrd_port: u16, opts: &Opts, sink: &mut Sink) {
    let mut rng = Rng::new(opts.seed ^ 0xC15);
    let good: Vec<String> = vec![
        "{ 192.0.2.0/24^24-26 }".into(),
        "{ 2001:db8::/32^48 }".into(),
        "{ 198.51.100.0/24, 2001:db8:1::/48 }".into(),
    ];
    let bad: Vec<String> = vec![
        "AS-DOESNOTEXIST".into(),
        "PeerAS".into(),
        "<^AS65000 .* AS65001$>".into(),
        "community(65000:1)".into(),
        "AS-NOPE AND { 10.0.0.0/8^+ }".into(),
    ];
    let n = if opts.thorough() { 120 } else { 24 };
    for i in 0..n {
        let ng = 1 + rng.below(3);
        let nb = 1 + rng.below(3);
        let mut stmts: Vec<(String, String, bool)> = vec![];
        for g in 0..ng {
            stmts.push((format!("good{g}"), rng.pick(&good).clone(), true));
        }
        for b in 0..nb {
            stmts.push((format!("bad{b}"), rng.pick(&bad).clone(), false));
        }
        rng.shuffle(&mut stmts);
        let log = Arc::new(Mutex::new(Log::default()));
        // which of the policies an earlier run has already installed: none, all, or a random subset
        // (an unevaluable policy that IS installed takes another path through compare)
        let installed: Vec<String> = match i % 3 {
            0 => vec![],
            1 => stmts.iter().map(|s| s.0.clone()).collect(),
            _ => stmts
                .iter()
                .filter(|_| rng.chance(1, 2))
                .map(|s| s.0.clone())
                .collect(),
        };
        let script = Script {
            running: fakejunos::running_with_exprs(
                &stmts
                    .iter()
                    .map(|(n, e, _)| (n.clone(), e.clone()))
                    .collect::<Vec<_>>(),
            ),
            ephemeral: if installed.is_empty() {
                fakejunos::empty_config()
            } else {
                fakejunos::installed_with(&installed)
            },
            fault: None,
        };
        let log2 = log.clone();
        let connector = agent::verif::connector(move || {
            let script = script.clone();
            let log = log2.clone();
            Box::pin(async move {
                let (t, peer) = mt::new();
                tokio::spawn(fakejunos::serve(peer, script, log));
                Ok(t)
            })
        });
        let res = std::panic::catch_unwind(std::panic::AssertUnwindSafe(|| {
            rt.block_on(async {
                tokio::time::timeout(
                    Duration::from_secs(20),
                    agent::verif::run_once(connector, "127.0.0.1", irrd_port, "bgpfu"),
                )
                .await
            })
        }));
        let res = match res {
            Ok(r) => r,
            Err(_) => {
                let case = format!(
                    "c15;{i};{};installed={}",
                    stmts
                        .iter()
                        .map(|(n, e, _)| format!("{n}={}", hexs(e)))
                        .collect::<Vec<_>>()
                        .join(","),
                    list(&installed)
                );
                sink.direct(&case, "violation run-panics".into());
                sink.count("c15.runs");
                continue;
            }
        };
        std::thread::sleep(Duration::from_millis(5));
        let g = log.lock().unwrap();
        let mut loaded: Vec<String> = g
            .loads
            .iter()
            .filter_map(|l| {
                let a = l.find("<name>")? + 6;
                let b = l[a..].find("</name>")? + a;
                Some(l[a..b].to_string())
            })
            .collect();
        loaded.sort();
        let mut want: Vec<String> = stmts.iter().filter(|s| s.2).map(|s| s.0.clone()).collect();
        want.sort();
        let committed = g.names.iter().any(|n| n == "commit-configuration");
        let case = format!(
            "c15;{i};{};installed={}",
            stmts
                .iter()
                .map(|(n, e, _)| format!("{n}={}", hexs(e)))
                .collect::<Vec<_>>()
                .join(","),
            list(&installed)
        );
        sink.count(&format!(
            "c15.installed.{}",
            if installed.is_empty() {
                "none"
            } else if installed.len() == stmts.len() {
                "all"
            } else {
                "some"
            }
        ));
        let verdict = match &res {
            Err(_) => "violation run-hangs".to_string(),
            Ok(Err(_)) => "violation unevaluable-policy-aborts-run".to_string(),
            Ok(Ok(())) if loaded != want => "violation other-policies-not-updated".to_string(),
            Ok(Ok(())) if !committed => "violation not-committed".to_string(),
            Ok(Ok(())) => "ok".to_string(),
        };
        sink.direct(&case, verdict);
        sink.count("c15.runs");
        sink.count(&format!("c15.bad.{nb}"));
        if sink.samples.len() < 8 {
            sink.sample(format!(
                "{case} -> result={:?} loaded={loaded:?}",
                res.as_ref().map(|r| r.is_ok())
            ));
        }
    }
}

/// C01 end to end at scale: n managed policies, none installed yet, one run. Every one of them must be
/// loaded exactly once before the commit (a sending window, a batch size, a counter … must not lose one).
fn many_family(rt: &tokio::runtime::Runtime, irrd_port: u16, opts: &Opts, sink: &mut Sink) {
    let ns: &[usize] = if opts.thorough() { &[127, 128, 129, 256, 257, 300, 1000] } else { &[127, 128, 129, 257, 300] };
    for &n in ns {
        let log = Arc::new(Mutex::new(Log::default()));
        let script = Script { running: fakejunos::running_with(n), ephemeral: fakejunos::empty_config(), fault: None };
        let log2 = log.clone();
        let connector = agent::verif::connector(move || {
            let script = script.clone();
            let log = log2.clone();
            Box::pin(async move {
                let (t, peer) = mt::new();
                tokio::spawn(fakejunos::serve(peer, script, log));
                Ok(t)
            })
        });
        let res = std::panic::catch_unwind(std::panic::AssertUnwindSafe(|| {
            rt.block_on(async {
                tokio::time::timeout(Duration::from_secs(60), agent::verif::run_once(connector, "127.0.0.1", irrd_port, "bgpfu")).await
            })
        }));
        std::thread::sleep(Duration::from_millis(5));
        let g = log.lock().unwrap();
        let mut loaded: Vec<String> = g
            .loads
            .iter()
            .filter_map(|l| {
                let a = l.find("<name>")? + 6;
                let b = l[a..].find("</name>")? + a;
                Some(l[a..b].to_string())
            })
            .collect();
        loaded.sort();
        let mut want: Vec<String> = (0..n).map(|i| format!("p{i}")).collect();
        want.sort();
        let committed = g.names.iter().any(|x| x == "commit-configuration");
        let case = format!("many;{n}");
        let verdict = match res {
            Err(_) => "violation run-panics".to_string(),
            Ok(Err(_)) => "violation run-hangs".to_string(),
            Ok(Ok(Err(_))) => "violation run-fails-without-fault".to_string(),
            Ok(Ok(Ok(()))) if !committed => "violation not-committed".to_string(),
            Ok(Ok(Ok(()))) if loaded != want => {
                let missing = want.iter().filter(|w| !loaded.contains(w)).count();
                let dup = loaded.len() + missing - want.len();
                format!("violation success-but-{missing}-policies-never-loaded-{dup}-loaded-twice")
            }
            Ok(Ok(Ok(()))) => "ok".to_string(),
        };
        sink.direct(&case, verdict);
        sink.count("many.runs");
    }
}

/// a load that cannot even be SENT (the request is refused when it is serialised: a policy name
/// containing a character XML cannot carry): no server-side fault at all, every reply positive.
/// The run must fail and must not commit (C04); in particular it must not report success while an
/// evaluated policy was never loaded (C01).
fn unsendable_family(rt: &tokio::runtime::Runtime, irrd_port: u16, sink: &mut Sink) {
    for (n, k) in [(1usize, 0usize), (2, 0), (2, 1), (3, 1), (5, 0), (5, 2), (5, 4)] {
        let stmts: Vec<(String, String)> = (0..n)
            .map(|i| {
                let name = if i == k { format!("p{i}&#1;x") } else { format!("p{i}") };
                (name, format!("{{ 192.0.{i}.0/24^24-28, 2001:db8:{i}::/48 }}"))
            })
            .collect();
        let log = Arc::new(Mutex::new(Log::default()));
        let script = Script { running: fakejunos::running_with_exprs(&stmts), ephemeral: fakejunos::empty_config(), fault: None };
        let log2 = log.clone();
        let connector = agent::verif::connector(move || {
            let script = script.clone();
            let log = log2.clone();
            Box::pin(async move {
                let (t, peer) = mt::new();
                tokio::spawn(fakejunos::serve(peer, script, log));
                Ok(t)
            })
        });
        let res = std::panic::catch_unwind(std::panic::AssertUnwindSafe(|| {
            rt.block_on(async {
                tokio::time::timeout(Duration::from_secs(20), agent::verif::run_once(connector, "127.0.0.1", irrd_port, "bgpfu")).await
            })
        }));
        std::thread::sleep(Duration::from_millis(5));
        let g = log.lock().unwrap();
        let committed = g.names.iter().any(|x| x == "commit-configuration");
        let loads = g.loads.len();
        let case = format!("unsendable;{n};{k}");
        let verdict = match res {
            Err(_) => "violation run-panics".to_string(),
            Ok(Err(_)) => "violation run-hangs".to_string(),
            Ok(Ok(Ok(()))) => format!("violation success-although-a-load-was-never-sent-{loads}-of-{n}"),
            Ok(Ok(Err(_))) if committed => "violation commit-although-a-load-was-never-sent".to_string(),
            Ok(Ok(Err(_))) => "ok".to_string(),
        };
        sink.direct(&case, verdict);
        sink.count("unsendable.runs");
    }
}

pub fn main(opts: &Opts) {
    let mut sink = Sink::new();
    if opts.extra.iter().any(|e| e == "many") {
        let irrd = FakeIrrd::start(HashMap::new());
        let rt = tokio::runtime::Builder::new_multi_thread().worker_threads(4).enable_all().build().unwrap();
        many_family(&rt, irrd.port, opts, &mut sink);
        unsendable_family(&rt, irrd.port, &mut sink);
        sink.write(opts, "agentrun");
        return;
    }
    if opts.extra.iter().any(|e| e == "c15") {
        let irrd = FakeIrrd::start(HashMap::new());
        let rt = tokio::runtime::Builder::new_multi_thread()
            .worker_threads(4)
            .enable_all()
            .build()
            .unwrap();
        c15_family(&rt, irrd.port, opts, &mut sink);
        sink.write(opts, "agentrun");
        return;
    }
    let irrd = FakeIrrd::start(HashMap::new());
    let rt = tokio::runtime::Builder::new_multi_thread()
        .worker_threads(4)
        .enable_all()
        .build()
        .unwrap();
    let mut cases: Vec<(usize, Option<(usize, Fault)>)> = vec![];
    if let Some(p) = &opts.replay {
        for l in std::fs::read_to_string(p).unwrap().lines() {
            if let Some(d) = l.strip_prefix("case\t") {
                let d = d.split('\t').next().unwrap();
                let f: Vec<&str> = d.split(';').collect();
                let n: usize = f[0].parse().unwrap();
                let fault = if f[1] == "none" {
                    None
                } else {
                    let q: Vec<&str> = f[1].split(':').collect();
                    Some((q[0].parse().unwrap(), Fault::parse(q[1]).unwrap()))
                };
                cases.push((n, fault));
            }
        }
    } else {
        let ns: Vec<usize> = if opts.thorough() {
            vec![0, 1, 2, 3, 5, 8]
        } else {
            vec![0, 1, 2, 5]
        };
        // more loads than any plausible window / batch size: faults at the first loads, around position
        // 128 of the load phase, at the last load and at the commit
        for &n in &[130usize, 260] {
            cases.push((n, None));
            for pos in [1usize, 3, 4, 5, 4 + 126, 4 + 127, 4 + 128, 3 + n, 4 + n, 6 + n] {
                for f in [Fault::RpcError, Fault::ErrWarnOk, Fault::WarnOk, Fault::CloseBefore] {
                    cases.push((n, Some((pos, f))));
                }
            }
        }
        // every error-tag at every load position and at the commit
        for &n in &[1usize, 3] {
            for pos in 4..=(4 + n) {
                for k in 0..8 {
                    cases.push((n, Some((pos, Fault::RpcErrorTag(k)))));
                }
            }
        }
        for &n in &ns {
            cases.push((n, None));
            // every fault position × kind (exhaustive)
            for pos in 1..=(6 + n) {
                for f in [
                    Fault::RpcError,
                    Fault::ErrWarnOk,
                    Fault::ManyWarnErrOk,
                    Fault::ErrLoadSuccess,
                    Fault::ErrCount,
                    Fault::WarnOk,
                    Fault::Malformed,
                    Fault::WrongId,
                    Fault::CloseBefore,
                    Fault::CloseAfter,
                ] {
                    cases.push((n, Some((pos, f))));
                }
            }
        }
    }
    if opts.replay.is_none() {
        unsendable_family(&rt, irrd.port, &mut sink);
    }
    for (n, fault) in cases {
        let ftok = match &fault {
            None => "none".to_string(),
            Some((p, f)) => format!("{p}:{}", f.token()),
        };
        let case = format!("{n};{ftok}");
        let o = run_one(&rt, irrd.port, n, fault.clone());
        // a warning with <ok/> is a positive acknowledgement: for the model there is no fault
        let ftok = if matches!(fault, Some((_, Fault::WarnOk))) {
            "none".to_string()
        } else {
            ftok
        };
        let closing = matches!(
            fault,
            Some((_, Fault::CloseBefore)) | Some((_, Fault::CloseAfter))
        );
        let has = |x: &str| if o.names.iter().any(|m| m == x) { 1 } else { 0 };
        let obs = format!(
            "result={} commit={} closedb={} closesess={} names={}",
            if o.timed_out {
                "timeout"
            } else if o.ok {
                "ok"
            } else {
                "err"
            },
            has("commit-configuration"),
            has("close-configuration"),
            has("close-session"),
            if closing {
                "*".to_string()
            } else {
                list(&o.names)
            }
        );
        sink.corr(&case, format!("run model {n} {ftok}"), obs.clone());
        sink.spec(&case, format!("run spec {n} {ftok} {obs}"));
        if o.timed_out {
            sink.direct(&case, "violation run-hangs".into());
        }
        sink.count(&format!("n.{n}"));
        sink.count(&format!(
            "fault.{}",
            ftok.split(':').nth(1).unwrap_or("none")
        ));
        sink.count(if o.ok { "result.ok" } else { "result.err" });
        if sink.samples.len() < 6 {
            sink.sample(format!("{case} -> {obs}"));
        }
    }
    drop(irrd);
    sink.write(opts, "agentrun");
}
