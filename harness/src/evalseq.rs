//! C11 / C17 / C15 correspondence: the real `bgpfu::RpslEvaluator` (in-process), the `bgpfu` binary
//! (subprocess) and `Policies<Candidate>::evaluate` (H3 facade) against the fake IRRd, compared with
//! the Lean models `Model/Irr.lean` + `Model/Rpsl.lean`.
//!
//! Families (first extra argument): `c11` fault-free evaluation of supported expressions,
//! `c17` histories of 2–8 expressions on one evaluator with injected `D`/`E`/`F` answers,
//! `c15` policy sets containing unevaluable members (unknown sets, PeerAS, AS-path regexps,
//! attribute matches, IRRd errors).  Second extra argument (optional): the model configuration the
//! implementation is compared with (`fixed` by default, `pinned`, or `c<bits>`).
//!
//! Outputs are range lists; they are compared with the model by membership on a probe set (every
//! prefix mentioned, its parent, children, sibling, and descendants at every boundary length ±1).
use std::{
    collections::{BTreeSet, HashMap},
    io::Write as _,
    panic::{catch_unwind, AssertUnwindSafe},
    process::{Command, Stdio},
    time::{Duration, Instant},
};

use ip::traits::PrefixSet as _;

use crate::fakeirrd::{FakeIrrd, Sel};
use crate::util::*;

const FUEL: usize = 6;

// ---------------------------------------------------------------------------------------------
// data
// ---------------------------------------------------------------------------------------------

#[derive(Clone, Debug, PartialEq, Eq, Hash, PartialOrd, Ord)]
pub struct Pfx {
    pub v6: bool,
    pub bits: u128,
    pub len: u8,
}

fn shr(x: u128, n: u32) -> u128 {
    if n >= 128 {
        0
    } else {
        x >> n
    }
}
fn shl(x: u128, n: u32) -> u128 {
    if n >= 128 {
        0
    } else {
        x << n
    }
}

impl Pfx {
    pub fn max(&self) -> u8 {
        if self.v6 {
            128
        } else {
            32
        }
    }
    pub fn tok(&self) -> String {
        format!("{}.{}/{}", if self.v6 { 6 } else { 4 }, self.bits, self.len)
    }
    /// `10.0.0.0/8`, `2001:db8::/32`
    pub fn from_text(s: &str) -> Option<Pfx> {
        let (a, l) = s.split_once('/')?;
        let len: u8 = l.parse().ok()?;
        if let Ok(v4) = a.parse::<std::net::Ipv4Addr>() {
            if len > 32 {
                return None;
            }
            let x = u32::from(v4) as u128;
            Some(Pfx {
                v6: false,
                bits: shr(x, 32 - len as u32),
                len,
            })
        } else {
            let v6 = a.parse::<std::net::Ipv6Addr>().ok()?;
            if len > 128 {
                return None;
            }
            Some(Pfx {
                v6: true,
                bits: shr(u128::from(v6), 128 - len as u32),
                len,
            })
        }
    }
    pub fn trunc(&self, j: u8) -> Pfx {
        Pfx {
            v6: self.v6,
            bits: shr(self.bits, (self.len - j) as u32),
            len: j,
        }
    }
    pub fn covers(&self, q: &Pfx) -> bool {
        self.v6 == q.v6 && self.len <= q.len && q.trunc(self.len) == *self
    }
    /// descendant at length `l ≥ len`: all-zero or all-one extension
    pub fn desc(&self, l: u8, ones: bool) -> Option<Pfx> {
        if l < self.len || l > self.max() {
            return None;
        }
        let d = (l - self.len) as u32;
        let ext = if ones && d > 0 {
            shl(1, d).wrapping_sub(1)
        } else {
            0
        };
        let ext = if ones && d >= 128 { u128::MAX } else { ext };
        Some(Pfx {
            v6: self.v6,
            bits: shl(self.bits, d) | ext,
            len: l,
        })
    }
}

pub fn p(s: &str) -> Pfx {
    Pfx::from_text(s).unwrap_or_else(|| panic!("bad prefix {s}"))
}

#[derive(Clone, Debug, PartialEq)]
pub enum Op {
    None,
    LessExcl,
    LessIncl,
    Exact(u8),
    Range(u8, u8),
}
impl Op {
    pub fn tok(&self) -> String {
        match self {
            Op::None => String::new(),
            Op::LessExcl => "^-".into(),
            Op::LessIncl => "^+".into(),
            Op::Exact(n) => format!("^{n}"),
            Op::Range(n, m) => format!("^{n}-{m}"),
        }
    }
    fn bounds(&self) -> Vec<u8> {
        match self {
            Op::Exact(n) => vec![*n],
            Op::Range(n, m) => vec![*n, *m],
            _ => vec![],
        }
    }
}

#[derive(Clone, Debug, PartialEq)]
pub enum Expr {
    Any,
    AsPath,
    Attr,
    FilterSet(String),
    Lit(Vec<(Pfx, Op)>, Op),
    AsSet(String, Op),
    RouteSet(String, Op),
    AutNum(u32, Op),
    RsAny(Op),
    AsAny(Op),
    PeerAs(Op),
    Not(Box<Expr>),
    And(Box<Expr>, Box<Expr>),
    Or(Box<Expr>, Box<Expr>),
}

impl Expr {
    fn rpn_into(&self, out: &mut Vec<String>) {
        match self {
            Expr::Any => out.push("ANY".into()),
            Expr::AsPath => out.push("ASPATH".into()),
            Expr::Attr => out.push("ATTR".into()),
            Expr::FilterSet(n) => out.push(format!("F:{n}")),
            Expr::Lit(ms, op) => out.push(format!(
                "L:{}:{}",
                ms.iter()
                    .map(|(p, o)| format!("{}{}", p.tok(), o.tok()))
                    .collect::<Vec<_>>()
                    .join(";"),
                op.tok()
            )),
            Expr::AsSet(n, op) => out.push(format!("S:{n}:{}", op.tok())),
            Expr::RouteSet(n, op) => out.push(format!("R:{n}:{}", op.tok())),
            Expr::AutNum(a, op) => out.push(format!("N:{a}:{}", op.tok())),
            Expr::RsAny(op) => out.push(format!("X:RSANY:{}", op.tok())),
            Expr::AsAny(op) => out.push(format!("X:ASANY:{}", op.tok())),
            Expr::PeerAs(op) => out.push(format!("X:PEERAS:{}", op.tok())),
            Expr::Not(e) => {
                e.rpn_into(out);
                out.push("NOT".into());
            }
            Expr::And(a, b) => {
                a.rpn_into(out);
                b.rpn_into(out);
                out.push("AND".into());
            }
            Expr::Or(a, b) => {
                a.rpn_into(out);
                b.rpn_into(out);
                out.push("OR".into());
            }
        }
    }
    pub fn rpn(&self) -> String {
        let mut v = vec![];
        self.rpn_into(&mut v);
        v.join(",")
    }
    pub fn hex(&self) -> String {
        hexs(&self.rpn())
    }
    fn walk(&self, f: &mut dyn FnMut(&Expr)) {
        f(self);
        match self {
            Expr::Not(e) => e.walk(f),
            Expr::And(a, b) | Expr::Or(a, b) => {
                a.walk(f);
                b.walk(f);
            }
            _ => {}
        }
    }
    pub fn unsupported(&self) -> bool {
        let mut u = false;
        self.walk(&mut |e| {
            if matches!(e, Expr::AsPath | Expr::Attr | Expr::PeerAs(_)) {
                u = true
            }
        });
        u
    }
}

#[derive(Clone, Debug, PartialEq)]
pub enum AsMem {
    Asn(u32),
    Set(String),
}
#[derive(Clone, Debug, PartialEq)]
pub enum RsMem {
    Pfx(Pfx, Op),
    Asn(u32),
    Set(String),
    /// a member word that is no prefix range (index into the model's `junkWords`)
    Junk(usize),
}

#[derive(Clone, Debug, Default)]
pub struct Db {
    pub empty_d: bool,
    pub as_sets: Vec<(String, Vec<AsMem>)>,
    pub route_sets: Vec<(String, Vec<RsMem>)>,
    pub routes: Vec<(u32, Vec<Pfx>)>,
    /// objects per filter-set name; `None` = object without `mp-filter:`
    pub filter_sets: Vec<(String, Vec<Option<Expr>>)>,
}

fn section(v: Vec<String>) -> String {
    if v.is_empty() {
        ".".into()
    } else {
        v.join(",")
    }
}

impl Db {
    pub fn tok(&self) -> String {
        let a = self
            .as_sets
            .iter()
            .map(|(n, ms)| {
                format!(
                    "{n}={}",
                    ms.iter()
                        .map(|m| match m {
                            AsMem::Asn(a) => a.to_string(),
                            AsMem::Set(s) => s.clone(),
                        })
                        .collect::<Vec<_>>()
                        .join(";")
                )
            })
            .collect();
        let r = self
            .route_sets
            .iter()
            .map(|(n, ms)| {
                format!(
                    "{n}={}",
                    ms.iter()
                        .map(|m| match m {
                            RsMem::Pfx(p, o) => format!("{}{}", p.tok(), o.tok()),
                            RsMem::Asn(a) => format!("a{a}"),
                            RsMem::Set(s) => s.clone(),
                            RsMem::Junk(k) => format!("j{k}"),
                        })
                        .collect::<Vec<_>>()
                        .join(";")
                )
            })
            .collect();
        let t = self
            .routes
            .iter()
            .map(|(a, ps)| {
                format!(
                    "{a}={}",
                    ps.iter().map(|p| p.tok()).collect::<Vec<_>>().join(";")
                )
            })
            .collect();
        let f = self
            .filter_sets
            .iter()
            .map(|(n, os)| {
                format!(
                    "{n}={}",
                    os.iter()
                        .map(|o| match o {
                            Some(e) => format!("m{}", e.hex()),
                            None => "n".into(),
                        })
                        .collect::<Vec<_>>()
                        .join(";")
                )
            })
            .collect();
        format!(
            "{}|{}|{}|{}|{}",
            if self.empty_d { "d" } else { "c" },
            section(a),
            section(r),
            section(t),
            section(f)
        )
    }
    pub fn has_ranged_members(&self) -> bool {
        self.route_sets.iter().any(|(_, ms)| {
            ms.iter()
                .any(|m| matches!(m, RsMem::Pfx(_, o) if *o != Op::None))
        })
    }
}

#[derive(Clone, Debug, PartialEq)]
pub enum FSel {
    Idx(usize),
    Query(String), // query token, e.g. `g65001`
}
#[derive(Clone, Debug, PartialEq)]
pub struct Fault {
    pub sel: FSel,
    pub kind: char,
}
fn faults_tok(fs: &[Fault]) -> String {
    // `Z` (a slow answer) is no fault for the model
    let fs: Vec<&Fault> = fs.iter().filter(|f| f.kind != 'Z').collect();
    if fs.is_empty() {
        return ".".into();
    }
    fs.iter()
        .map(|f| match &f.sel {
            FSel::Idx(i) => format!("i{i}={}", f.kind),
            FSel::Query(q) => format!("q{q}={}", f.kind),
        })
        .collect::<Vec<_>>()
        .join(",")
}

/// wire line for a query token
fn qwire(tok: &str) -> String {
    let (k, r) = tok.split_at(1);
    match k {
        "g" => format!("!gAS{r}"),
        "6" => format!("!6AS{r}"),
        "a" | "r" => format!("!i{r},1"),
        "m" => format!("!mfilter-set,{r}"),
        _ => format!("?{tok}"),
    }
}
/// query token for a wire line
fn qtok(line: &str) -> String {
    if let Some(r) = line.strip_prefix("!gAS") {
        format!("g{r}")
    } else if let Some(r) = line.strip_prefix("!6AS") {
        format!("6{r}")
    } else if let Some(r) = line.strip_prefix("!mfilter-set,") {
        format!("m{r}")
    } else if let Some(r) = line.strip_prefix("!i").and_then(|r| r.strip_suffix(",1")) {
        if r.to_ascii_uppercase().starts_with("RS-") {
            format!("r{r}")
        } else {
            format!("a{r}")
        }
    } else {
        format!("?{}", hexs(line))
    }
}

fn fake_faults(fs: &[Fault]) -> Vec<(Sel, char)> {
    fs.iter()
        .map(|f| match &f.sel {
            FSel::Idx(i) => (Sel::Idx(*i), f.kind),
            FSel::Query(q) => (Sel::Query(qwire(q)), f.kind),
        })
        .collect()
}

#[derive(Clone, Debug, PartialEq)]
pub enum Runner {
    Lib,
    Bin,
    Agent,
}

#[derive(Clone, Debug)]
pub struct Item {
    pub name: String,
    pub expr: Expr,
    pub faults: Vec<Fault>,
}

#[derive(Clone, Debug)]
pub struct Case {
    pub family: String,
    pub seed: u64,
    pub idx: usize,
    pub runner: Runner,
    pub db: Db,
    pub items: Vec<Item>,
}

impl Case {
    fn items_tok(&self) -> String {
        self.items
            .iter()
            .map(|i| format!("{}*{}", i.expr.hex(), faults_tok(&i.faults)))
            .collect::<Vec<_>>()
            .join("+")
    }
    fn cands_tok(&self) -> String {
        let mut v: Vec<&Item> = self.items.iter().collect();
        v.sort_by(|a, b| a.name.cmp(&b.name));
        v.iter()
            .map(|i| format!("{}*{}*{}", i.name, i.expr.hex(), faults_tok(&i.faults)))
            .collect::<Vec<_>>()
            .join("+")
    }
    pub fn descr(&self) -> String {
        let r = match self.runner {
            Runner::Lib => "lib",
            Runner::Bin => "bin",
            Runner::Agent => "agent",
        };
        let human = self
            .items
            .iter()
            .map(|i| format!("{}[{}]", i.expr.rpn(), faults_tok(&i.faults)))
            .collect::<Vec<_>>()
            .join(" ; ");
        format!(
            "{}/{}/{} {} db={} exprs={}",
            self.family,
            self.seed,
            self.idx,
            r,
            self.db.tok(),
            human
        )
    }
}

// ---------------------------------------------------------------------------------------------
// generation
// ---------------------------------------------------------------------------------------------

/// generic-ip 0.1.1 needs time exponential in the prefix length to complement a set (`NOT`):
/// about 0.2 s for a /16, 40 s for a /24, never for a /32.  Cases that contain `NOT` therefore draw
/// all their prefixes from these pools of short prefixes.
fn v4short() -> Vec<Pfx> {
    [
        "10.0.0.0/8",
        "10.0.0.0/9",
        "10.128.0.0/9",
        "10.64.0.0/10",
        "0.0.0.0/0",
        "172.16.0.0/12",
        "192.0.0.0/7",
        "11.0.0.0/8",
    ]
    .iter()
    .map(|s| p(s))
    .collect()
}
fn v6short() -> Vec<Pfx> {
    [
        "2000::/3",
        "2000::/4",
        "3000::/4",
        "::/0",
        "fc00::/7",
        "2001::/12",
        "2400::/6",
    ]
    .iter()
    .map(|s| p(s))
    .collect()
}
fn pools(short: bool) -> (Vec<Pfx>, Vec<Pfx>) {
    if short {
        (v4short(), v6short())
    } else {
        (v4pool(), v6pool())
    }
}

fn v4pool() -> Vec<Pfx> {
    [
        "10.0.0.0/8",
        "10.0.0.0/9",
        "10.128.0.0/9",
        "10.1.0.0/16",
        "192.0.2.0/24",
        "192.0.2.0/25",
        "192.0.2.128/25",
        "198.51.100.0/24",
        "0.0.0.0/0",
        "203.0.113.7/32",
        "172.16.0.0/12",
    ]
    .iter()
    .map(|s| p(s))
    .collect()
}
fn v6pool() -> Vec<Pfx> {
    [
        "2001:db8::/32",
        "2001:db8::/33",
        "2001:db8:8000::/33",
        "2001:db8:1::/48",
        "::/0",
        "2001:db8::1/128",
        "2001:db8:0:1::/64",
        // IPv4-mapped: the model's server writes these in the mixed notation `::ffff:198.51.100.0/120`
        "::ffff:198.51.100.0/120",
        "::ffff:192.0.2.128/121",
        "fc00::/7",
    ]
    .iter()
    .map(|s| p(s))
    .collect()
}

fn gen_op(rng: &mut Rng, base: Option<&Pfx>, any_family: bool) -> Op {
    let max: u8 = match base {
        Some(b) => b.max(),
        None => {
            if any_family {
                32
            } else {
                128
            }
        }
    };
    let lo = base.map(|b| b.len).unwrap_or(8);
    match rng.below(8) {
        0 => Op::LessExcl,
        1 | 2 => Op::LessIncl,
        3 | 4 => {
            // exact: usually ≥ len, sometimes shorter than the prefix, sometimes the maximum
            let n = match rng.below(6) {
                0 => lo.saturating_sub(1 + rng.below(4) as u8),
                1 => max,
                _ => (lo as usize + rng.below((max - lo) as usize + 1)).min(max as usize) as u8,
            };
            Op::Exact(n)
        }
        _ => {
            let a = (lo as usize + rng.below((max - lo) as usize + 1)).min(max as usize) as u8;
            let a = if rng.chance(1, 6) {
                lo.saturating_sub(2)
            } else {
                a
            };
            let b = if rng.chance(1, 8) {
                a.saturating_sub(1)
            } else {
                (a as usize + rng.below((max - a) as usize + 1)) as u8
            };
            Op::Range(a, b)
        }
    }
}

fn maybe_op(rng: &mut Rng, base: Option<&Pfx>, num: u64, den: u64) -> Op {
    if rng.chance(num, den) {
        gen_op(rng, base, true)
    } else {
        Op::None
    }
}

pub struct GenOpts {
    pub ranged_members: bool,
    pub unknown_names: bool,
    /// short prefixes only, `NOT` allowed
    pub short: bool,
    /// route-sets may hold member words that are no prefix range
    pub junk_members: bool,
}

fn gen_db(rng: &mut Rng, g: &GenOpts) -> Db {
    let mut db = Db {
        empty_d: rng.chance(1, 2),
        ..Default::default()
    };
    let (p4, p6) = pools(g.short);
    let n_as = 2 + rng.below(9);
    let asns: Vec<u32> = (0..n_as).map(|i| 64500 + i as u32).collect();
    for &a in &asns {
        let kind = rng.below(5); // 0 none, 1 v4, 2 v6, 3/4 both
        let mut ps = vec![];
        if kind == 1 || kind >= 3 {
            for _ in 0..1 + rng.below(3) {
                ps.push(rng.pick(&p4).clone());
            }
        }
        if kind == 2 || kind >= 3 {
            for _ in 0..1 + rng.below(3) {
                ps.push(rng.pick(&p6).clone());
            }
        }
        if !ps.is_empty() && rng.chance(1, 4) {
            ps.push(ps[0].clone()); // duplicate object
        }
        rng.shuffle(&mut ps);
        if kind == 0 && rng.chance(1, 2) {
            continue; // AS without any entry
        }
        db.routes.push((a, ps));
    }
    let n_as_sets = 1 + rng.below(4);
    let n_rs = rng.below(3);
    let n_fs = rng.below(3).min(8 - n_as_sets - n_rs);
    let as_names: Vec<String> = (0..n_as_sets).map(|i| format!("AS-S{i}")).collect();
    let rs_names: Vec<String> = (0..n_rs).map(|i| format!("RS-R{i}")).collect();
    let fs_names: Vec<String> = (0..n_fs).map(|i| format!("FLTR-F{i}")).collect();
    for n in &as_names {
        let k = rng.below(5);
        let mut ms = vec![];
        for _ in 0..k {
            if rng.chance(2, 5) {
                // set reference: may be itself, may close a cycle, may be unknown
                if g.unknown_names && rng.chance(1, 8) {
                    ms.push(AsMem::Set("AS-NONE".into()));
                } else {
                    ms.push(AsMem::Set(rng.pick(&as_names).clone()));
                }
            } else if rng.chance(1, 10) {
                ms.push(AsMem::Asn(64999)); // AS without objects
            } else {
                ms.push(AsMem::Asn(*rng.pick(&asns)));
            }
        }
        db.as_sets.push((n.clone(), ms));
    }
    for n in &rs_names {
        let k = rng.below(5);
        let mut ms = vec![];
        for _ in 0..k {
            if g.junk_members && rng.chance(1, 3) {
                ms.push(RsMem::Junk(rng.below(10)));
                continue;
            }
            match rng.below(6) {
                0 | 1 => ms.push(RsMem::Set(rng.pick(&rs_names).clone())),
                2 => ms.push(RsMem::Asn(*rng.pick(&asns))),
                _ => {
                    let px = if rng.chance(2, 3) {
                        rng.pick(&p4).clone()
                    } else {
                        rng.pick(&p6).clone()
                    };
                    let op = if g.ranged_members && rng.chance(1, 2) {
                        gen_op(rng, Some(&px), false)
                    } else {
                        Op::None
                    };
                    ms.push(RsMem::Pfx(px, op));
                }
            }
        }
        db.route_sets.push((n.clone(), ms));
    }
    for (i, n) in fs_names.iter().enumerate() {
        let mut objs = vec![];
        if rng.chance(1, 5) {
            objs.push(None);
        }
        // inner expression; may refer to a later filter-set (acyclic)
        let later: Vec<String> = fs_names[i + 1..].to_vec();
        let names = Names {
            as_sets: as_names.clone(),
            route_sets: rs_names.clone(),
            filter_sets: later,
            asns: asns.clone(),
            short: g.short,
        };
        objs.push(Some(gen_expr(rng, &names, 2, false, false)));
        if rng.chance(1, 6) {
            objs.push(Some(Expr::Any)); // a second object: must be ignored
        }
        if rng.chance(1, 10) {
            objs = vec![None];
        }
        db.filter_sets.push((n.clone(), objs));
    }
    db
}

#[derive(Clone)]
struct Names {
    as_sets: Vec<String>,
    route_sets: Vec<String>,
    filter_sets: Vec<String>,
    asns: Vec<u32>,
    short: bool,
}
fn names_of(db: &Db, short: bool) -> Names {
    Names {
        short,
        as_sets: db.as_sets.iter().map(|e| e.0.clone()).collect(),
        route_sets: db.route_sets.iter().map(|e| e.0.clone()).collect(),
        filter_sets: db.filter_sets.iter().map(|e| e.0.clone()).collect(),
        asns: db.routes.iter().map(|e| e.0).collect(),
    }
}

fn gen_lit(rng: &mut Rng, short: bool) -> Expr {
    let (p4, p6) = pools(short);
    let k = rng.below(4);
    let mut ms = vec![];
    for _ in 0..k {
        let px = if rng.chance(3, 5) {
            rng.pick(&p4).clone()
        } else {
            rng.pick(&p6).clone()
        };
        let op = if rng.chance(1, 2) {
            gen_op(rng, Some(&px), false)
        } else {
            Op::None
        };
        ms.push((px, op));
    }
    let outer = maybe_op(rng, None, 1, 4);
    Expr::Lit(ms, outer)
}

fn gen_atom(rng: &mut Rng, n: &Names, unknown: bool, unsupported: bool) -> Expr {
    if unsupported && rng.chance(1, 4) {
        return match rng.below(3) {
            0 => Expr::PeerAs(Op::None),
            1 => Expr::AsPath,
            _ => Expr::Attr,
        };
    }
    if unknown && rng.chance(1, 6) {
        return match rng.below(3) {
            0 => Expr::AsSet("AS-UNKNOWN".into(), Op::None),
            1 => Expr::RouteSet("RS-UNKNOWN".into(), Op::None),
            _ => Expr::FilterSet("FLTR-UNKNOWN".into()),
        };
    }
    for _ in 0..8 {
        match rng.below(10) {
            0 | 1 | 2 if !n.as_sets.is_empty() => {
                return Expr::AsSet(rng.pick(&n.as_sets).clone(), maybe_op(rng, None, 1, 4))
            }
            3 | 4 if !n.route_sets.is_empty() => {
                return Expr::RouteSet(rng.pick(&n.route_sets).clone(), maybe_op(rng, None, 1, 4))
            }
            5 | 6 => {
                let a = if rng.chance(1, 10) || n.asns.is_empty() {
                    64999
                } else {
                    *rng.pick(&n.asns)
                };
                return Expr::AutNum(a, maybe_op(rng, None, 1, 4));
            }
            7 if !n.filter_sets.is_empty() => {
                return Expr::FilterSet(rng.pick(&n.filter_sets).clone())
            }
            8 => return gen_lit(rng, n.short),
            9 => {
                return match rng.below(4) {
                    0 => Expr::Any,
                    1 => Expr::RsAny(maybe_op(rng, None, 1, 3)),
                    2 => Expr::AsAny(Op::None),
                    _ => gen_lit(rng, n.short),
                }
            }
            _ => {}
        }
    }
    gen_lit(rng, n.short)
}

fn gen_expr(rng: &mut Rng, n: &Names, depth: usize, unknown: bool, unsupported: bool) -> Expr {
    if depth == 0 || rng.chance(2, 5) {
        return gen_atom(rng, n, unknown, unsupported);
    }
    match rng.below(5) {
        0 if n.short => Expr::Not(Box::new(gen_expr(rng, n, depth - 1, unknown, unsupported))),
        0 => gen_atom(rng, n, unknown, unsupported),
        1 | 2 => Expr::And(
            Box::new(gen_expr(rng, n, depth - 1, unknown, unsupported)),
            Box::new(gen_expr(rng, n, depth - 1, unknown, unsupported)),
        ),
        _ => Expr::Or(
            Box::new(gen_expr(rng, n, depth - 1, unknown, unsupported)),
            Box::new(gen_expr(rng, n, depth - 1, unknown, unsupported)),
        ),
    }
}

fn small_db() -> Db {
    Db {
        empty_d: true,
        as_sets: vec![
            (
                "AS-S0".into(),
                vec![AsMem::Asn(64500), AsMem::Set("AS-S1".into())],
            ),
            (
                "AS-S1".into(),
                vec![AsMem::Asn(64501), AsMem::Set("AS-S0".into())],
            ),
        ],
        route_sets: vec![(
            "RS-R0".into(),
            vec![
                RsMem::Pfx(p("192.0.2.0/24"), Op::None),
                RsMem::Set("RS-R0".into()),
            ],
        )],
        routes: vec![
            (64500, vec![p("10.0.0.0/8"), p("2001:db8::/32")]),
            (64501, vec![p("198.51.100.0/24")]),
        ],
        filter_sets: vec![(
            "FLTR-F0".into(),
            vec![Some(Expr::AsSet("AS-S0".into(), Op::None))],
        )],
    }
}

fn item(name: &str, e: Expr) -> Item {
    Item {
        name: name.into(),
        expr: e,
        faults: vec![],
    }
}

fn case_rng(seed: u64, family: &str, idx: usize) -> Rng {
    let mut h: u64 = seed.wrapping_mul(0x100000001b3) ^ 0xcbf29ce484222325;
    for b in family.bytes() {
        h = (h ^ b as u64).wrapping_mul(0x100000001b3);
    }
    h = (h ^ idx as u64).wrapping_mul(0x100000001b3);
    Rng::new(h)
}

/// all query tokens an evaluation of `e` can issue first-hand (used to aim query-selected faults)
fn direct_queries(db: &Db, e: &Expr) -> Vec<String> {
    let mut v = vec![];
    e.walk(&mut |x| match x {
        Expr::AsSet(n, _) => v.push(format!("a{n}")),
        Expr::RouteSet(n, _) => v.push(format!("r{n}")),
        Expr::AutNum(a, _) => {
            v.push(format!("g{a}"));
            v.push(format!("6{a}"));
        }
        Expr::FilterSet(n) => v.push(format!("m{n}")),
        _ => {}
    });
    for (a, _) in &db.routes {
        v.push(format!("g{a}"));
        v.push(format!("6{a}"));
    }
    v
}

fn gen_faults(rng: &mut Rng, db: &Db, e: &Expr, only_query_sel: bool) -> Vec<Fault> {
    let mut fs = vec![];
    if rng.chance(1, 3) {
        return fs;
    }
    let k = 1 + rng.below(2);
    for _ in 0..k {
        let kind = *rng.pick(&['D', 'E', 'F']);
        if only_query_sel || rng.chance(1, 3) {
            let qs = direct_queries(db, e);
            if !qs.is_empty() {
                fs.push(Fault {
                    sel: FSel::Query(rng.pick(&qs).clone()),
                    kind,
                });
            }
        } else {
            fs.push(Fault {
                sel: FSel::Idx(rng.below(8)),
                kind,
            });
        }
    }
    fs
}

pub fn gen_case(family: &str, seed: u64, idx: usize) -> Case {
    let mut rng = case_rng(seed, family, idx);
    let mk = |runner, db, items| Case {
        family: family.into(),
        seed,
        idx,
        runner,
        db,
        items,
    };
    match family {
        "c11" => {
            // hand-written small cases first
            match idx {
                0 => {
                    return mk(
                        Runner::Lib,
                        small_db(),
                        vec![
                            item("p0", Expr::AsSet("AS-S0".into(), Op::None)),
                            item("p1", Expr::RouteSet("RS-R0".into(), Op::None)),
                        ],
                    )
                }
                1 => {
                    let mut db = small_db();
                    db.route_sets = vec![(
                        "RS-R0".into(),
                        vec![RsMem::Pfx(p("10.0.0.0/8"), Op::LessIncl)],
                    )];
                    return mk(
                        Runner::Lib,
                        db,
                        vec![item("p0", Expr::RouteSet("RS-R0".into(), Op::None))],
                    );
                }
                2 => {
                    let mut db = small_db();
                    db.route_sets = vec![(
                        "RS-R0".into(),
                        vec![
                            RsMem::Pfx(p("192.0.2.0/24"), Op::Range(25, 32)),
                            RsMem::Pfx(p("198.51.100.0/24"), Op::None),
                        ],
                    )];
                    return mk(
                        Runner::Bin,
                        db,
                        vec![item("p0", Expr::RouteSet("RS-R0".into(), Op::None))],
                    );
                }
                3 => {
                    let mut db = small_db();
                    db.route_sets = vec![(
                        "RS-R0".into(),
                        vec![RsMem::Pfx(p("2001:db8::/32"), Op::Exact(48))],
                    )];
                    return mk(
                        Runner::Agent,
                        db,
                        vec![
                            item("p0", Expr::RouteSet("RS-R0".into(), Op::None)),
                            item("p1", Expr::AutNum(64500, Op::None)),
                        ],
                    );
                }
                4 => {
                    return mk(
                        Runner::Bin,
                        small_db(),
                        vec![item(
                            "p0",
                            Expr::And(
                                Box::new(Expr::AsSet("AS-S0".into(), Op::LessIncl)),
                                Box::new(Expr::Not(Box::new(Expr::Lit(
                                    vec![(p("10.0.0.0/8"), Op::Range(9, 24))],
                                    Op::None,
                                )))),
                            ),
                        )],
                    )
                }
                5 => {
                    return mk(
                        Runner::Agent,
                        small_db(),
                        vec![
                            item("p0", Expr::FilterSet("FLTR-F0".into())),
                            item(
                                "p1",
                                Expr::Or(
                                    Box::new(Expr::AutNum(64501, Op::None)),
                                    Box::new(Expr::RouteSet("RS-R0".into(), Op::LessExcl)),
                                ),
                            ),
                        ],
                    )
                }
                6 => {
                    // a filter-set object of more than 8 KiB (one response item larger than any small
                    // read buffer): an mp-filter listing 900 prefixes
                    let mut db = small_db();
                    let many: Vec<(Pfx, Op)> = (0..900u32)
                        .map(|k| (p(&format!("10.{}.{}.0/24", k / 250, k % 250)), Op::None))
                        .collect();
                    db.filter_sets = vec![("FLTR-BIG".into(), vec![Some(Expr::Lit(many, Op::None))])];
                    return mk(
                        Runner::Lib,
                        db,
                        vec![
                            item("p0", Expr::FilterSet("FLTR-BIG".into())),
                            item("p1", Expr::AsSet("AS-S0".into(), Op::None)),
                        ],
                    );
                }
                _ => {}
            }
            let g = GenOpts {
                ranged_members: idx % 4 == 0,
                unknown_names: idx % 5 == 0,
                short: idx % 2 == 1,
                junk_members: idx % 3 == 1,
            };
            let db = gen_db(&mut rng, &g);
            let names = names_of(&db, g.short);
            let runner = match idx % 3 {
                0 => Runner::Lib,
                1 => Runner::Bin,
                _ => Runner::Agent,
            };
            let k = match runner {
                Runner::Bin => 2,
                _ => 2 + rng.below(3),
            };
            let items = (0..k)
                .map(|i| {
                    item(
                        &format!("p{i}"),
                        gen_expr(&mut rng, &names, 3, idx % 7 == 0, false),
                    )
                })
                .collect();
            mk(runner, db, items)
        }
        "c17" => {
            match idx {
                0 => {
                    // a failed evaluation (as-set unknown to the server), then the same names again
                    let db = small_db();
                    let a = Expr::AsSet("AS-S0".into(), Op::None);
                    return mk(
                        Runner::Lib,
                        db,
                        vec![
                            Item {
                                name: "p0".into(),
                                expr: a.clone(),
                                faults: vec![Fault {
                                    sel: FSel::Idx(0),
                                    kind: 'D',
                                }],
                            },
                            item("p1", a.clone()),
                            Item {
                                name: "p2".into(),
                                expr: a.clone(),
                                faults: vec![Fault {
                                    sel: FSel::Idx(2),
                                    kind: 'F',
                                }],
                            },
                            item("p3", Expr::FilterSet("FLTR-F0".into())),
                            item("p4", a),
                        ],
                    );
                }
                1 => {
                    // filter-set with two objects: the resolver stops reading at the first mp-filter
                    let mut db = small_db();
                    db.filter_sets = vec![(
                        "FLTR-F0".into(),
                        vec![None, Some(Expr::AutNum(64500, Op::None)), Some(Expr::Any)],
                    )];
                    return mk(
                        Runner::Lib,
                        db,
                        vec![
                            item("p0", Expr::FilterSet("FLTR-F0".into())),
                            item("p1", Expr::AutNum(64501, Op::None)),
                            item("p2", Expr::FilterSet("FLTR-F0".into())),
                        ],
                    );
                }
                2 => {
                    // a long history of FAILED evaluations, each of which followed filter-set references
                    // before it failed, then an expression that is fine on a fresh evaluator: whatever
                    // is counted or cached per evaluation must not be carried over from failures
                    let db = small_db();
                    let f0 = || Expr::FilterSet("FLTR-F0".into());
                    let failing = Expr::And(
                        Box::new(Expr::And(Box::new(f0()), Box::new(f0()))),
                        Box::new(Expr::AsSet("AS-MISSING".into(), Op::None)),
                    );
                    let mut items: Vec<Item> = (0..70).map(|i| item(&format!("p{i}"), failing.clone())).collect();
                    items.push(item("p70", f0()));
                    items.push(item("p71", Expr::And(Box::new(f0()), Box::new(Expr::AutNum(64500, Op::None)))));
                    return mk(Runner::Lib, db, items);
                }
                3 | 4 => {
                    // … and a long history of PANICKING evaluations (the rpsl crate's `todo!()` for
                    // AS-path regexps / attribute matches, which the agent contains with catch_unwind and
                    // then goes on with the same evaluator), each after following filter-set references;
                    // then a chain of filter-sets that is fine on a fresh evaluator
                    let mut db = small_db();
                    let depth = 4usize; // within the model's fuel
                    db.filter_sets = (0..depth)
                        .map(|i| {
                            (
                                format!("FLTR-C{i}"),
                                vec![Some(if i + 1 < depth {
                                    Expr::FilterSet(format!("FLTR-C{}", i + 1))
                                } else {
                                    Expr::AutNum(64500, Op::None)
                                })],
                            )
                        })
                        .collect();
                    let c0 = || Expr::FilterSet("FLTR-C0".into());
                    let bad = if idx == 3 { Expr::AsPath } else { Expr::Attr };
                    let failing = Expr::And(Box::new(c0()), Box::new(bad));
                    let mut items: Vec<Item> = (0..45).map(|i| item(&format!("p{i}"), failing.clone())).collect();
                    items.push(item("p45", c0()));
                    items.push(item("p46", failing.clone()));
                    items.push(item("p47", Expr::And(Box::new(c0()), Box::new(Expr::AutNum(64500, Op::None)))));
                    return mk(Runner::Lib, db, items);
                }
                _ => {}
            }
            let g = GenOpts {
                ranged_members: false,
                unknown_names: true,
                short: idx % 2 == 1,
                junk_members: idx % 3 == 1,
            };
            let db = gen_db(&mut rng, &g);
            let names = names_of(&db, g.short);
            let k = 2 + rng.below(7);
            let mut items: Vec<Item> = vec![];
            for i in 0..k {
                // repeat an earlier expression now and then: same expression, different history
                let e = if i > 0 && rng.chance(1, 3) {
                    items[rng.below(i)].expr.clone()
                } else {
                    gen_expr(&mut rng, &names, 2, true, false)
                };
                let faults = gen_faults(&mut rng, &db, &e, false);
                items.push(Item {
                    name: format!("p{i}"),
                    expr: e,
                    faults,
                });
            }
            mk(Runner::Lib, db, items)
        }
        "c15" => {
            let s0 = || Expr::AsSet("AS-S0".into(), Op::None);
            match idx {
                0 => {
                    return mk(
                        Runner::Agent,
                        small_db(),
                        vec![item("p0", s0()), item("p1", Expr::PeerAs(Op::None))],
                    )
                }
                1 => {
                    return mk(
                        Runner::Agent,
                        small_db(),
                        vec![item("p0", s0()), item("p1", Expr::AsPath)],
                    )
                }
                2 => {
                    return mk(
                        Runner::Agent,
                        small_db(),
                        vec![item("p0", s0()), item("p1", Expr::Attr)],
                    )
                }
                3 => {
                    return mk(
                        Runner::Agent,
                        small_db(),
                        vec![
                            item("p0", s0()),
                            item("p1", Expr::AsSet("AS-UNKNOWN".into(), Op::None)),
                            item("p2", Expr::AutNum(64501, Op::None)),
                        ],
                    )
                }
                4 => {
                    return mk(
                        Runner::Lib,
                        small_db(),
                        vec![
                            item("p0", s0()),
                            item("p1", Expr::PeerAs(Op::None)),
                            item("p2", s0()),
                        ],
                    )
                }
                5 => {
                    return mk(
                        Runner::Lib,
                        small_db(),
                        vec![
                            item("p0", Expr::And(Box::new(s0()), Box::new(Expr::AsPath))),
                            item("p1", s0()),
                        ],
                    )
                }
                6 => {
                    let f = vec![Fault {
                        sel: FSel::Query("aAS-S0".into()),
                        kind: 'F',
                    }];
                    return mk(
                        Runner::Agent,
                        small_db(),
                        vec![
                            Item {
                                name: "p0".into(),
                                expr: s0(),
                                faults: f.clone(),
                            },
                            Item {
                                name: "p1".into(),
                                expr: Expr::AutNum(64500, Op::None),
                                faults: f,
                            },
                        ],
                    );
                }
                _ => {}
            }
            let g = GenOpts {
                ranged_members: false,
                unknown_names: true,
                short: idx % 2 == 1,
                junk_members: idx % 3 == 1,
            };
            let db = gen_db(&mut rng, &g);
            let names = names_of(&db, g.short);
            let runner = if idx % 4 == 3 {
                Runner::Lib
            } else {
                Runner::Agent
            };
            let k = 2 + rng.below(3);
            let unsupported_in_set = rng.chance(3, 5);
            let mut items: Vec<Item> = (0..k)
                .map(|i| {
                    let uns = unsupported_in_set && rng.chance(1, 2);
                    item(&format!("p{i}"), gen_expr(&mut rng, &names, 2, true, uns))
                })
                .collect();
            // IRRd error answers, selected by query text (independent of the evaluation order)
            if rng.chance(1, 2) {
                let all = Expr::Or(
                    Box::new(items[0].expr.clone()),
                    Box::new(items[items.len() - 1].expr.clone()),
                );
                let fs = gen_faults(&mut rng, &db, &all, true);
                for it in items.iter_mut() {
                    it.faults = fs.clone();
                }
            }
            mk(runner, db, items)
        }
        "c03" => {
            // several managed policies of one run share an as-set whose expansion fails (IRRd answers
            // D / E / F, or the set does not exist); the others are ordinary
            let g = GenOpts {
                ranged_members: false,
                unknown_names: false,
                short: idx % 2 == 1,
                junk_members: idx % 3 == 1,
            };
            if idx == 13 {
                // a managed policy whose expression names a route-set the IRR does not know (the
                // members query is answered `D`): its prefix data cannot be obtained
                let db = small_db();
                let items = vec![
                    item("p0", Expr::RouteSet("RS-GONE".into(), Op::None)),
                    item("p1", Expr::AutNum(64501, Op::None)),
                ];
                return mk(Runner::Agent, db, items);
            }
            if idx == 7 || idx == 11 {
                // hundreds of policies of one run whose evaluation fails AFTER following filter-set
                // references (the IRR still serves the filter-sets but answers the as-set query with an
                // error), then some that are fine: whatever an evaluator counts or caches while it
                // follows references must not turn a later failure into an (empty) result
                let mut db = small_db();
                let depth = if idx == 7 { 1usize } else { 4 };
                db.filter_sets = (0..depth)
                    .map(|i| {
                        (
                            format!("FLTR-C{i}"),
                            vec![Some(if i + 1 < depth {
                                Expr::FilterSet(format!("FLTR-C{}", i + 1))
                            } else {
                                Expr::AsSet("AS-S0".into(), Op::None)
                            })],
                        )
                    })
                    .collect();
                let n = if idx == 7 { 300 } else { 60 };
                let mut items: Vec<Item> = (0..n)
                    .map(|i| Item {
                        name: format!("p{i}"),
                        expr: Expr::FilterSet("FLTR-C0".into()),
                        faults: vec![],
                    })
                    .collect();
                items.push(item(&format!("p{n}"), Expr::AutNum(64501, Op::None)));
                let f = vec![Fault {
                    sel: FSel::Query("aAS-S0".into()),
                    kind: if idx == 7 { 'D' } else { 'F' },
                }];
                for it in items.iter_mut() {
                    it.faults = f.clone();
                }
                return mk(Runner::Agent, db, items);
            }
            let mut db = if idx % 3 == 0 {
                small_db()
            } else {
                gen_db(&mut rng, &g)
            };
            if db.as_sets.is_empty() {
                db = small_db();
            }
            let names = names_of(&db, g.short);
            let gone = idx % 4 == 1;
            let shared = if gone {
                "AS-GONE".to_string()
            } else {
                rng.pick(&db.as_sets).0.clone()
            };
            let s = || Expr::AsSet(shared.clone(), Op::None);
            let k = 2 + rng.below(3);
            let mut items: Vec<Item> = vec![];
            for i in 0..k {
                let e = if i < 2 || rng.chance(1, 3) {
                    match rng.below(4) {
                        0 | 1 => s(),
                        2 => Expr::Or(Box::new(s()), Box::new(gen_lit(&mut rng, g.short))),
                        _ => Expr::And(Box::new(gen_lit(&mut rng, g.short)), Box::new(s())),
                    }
                } else {
                    // no NOT here: complementing is exponential in the prefix length (known finding of C11)
                    let mut e = gen_expr(&mut rng, &names, 2, false, false);
                    for _ in 0..8 {
                        let mut has_not = false;
                        e.walk(&mut |x| has_not |= matches!(x, Expr::Not(_)));
                        if !has_not {
                            break;
                        }
                        e = gen_expr(&mut rng, &names, 1, false, false);
                    }
                    let mut has_not = false;
                    e.walk(&mut |x| has_not |= matches!(x, Expr::Not(_)));
                    if has_not {
                        gen_lit(&mut rng, g.short)
                    } else {
                        e
                    }
                };
                items.push(item(&format!("p{i}"), e));
            }
            rng.shuffle(&mut items);
            if idx % 20 == 3 {
                // a SLOW server (one answer takes seconds — 62 s in the thorough tier): nothing is wrong,
                // every candidate must still be evaluated; the model sees no fault at all
                let f = vec![Fault { sel: FSel::Idx(0), kind: 'Z' }];
                for it in items.iter_mut() {
                    it.faults = f.clone();
                }
            } else if idx % 5 == 2 {
                // the server turns bad at the k-th query of the run: everything from then on is answered
                // with a line that is no IRRd response (model-free verdict, see main)
                let f = vec![Fault { sel: FSel::Idx(rng.below(6)), kind: 'X' }];
                for it in items.iter_mut() {
                    it.faults = f.clone();
                }
            } else if !gone {
                let kind = *rng.pick(&['D', 'E', 'F']);
                let f = vec![Fault {
                    sel: FSel::Query(format!("a{shared}")),
                    kind,
                }];
                for it in items.iter_mut() {
                    it.faults = f.clone();
                }
            }
            mk(Runner::Agent, db, items)
        }
        _ => panic!("unknown family {family}"),
    }
}

/// an unparenthesised operator sequence `[NOT]* a0 (AND|OR) [NOT]* a1 …` (operator precedence)
#[derive(Clone, Debug)]
pub struct FlatCase {
    pub seed: u64,
    pub idx: usize,
    pub db: Db,
    pub first: (usize, Expr),
    pub rest: Vec<(bool /* AND */, usize, Expr)>,
}

impl FlatCase {
    fn tok(&self) -> String {
        let mut v = vec![format!("{}:{}", self.first.0, self.first.1.hex())];
        for (and, k, e) in &self.rest {
            v.push(format!("{}:{k}:{}", if *and { "A" } else { "O" }, e.hex()));
        }
        v.join(",")
    }
    fn human(&self) -> String {
        let mut s = format!("{}{}", "NOT ".repeat(self.first.0), self.first.1.rpn());
        for (and, k, e) in &self.rest {
            s.push_str(&format!(
                " {} {}{}",
                if *and { "AND" } else { "OR" },
                "NOT ".repeat(*k),
                e.rpn()
            ));
        }
        s
    }
    pub fn descr(&self) -> String {
        format!(
            "c11p/{}/{} lib db={} seq={}",
            self.seed,
            self.idx,
            self.db.tok(),
            self.human()
        )
    }
    /// the same data as an ordinary case (for probes and the response table)
    fn as_case(&self) -> Case {
        let mut items = vec![item("a0", self.first.1.clone())];
        for (i, (_, _, e)) in self.rest.iter().enumerate() {
            items.push(item(&format!("a{}", i + 1), e.clone()));
        }
        Case {
            family: "c11p".into(),
            seed: self.seed,
            idx: self.idx,
            runner: Runner::Lib,
            db: self.db.clone(),
            items,
        }
    }
}

pub fn gen_flat(seed: u64, idx: usize) -> FlatCase {
    let lit = |s: &str| Expr::Lit(vec![(p(s), Op::None)], Op::None);
    match idx {
        0 => {
            return FlatCase {
                seed,
                idx,
                db: small_db(),
                first: (0, lit("10.0.0.0/8")),
                rest: vec![(true, 0, lit("11.0.0.0/8")), (false, 0, lit("12.0.0.0/8"))],
            }
        }
        1 => {
            return FlatCase {
                seed,
                idx,
                db: small_db(),
                first: (1, lit("10.0.0.0/8")),
                rest: vec![(true, 0, lit("10.0.0.0/8"))],
            }
        }
        2 => {
            return FlatCase {
                seed,
                idx,
                db: small_db(),
                first: (0, Expr::AsSet("AS-S0".into(), Op::None)),
                rest: vec![
                    (true, 0, Expr::AutNum(64501, Op::None)),
                    (false, 0, Expr::RouteSet("RS-R0".into(), Op::None)),
                ],
            }
        }
        _ => {}
    }
    let mut rng = case_rng(seed, "c11p", idx);
    let short = idx % 2 == 1;
    let db = gen_db(
        &mut rng,
        &GenOpts {
            ranged_members: false,
            unknown_names: false,
            short,
            junk_members: idx % 3 == 1,
        },
    );
    let names = names_of(&db, short);
    let mut nots = |rng: &mut Rng| {
        if short && rng.chance(1, 3) {
            1 + rng.below(2)
        } else {
            0
        }
    };
    let first = (nots(&mut rng), gen_atom(&mut rng, &names, false, false));
    let k = 1 + rng.below(3);
    let rest = (0..k)
        .map(|_| {
            (
                rng.chance(1, 2),
                nots(&mut rng),
                gen_atom(&mut rng, &names, false, false),
            )
        })
        .collect();
    FlatCase {
        seed,
        idx,
        db,
        first,
        rest,
    }
}

// ---------------------------------------------------------------------------------------------
// probes
// ---------------------------------------------------------------------------------------------

fn mentioned(case: &Case) -> (Vec<Pfx>, Vec<u8>) {
    let mut ps: Vec<Pfx> = vec![];
    let mut bounds: Vec<u8> = vec![];
    fn from_expr(e: &Expr, ps: &mut Vec<Pfx>, bounds: &mut Vec<u8>) {
        e.walk(&mut |x| match x {
            Expr::Lit(ms, op) => {
                for (p, o) in ms {
                    ps.push(p.clone());
                    bounds.extend(o.bounds());
                }
                bounds.extend(op.bounds());
            }
            Expr::AsSet(_, op)
            | Expr::RouteSet(_, op)
            | Expr::AutNum(_, op)
            | Expr::RsAny(op)
            | Expr::AsAny(op)
            | Expr::PeerAs(op) => bounds.extend(op.bounds()),
            _ => {}
        });
    }
    for (_, v) in &case.db.routes {
        ps.extend(v.iter().cloned());
    }
    for (_, ms) in &case.db.route_sets {
        for m in ms {
            if let RsMem::Pfx(p, o) = m {
                ps.push(p.clone());
                bounds.extend(o.bounds());
            }
        }
    }
    for (_, os) in &case.db.filter_sets {
        for o in os.iter().flatten() {
            from_expr(o, &mut ps, &mut bounds);
        }
    }
    for it in &case.items {
        from_expr(&it.expr, &mut ps, &mut bounds);
    }
    (ps, bounds)
}

pub fn probes(case: &Case) -> Vec<Pfx> {
    let (ps, bounds) = mentioned(case);
    let mut set: BTreeSet<Pfx> = BTreeSet::new();
    let mut add = |q: Option<Pfx>| {
        if let Some(q) = q {
            set.insert(q);
        }
    };
    for p in &ps {
        add(Some(p.clone()));
        if p.len > 0 {
            add(Some(p.trunc(p.len - 1))); // parent
            let mut sib = p.clone();
            sib.bits ^= 1;
            add(Some(sib)); // sibling
        }
        add(p.desc(p.len + 1, false)); // children
        add(p.desc(p.len.saturating_add(1), true));
        add(p.desc(p.len.saturating_add(2), true));
        let mut ls: Vec<u8> = vec![p.max(), p.max() - 1];
        for &b in &bounds {
            ls.extend([b.saturating_sub(1), b, b.saturating_add(1)]);
        }
        for l in ls {
            add(p.desc(l, false));
            add(p.desc(l, true));
            if l < p.len {
                add(Some(p.trunc(l)));
            }
        }
    }
    for s in [
        "8.0.0.0/8",
        "0.0.0.0/0",
        "0.0.0.0/1",
        "2001:db9::/32",
        "::/0",
        "8000::/1",
    ] {
        add(Some(p(s)));
    }
    let mut v: Vec<Pfx> = set.into_iter().collect();
    // keep the line size bounded: the mentioned prefixes and their close relatives come first
    if v.len() > 400 {
        let keep: BTreeSet<Pfx> = ps.iter().cloned().collect();
        v.sort_by_key(|q| (!keep.contains(q), q.len, q.bits));
        v.truncate(400);
        v.sort();
    }
    v
}

fn probes_tok(ps: &[Pfx]) -> String {
    if ps.is_empty() {
        ".".into()
    } else {
        ps.iter().map(|p| p.tok()).collect::<Vec<_>>().join(",")
    }
}

/// `192.0.2.0/24^24-32`
fn parse_range(s: &str) -> Option<(Pfx, u8, u8)> {
    let (pf, lens) = s.split_once('^')?;
    let (lo, hi) = lens.split_once('-')?;
    Some((Pfx::from_text(pf)?, lo.parse().ok()?, hi.parse().ok()?))
}

fn bits_of(ranges: &[(Pfx, u8, u8)], probes: &[Pfx]) -> String {
    if probes.is_empty() {
        return "-".into();
    }
    probes
        .iter()
        .map(|q| {
            if ranges
                .iter()
                .any(|(p, lo, hi)| p.covers(q) && *lo <= q.len && q.len <= *hi)
            {
                '1'
            } else {
                '0'
            }
        })
        .collect()
}

// ---------------------------------------------------------------------------------------------
// modeld
// ---------------------------------------------------------------------------------------------

fn modeld_path() -> String {
    std::env::var("MODELD").unwrap_or_else(|_| "lean/.lake/build/bin/modeld".into())
}

pub fn modeld(lines: &[String]) -> Vec<String> {
    if lines.is_empty() {
        return vec![];
    }
    let mut child = Command::new(modeld_path())
        .stdin(Stdio::piped())
        .stdout(Stdio::piped())
        .spawn()
        .expect("spawn modeld");
    let mut stdin = child.stdin.take().unwrap();
    let input = lines.join("\n") + "\n";
    let w = std::thread::spawn(move || {
        let _ = stdin.write_all(input.as_bytes());
    });
    let out = child.wait_with_output().expect("modeld output");
    let _ = w.join();
    let text = String::from_utf8_lossy(&out.stdout).to_string();
    let mut v: Vec<String> = text.lines().map(|s| s.to_string()).collect();
    while v.len() < lines.len() {
        v.push("<no-answer>".into());
    }
    v
}

/// every query that can occur for this case
fn all_queries(case: &Case) -> Vec<String> {
    let mut as_names: BTreeSet<String> = BTreeSet::new();
    let mut rs_names: BTreeSet<String> = BTreeSet::new();
    let mut fs_names: BTreeSet<String> = BTreeSet::new();
    let mut asns: BTreeSet<u32> = BTreeSet::new();
    fn from_expr(
        e: &Expr,
        a: &mut BTreeSet<String>,
        r: &mut BTreeSet<String>,
        f: &mut BTreeSet<String>,
        n: &mut BTreeSet<u32>,
    ) {
        e.walk(&mut |x| match x {
            Expr::AsSet(s, _) => {
                a.insert(s.clone());
            }
            Expr::RouteSet(s, _) => {
                r.insert(s.clone());
            }
            Expr::FilterSet(s) => {
                f.insert(s.clone());
            }
            Expr::AutNum(x, _) => {
                n.insert(*x);
            }
            _ => {}
        });
    }
    let db = &case.db;
    for (n, ms) in &db.as_sets {
        as_names.insert(n.clone());
        for m in ms {
            match m {
                AsMem::Asn(a) => {
                    asns.insert(*a);
                }
                AsMem::Set(s) => {
                    as_names.insert(s.clone());
                }
            }
        }
    }
    for (n, ms) in &db.route_sets {
        rs_names.insert(n.clone());
        for m in ms {
            match m {
                RsMem::Asn(a) => {
                    asns.insert(*a);
                }
                RsMem::Set(s) => {
                    rs_names.insert(s.clone());
                }
                _ => {}
            }
        }
    }
    for (a, _) in &db.routes {
        asns.insert(*a);
    }
    for (n, os) in &db.filter_sets {
        fs_names.insert(n.clone());
        for o in os.iter().flatten() {
            from_expr(o, &mut as_names, &mut rs_names, &mut fs_names, &mut asns);
        }
    }
    for it in &case.items {
        from_expr(
            &it.expr,
            &mut as_names,
            &mut rs_names,
            &mut fs_names,
            &mut asns,
        );
    }
    let mut v = vec![];
    v.extend(as_names.iter().map(|n| format!("a{n}")));
    v.extend(rs_names.iter().map(|n| format!("r{n}")));
    v.extend(fs_names.iter().map(|n| format!("m{n}")));
    for a in asns {
        v.push(format!("g{a}"));
        v.push(format!("6{a}"));
    }
    v
}

// ---------------------------------------------------------------------------------------------
// running the real code
// ---------------------------------------------------------------------------------------------

thread_local! {
    static LAST_PANIC: std::cell::RefCell<String> = const { std::cell::RefCell::new(String::new()) };
}

fn install_panic_hook() {
    std::panic::set_hook(Box::new(|info| {
        let msg = if let Some(s) = info.payload().downcast_ref::<&str>() {
            s.to_string()
        } else if let Some(s) = info.payload().downcast_ref::<String>() {
            s.clone()
        } else {
            "?".into()
        };
        if std::env::var("VH_DEBUG").is_ok() {
            eprintln!("panic: {msg} at {:?}", info.location());
        }
        LAST_PANIC.with(|c| *c.borrow_mut() = msg);
    }));
}

fn panic_kind(msg: &str) -> &'static str {
    if msg.contains("AS-path regexp") {
        "aspath-regex"
    } else if msg.contains("action match") {
        "attr-match"
    } else if msg.contains("not implemented") {
        "peeras"
    } else {
        "other"
    }
}

fn err_kind(text: &str) -> &'static str {
    if text.contains("KeyNotFound") || text.contains("primary key queried for did not exist") {
        "D"
    } else if text.contains("KeyNotUnique") || text.contains("multiple copies of the key") {
        "E"
    } else if text.contains("Other(") || text.contains("the query was invalid") {
        "F"
    } else if text.contains("AcquireConnection")
        || text.contains("failed to acquire the connection")
    {
        "acquire"
    } else if text.contains("Dequeue") || text.contains("failed to dequeue") {
        "dequeue"
    } else if text.contains("PeerAS") || text.contains("PeerAs") {
        "unsupported"
    } else {
        "other"
    }
}

fn error_chain(e: &(dyn std::error::Error + 'static)) -> String {
    let mut s = format!("{e:?} | {e}");
    let mut cur = e.source();
    while let Some(c) = cur {
        s.push_str(&format!(" | {c:?} | {c}"));
        cur = c.source();
    }
    s
}

fn log_tok(log: &[(String, Vec<u8>)]) -> String {
    if log.is_empty() {
        return ".".into();
    }
    log.iter()
        .map(|(q, r)| {
            format!(
                "{}:{}",
                qtok(q),
                r.first().map(|b| *b as char).unwrap_or('?')
            )
        })
        .collect::<Vec<_>>()
        .join(",")
}

/// one `evaluate` on an existing evaluator → outcome token
fn eval_once(ev: &mut bgpfu::RpslEvaluator, text: &str, probes: &[Pfx]) -> String {
    let expr: rpsl::expr::MpFilterExpr = match text.parse() {
        Ok(e) => e,
        Err(e) => return format!("parse-error={}", hexs(&format!("{e}"))),
    };
    LAST_PANIC.with(|c| c.borrow_mut().clear());
    let r = catch_unwind(AssertUnwindSafe(|| ev.evaluate(expr)));
    match r {
        Ok(Ok(set)) => {
            let ranges: Vec<(Pfx, u8, u8)> = set
                .ranges()
                .filter_map(|r| parse_range(&r.to_string()))
                .collect();
            let n = set.ranges().count();
            if n != ranges.len() {
                return "unparsable-range".into();
            }
            format!("ok={}", bits_of(&ranges, probes))
        }
        Ok(Err(e)) => format!("err={}", err_kind(&error_chain(&e))),
        Err(_) => format!(
            "panic={}",
            panic_kind(&LAST_PANIC.with(|c| c.borrow().clone()))
        ),
    }
}

#[derive(Default, Debug)]
pub struct Obs {
    /// per item: `<outcome>/<log>`
    pub hist: Vec<String>,
    /// per item, on a fresh evaluator: outcome only
    pub fresh: Vec<String>,
    /// agent runner: `done …` | `panic=…` | `error=…`
    pub run: String,
    pub unexpected: Vec<String>,
    pub note: String,
    /// family c03: names of the policy-statements the planned loads touch (or the plan's error)
    pub touched: Option<Result<Vec<String>, String>>,
}

/// the policy-statement names a list of load payloads touches
fn touched_names(payloads: &[String]) -> Vec<String> {
    let mut v = vec![];
    for p in payloads {
        let mut rest = p.as_str();
        while let Some(i) = rest.find("<policy-statement") {
            rest = &rest[i..];
            let Some(a) = rest.find("<name>") else { break };
            let Some(b) = rest[a..].find("</name>") else {
                break;
            };
            v.push(rest[a + 6..a + b].to_string());
            rest = &rest[a + b..];
        }
    }
    v.sort();
    v.dedup();
    v
}

fn run_lib(case: &Case, fake: &FakeIrrd, texts: &[String], probes: &[Pfx]) -> Obs {
    let mut obs = Obs::default();
    let mut ev = match bgpfu::RpslEvaluator::new("127.0.0.1", fake.port) {
        Ok(e) => e,
        Err(e) => {
            obs.note = format!("connect: {e}");
            return obs;
        }
    };
    for (it, text) in case.items.iter().zip(texts) {
        let start = fake.begin(fake_faults(&it.faults));
        let o = eval_once(&mut ev, text, probes);
        let log = fake.log_from(start);
        obs.hist.push(format!("{o}/{}", log_tok(&log)));
    }
    drop(ev);
    for (it, text) in case.items.iter().zip(texts) {
        let mut ev = match bgpfu::RpslEvaluator::new("127.0.0.1", fake.port) {
            Ok(e) => e,
            Err(e) => {
                obs.note = format!("connect: {e}");
                return obs;
            }
        };
        let _ = fake.begin(fake_faults(&it.faults));
        obs.fresh.push(eval_once(&mut ev, text, probes));
    }
    obs.unexpected = fake.unexpected();
    obs
}

fn bgpfu_bin() -> String {
    std::env::var("BGPFU_BIN").unwrap_or_else(|_| "repo-target/debug/bgpfu".into())
}

fn run_bin(case: &Case, fake: &FakeIrrd, texts: &[String], probes: &[Pfx]) -> Obs {
    let mut obs = Obs::default();
    for (it, text) in case.items.iter().zip(texts) {
        let start = fake.begin(fake_faults(&it.faults));
        let mut child = match Command::new(bgpfu_bin())
            .args(["-H", "127.0.0.1", "-P", &fake.port.to_string(), "--", text])
            .stdin(Stdio::null())
            .stdout(Stdio::piped())
            .stderr(Stdio::piped())
            .spawn()
        {
            Ok(c) => c,
            Err(e) => {
                obs.note = format!("spawn {}: {e}", bgpfu_bin());
                return obs;
            }
        };
        let t0 = Instant::now();
        let status = loop {
            match child.try_wait() {
                Ok(Some(s)) => break Some(s),
                Ok(None) => {
                    if t0.elapsed() > Duration::from_secs(20) {
                        let _ = child.kill();
                        break None;
                    }
                    std::thread::sleep(Duration::from_millis(2));
                }
                Err(_) => break None,
            }
        };
        let out = child.wait_with_output().ok();
        let (stdout, stderr) = out
            .map(|o| {
                (
                    String::from_utf8_lossy(&o.stdout).to_string(),
                    String::from_utf8_lossy(&o.stderr).to_string(),
                )
            })
            .unwrap_or_default();
        let o = match status {
            None => "hang".to_string(),
            Some(s) if s.success() => {
                let lines: Vec<&str> = stdout.lines().filter(|l| !l.trim().is_empty()).collect();
                let ranges: Vec<(Pfx, u8, u8)> =
                    lines.iter().filter_map(|l| parse_range(l.trim())).collect();
                if ranges.len() != lines.len() {
                    "unparsable-range".into()
                } else {
                    format!("ok={}", bits_of(&ranges, probes))
                }
            }
            Some(_) => {
                if stderr.contains("panicked at") {
                    format!("panic={}", panic_kind(&stderr))
                } else {
                    format!("err={}", err_kind(&stderr))
                }
            }
        };
        // give the server thread time to log the last exchange (the client has exited: all answers were read)
        let log = fake.log_from(start);
        obs.hist.push(format!("{o}/{}", log_tok(&log)));
    }
    obs.unexpected = fake.unexpected();
    obs
}

fn run_agent(case: &Case, fake: &FakeIrrd, texts: &[String], probes: &[Pfx]) -> Obs {
    let mut obs = Obs::default();
    let cands: Vec<(String, String)> = case
        .items
        .iter()
        .zip(texts)
        .map(|(i, t)| (i.name.clone(), t.clone()))
        .collect();
    let faults = case
        .items
        .first()
        .map(|i| fake_faults(&i.faults))
        .unwrap_or_default();
    let _ = fake.begin(faults);
    LAST_PANIC.with(|c| c.borrow_mut().clear());
    let port = fake.port;
    let r = catch_unwind(AssertUnwindSafe(|| {
        agent::verif::evaluate(&cands, "127.0.0.1", port)
    }));
    obs.run = match r {
        Ok(Ok(v)) => {
            let outs: Vec<String> = v
                .iter()
                .map(|(n, _, r)| match r {
                    None => format!("{n}=none"),
                    Some((v4, v6)) => {
                        let mut ranges = vec![];
                        let mut bad = false;
                        for s in v4.iter().chain(v6.iter()) {
                            match parse_range(s) {
                                Some(x) => ranges.push(x),
                                None => bad = true,
                            }
                        }
                        // a range listed under the wrong family would be a partition error
                        if v4.iter().any(|s| s.contains(':')) || v6.iter().any(|s| !s.contains(':'))
                        {
                            bad = true;
                        }
                        if bad {
                            format!("{n}=unparsable")
                        } else {
                            format!("{n}={}", bits_of(&ranges, probes))
                        }
                    }
                })
                .collect();
            if case.family == "c03" {
                // every candidate is installed (with ranges no evaluation here yields), plus one
                // policy that is not managed: what does the run load?
                use crate::plan::{real_plan, JPolicy, JTerm, Range};
                let r4 = Range {
                    v6: false,
                    addr: u32::from_be_bytes([203, 0, 113, 0]) as u128,
                    len: 25,
                    lo: 25,
                    hi: 32,
                };
                let r6 = Range {
                    v6: true,
                    addr: 0x2001_0db8_ffff_0000_0000_0000_0000_0000u128,
                    len: 48,
                    lo: 48,
                    hi: 128,
                };
                let pol = |name: &str| JPolicy {
                    name: name.into(),
                    comment: None,
                    terms: vec![
                        JTerm {
                            name: "inet".into(),
                            family: Some("inet".into()),
                            filters: vec![r4.clone()],
                            accept: true,
                        },
                        JTerm {
                            name: "inet6".into(),
                            family: Some("inet6".into()),
                            filters: vec![r6.clone()],
                            accept: true,
                        },
                    ],
                    reject: true,
                };
                let mut cfg: Vec<JPolicy> = case.items.iter().map(|i| pol(&i.name)).collect();
                cfg.push(pol("stale"));
                // the facade takes ranges in `FromStr` syntax, `evaluate` shows them in `Display` syntax
                let conv = |v: &[String], six: bool| -> Vec<String> {
                    v.iter()
                        .map(|s| {
                            crate::plan::parse_display(s, six)
                                .map(|r| crate::plan::fromstr_syntax(&r))
                                .unwrap_or_else(|| s.clone())
                        })
                        .collect()
                };
                let ev: Vec<_> = v
                    .iter()
                    .map(|(n, e, r)| {
                        (
                            n.clone(),
                            e.clone(),
                            r.as_ref().map(|(a, b)| (conv(a, false), conv(b, true))),
                        )
                    })
                    .collect();
                obs.touched = Some(real_plan(&cfg, &ev).map(|p| touched_names(&p)));
            }
            format!(
                "done {}",
                if outs.is_empty() {
                    ".".into()
                } else {
                    outs.join(",")
                }
            )
        }
        Ok(Err(e)) => format!("error={}", hexs(&e)),
        Err(_) => format!(
            "panic={}",
            panic_kind(&LAST_PANIC.with(|c| c.borrow().clone()))
        ),
    };
    obs.unexpected = fake.unexpected();
    obs
}

// ---------------------------------------------------------------------------------------------
// main
// ---------------------------------------------------------------------------------------------

fn build_bgpfu(sink: &mut Sink) -> bool {
    if std::env::var("BGPFU_BIN").is_ok() {
        return true;
    }
    let st = Command::new("cargo")
        .args([
            "build",
            "--offline",
            "-q",
            "-p",
            "bgpfu-cli",
            "--manifest-path",
            "/repo/Cargo.toml",
            "--target-dir",
            "repo-target",
        ])
        .env("CARGO_NET_OFFLINE", "true")
        .env_remove("RUSTFLAGS")
        .env_remove("CARGO_ENCODED_RUSTFLAGS")
        .stderr(Stdio::piped())
        .stdout(Stdio::null())
        .output();
    match st {
        Ok(o) if o.status.success() => true,
        Ok(o) => {
            sink.notes.push(format!(
                "building the bgpfu binary failed: {}",
                String::from_utf8_lossy(&o.stderr)
                    .chars()
                    .take(400)
                    .collect::<String>()
            ));
            false
        }
        Err(e) => {
            sink.notes.push(format!("cargo: {e}"));
            false
        }
    }
}

pub fn main(opts: &Opts) {
    let family = opts
        .extra
        .iter()
        .find(|e| ["c11", "c17", "c15", "c03"].contains(&e.as_str()))
        .cloned()
        .unwrap_or_else(|| "c11".into());
    let cfg = opts
        .extra
        .iter()
        .find(|e| {
            *e == "fixed"
                || *e == "pinned"
                || (e.starts_with('c')
                    && e.len() == 4
                    && e[1..].chars().all(|c| c == '0' || c == '1'))
        })
        .cloned()
        .unwrap_or_else(|| "fixed".into());
    let mut sink = Sink::new();
    let t0 = Instant::now();
    if opts.extra.first().map(|s| s.as_str()) == Some("exprtime") {
        // debugging aid: time the evaluation of literal expressions (no IRR data)
        let fake = FakeIrrd::start(HashMap::new());
        for text in &opts.extra[1..] {
            let mut ev = bgpfu::RpslEvaluator::new("127.0.0.1", fake.port).unwrap();
            let t = Instant::now();
            let expr: rpsl::expr::MpFilterExpr = text.parse().unwrap();
            let r = ev
                .evaluate(expr)
                .map(|s| s.ranges().map(|r| r.to_string()).collect::<Vec<_>>());
            println!(
                "{text} -> {:?} in {:?}",
                r.map(|v| (v.len(), v.into_iter().take(6).collect::<Vec<_>>())),
                t.elapsed()
            );
        }
        return;
    }
    if opts.extra.first().map(|s| s.as_str()) == Some("objparse") {
        for f in &opts.extra[1..] {
            let text = std::fs::read_to_string(f).unwrap();
            println!("{:?}", text.parse::<rpsl::obj::RpslObject>());
        }
        return;
    }
    install_panic_hook();

    // cases
    let mut flats: Vec<FlatCase> = vec![];
    let mut cases: Vec<Case> = vec![];
    if let Some(path) = &opts.replay {
        for l in std::fs::read_to_string(path).unwrap().lines() {
            if let Some(d) = l.strip_prefix("case\t") {
                let head = d.split(['\t', ' ']).next().unwrap_or("");
                let parts: Vec<&str> = head.split('/').collect();
                if parts.len() == 3 {
                    if let (Ok(seed), Ok(idx)) =
                        (parts[1].parse::<u64>(), parts[2].parse::<usize>())
                    {
                        if ["c11", "c17", "c15", "c03"].contains(&parts[0]) {
                            cases.push(gen_case(parts[0], seed, idx));
                        }
                        if parts[0] == "c11p" {
                            flats.push(gen_flat(seed, idx));
                        }
                    }
                }
            }
        }
    } else {
        let n = match (family.as_str(), opts.thorough()) {
            ("c11", false) => 120,
            ("c11", true) => 900,
            ("c17", false) => 150,
            ("c17", true) => 1200,
            ("c15", false) => 120,
            ("c03", false) => 120,
            (_, _) => 900,
        };
        for idx in 0..n {
            cases.push(gen_case(&family, opts.seed, idx));
        }
        if family == "c11" {
            for idx in 0..(if opts.thorough() { 300 } else { 40 }) {
                flats.push(gen_flat(opts.seed, idx));
            }
        }
    }
    if std::env::var("VH_DEBUG").is_ok() {
        for c in &cases {
            eprintln!("case {}", c.descr());
        }
    }
    let have_bin = if cases.iter().any(|c| c.runner == Runner::Bin) {
        build_bgpfu(&mut sink)
    } else {
        true
    };

    // ask the model for every response table and every expression text, in one batch
    let mut lines: Vec<String> = vec![];
    let mut layout: Vec<(usize, usize, usize)> = vec![]; // (first line, n queries, n texts)
    let mut queries: Vec<Vec<String>> = vec![];
    for c in &cases {
        let qs = all_queries(c);
        let first = lines.len();
        let db = c.db.tok();
        for q in &qs {
            lines.push(format!("irr serve {db} {q}"));
        }
        for it in &c.items {
            lines.push(format!("irr text {}", it.expr.hex()));
        }
        layout.push((first, qs.len(), c.items.len()));
        queries.push(qs);
    }
    let answers = modeld(&lines);
    if std::env::var("VH_DEBUG").is_ok() {
        eprintln!("modeld answered {} lines", answers.len());
        for (l, a) in lines.iter().zip(&answers) {
            eprintln!(
                "  {l}\n   -> {}",
                unhex(a)
                    .map(|b| String::from_utf8_lossy(&b).to_string())
                    .unwrap_or(a.clone())
            );
        }
    }

    struct Job {
        case: Case,
        table: HashMap<String, Vec<u8>>,
        texts: Vec<String>,
        probes: Vec<Pfx>,
        bad_model: bool,
    }
    let mut jobs = vec![];
    for (i, c) in cases.iter().enumerate() {
        let (first, nq, nt) = layout[i];
        let mut table = HashMap::new();
        let mut bad_model = false;
        for (j, q) in queries[i].iter().enumerate() {
            match unhex(&answers[first + j]) {
                Some(bytes) => {
                    table.insert(qwire(q), bytes);
                }
                None => bad_model = true,
            }
        }
        let mut texts = vec![];
        for j in 0..nt {
            match unhex(&answers[first + nq + j]).and_then(|b| String::from_utf8(b).ok()) {
                Some(t) => texts.push(t),
                None => {
                    bad_model = true;
                    texts.push(String::new());
                }
            }
        }
        jobs.push(Job {
            probes: probes(c),
            case: c.clone(),
            table,
            texts,
            bad_model,
        });
    }

    // thread-level watchdog: an evaluation that never returns (a read loop that makes no progress)
    // is reported as that case; its thread is abandoned
    let meta: Vec<(Case, Vec<String>, Vec<Pfx>)> =
        jobs.iter().map(|j| (j.case.clone(), j.texts.clone(), j.probes.clone())).collect();
    crate::fakeirrd::SLOW_MS.store(if opts.thorough() { 62_000 } else { 3_000 }, std::sync::atomic::Ordering::Relaxed);
    let limit = std::time::Duration::from_secs(if opts.thorough() { 240 } else { 60 });
    let results = run_pool_watchdog_opt(jobs, 8, limit, 4, move |j: Job| {
        if j.bad_model {
            return (
                j.case,
                j.texts,
                j.probes,
                Obs {
                    note: "modeld rejected the case (bad-op)".into(),
                    ..Default::default()
                },
            );
        }
        let fake = FakeIrrd::start(j.table);
        let obs = match j.case.runner {
            Runner::Lib => run_lib(&j.case, &fake, &j.texts, &j.probes),
            Runner::Bin => {
                if have_bin {
                    run_bin(&j.case, &fake, &j.texts, &j.probes)
                } else {
                    Obs {
                        note: "no bgpfu binary".into(),
                        ..Default::default()
                    }
                }
            }
            Runner::Agent => run_agent(&j.case, &fake, &j.texts, &j.probes),
        };
        (j.case, j.texts, j.probes, obs)
    });
    let results: Vec<(Case, Vec<String>, Vec<Pfx>, Obs)> = results
        .into_iter()
        .zip(meta)
        .filter_map(|(r, (case, texts, probes))| match r {
            Ok(x) => Some(x),
            Err(Stuck::Timeout) => Some((
                case,
                texts,
                probes,
                Obs {
                    note: "evaluation did not return within 60s".into(),
                    ..Default::default()
                },
            )),
            Err(Stuck::Skipped) => None,
        })
        .collect();

    // family c03: the model's verdict on which candidates cannot be evaluated
    let c03_lines: Vec<String> = results
        .iter()
        .filter(|(c, ..)| c.family == "c03")
        .map(|(c, _, pr, _)| {
            format!(
                "irr evalall {cfg} {} {FUEL} {} {}",
                c.db.tok(),
                c.cands_tok(),
                probes_tok(pr)
            )
        })
        .collect();
    let mut c03_model = modeld(&c03_lines).into_iter();
    for (case, texts, probes, obs) in results {
        let d = case.descr();
        let db = case.db.tok();
        let pt = probes_tok(&probes);
        sink.count(&format!("runner.{:?}", case.runner));
        sink.count(&format!("items.{}", case.items.len()));
        sink.add("probes", probes.len() as u64);
        sink.add("expressions", case.items.len() as u64);
        if case.db.has_ranged_members() {
            sink.count("db.ranged_route_set_members");
        }
        if case.items.iter().any(|i| !i.faults.is_empty()) {
            sink.count("with_faults");
        }
        if case.items.iter().any(|i| i.expr.unsupported()) {
            sink.count("with_unsupported_construct");
        }
        if !obs.note.is_empty() {
            sink.direct(
                &d,
                format!(
                    "violation harness-{}",
                    obs.note
                        .replace(' ', "-")
                        .chars()
                        .take(60)
                        .collect::<String>()
                ),
            );
            continue;
        }
        if !obs.unexpected.is_empty() {
            sink.direct(
                &d,
                format!("violation unexpected-query-{}", hexs(&obs.unexpected[0])),
            );
        }
        match case.runner {
            Runner::Lib | Runner::Bin => {
                let impl_line = obs.hist.join(";");
                if case.runner == Runner::Lib {
                    sink.corr(
                        &d,
                        format!("irr evalseq {cfg} {db} {FUEL} {} {pt}", case.items_tok()),
                        impl_line.clone(),
                    );
                } else {
                    // one process (one connection, one evaluator) per expression
                    for (k, it) in case.items.iter().enumerate() {
                        let one = format!("{}*{}", it.expr.hex(), faults_tok(&it.faults));
                        sink.corr(
                            &d,
                            format!("irr evalseq {cfg} {db} {FUEL} {one} {pt}"),
                            obs.hist[k].clone(),
                        );
                    }
                }
                for (k, it) in case.items.iter().enumerate() {
                    let outcome = obs.hist[k].split('/').next().unwrap_or("").to_string();
                    sink.count(&format!(
                        "outcome.{}",
                        outcome.split('=').next().unwrap_or("")
                    ));
                    match case.family.as_str() {
                        "c11" => sink.spec(
                            &d,
                            format!("irr spec11 {db} {FUEL} {} {pt} {outcome}", it.expr.hex()),
                        ),
                        "c15" => {
                            // lib-level: the outcome of one expression, whatever was evaluated (or panicked) before
                            let cand =
                                format!("{}*{}*{}", it.name, it.expr.hex(), faults_tok(&it.faults));
                            let o = match outcome.split_once('=') {
                                Some(("ok", b)) => format!("done {}={b}", it.name),
                                Some(("err", _)) => format!("done {}=none", it.name),
                                _ => outcome.clone(),
                            };
                            if outcome == "panic=aspath-regex" || outcome == "panic=attr-match" {
                                // `todo!()` inside the rpsl crate, reached through the library API: not
                                // repairable in this repository at this level (the agent contains it
                                // per candidate); what matters here is that the evaluator survives it
                                // (spec17 below)
                                sink.count("lib_level_rpsl_todo_panic");
                            } else {
                                sink.spec(&d, format!("irr spec15 {db} {FUEL} {cand} {pt} {o}"));
                            }
                        }
                        _ => {}
                    }
                    let _ = texts;
                }
                if case.runner == Runner::Lib && (case.family == "c17" || case.family == "c15") {
                    let hist: Vec<String> = obs
                        .hist
                        .iter()
                        .map(|h| h.split('/').next().unwrap_or("").to_string())
                        .collect();
                    sink.spec(
                        &d,
                        format!("irr spec17 {} {}", hist.join(";"), obs.fresh.join(";")),
                    );
                }
                sink.sample(format!("{d} -> {impl_line}"));
            }
            Runner::Agent => {
                // which unsupported candidate is reached first depends on the HashMap's iteration order
                let canon = if obs.run.starts_with("panic=") {
                    "panic".to_string()
                } else {
                    obs.run.clone()
                };
                let turns_bad = case.items.iter().any(|i| i.faults.iter().any(|f| f.kind == 'X'));
                if !turns_bad {
                    sink.corr(
                        &d,
                        format!("irr evalall {cfg} {db} {FUEL} {} {pt}", case.cands_tok()),
                        canon,
                    );
                }
                sink.count(&format!(
                    "run.{}",
                    obs.run.split([' ', '=']).next().unwrap_or("")
                ));
                match case.family.as_str() {
                    "c11" => {
                        // per policy: the installed set is the denoted set
                        if let Some(rest) = obs.run.strip_prefix("done ") {
                            let outs: HashMap<&str, &str> =
                                rest.split(',').filter_map(|x| x.split_once('=')).collect();
                            for it in &case.items {
                                let o = outs.get(it.name.as_str()).copied().unwrap_or("missing");
                                let o = if o == "none" {
                                    "err=?".to_string()
                                } else {
                                    format!("ok={o}")
                                };
                                sink.spec(
                                    &d,
                                    format!("irr spec11 {db} {FUEL} {} {pt} {o}", it.expr.hex()),
                                );
                            }
                        } else {
                            sink.direct(
                                &d,
                                format!(
                                    "violation agent-evaluate-{}",
                                    obs.run.split(' ').next().unwrap_or("")
                                ),
                            );
                        }
                    }
                    "c03" if turns_bad => {
                        // no model for a server that stops speaking the protocol: the verdict is C03 itself —
                        // every candidate is reported (none silently dropped), and whatever could not be
                        // evaluated is not touched by any load
                        let _ = c03_model.next();
                        sink.count("c03.server-turns-bad");
                        let verdict = match (&obs.touched, obs.run.strip_prefix("done ")) {
                            (_, None) => format!("violation agent-evaluate-{}", obs.run.split([' ', '=']).next().unwrap_or("")),
                            (None, _) => "violation harness-no-plan".to_string(),
                            (Some(Err(e)), _) => format!("violation plan-failed-{}", hexs(e)),
                            (Some(Ok(t)), Some(rest)) => {
                                let outs: HashMap<&str, &str> = rest.split(',').filter_map(|x| x.split_once('=')).collect();
                                let missing = case.items.iter().any(|i| !outs.contains_key(i.name.as_str()));
                                let hit = case.items.iter().any(|i| outs.get(i.name.as_str()) == Some(&"none") && t.contains(&i.name));
                                if missing {
                                    "violation candidate-dropped-from-evaluation".to_string()
                                } else if hit {
                                    "violation failed-evaluation-causes-update".to_string()
                                } else {
                                    "ok".to_string()
                                }
                            }
                        };
                        sink.direct(&d, verdict);
                    }
                    "c03" => {
                        sink.spec(
                            &d,
                            format!(
                                "irr spec15 {db} {FUEL} {} {pt} {}",
                                case.cands_tok(),
                                obs.run
                            ),
                        );
                        let model = c03_model.next().unwrap_or_default();
                        // candidates the model cannot evaluate (IRR error): the run must not touch them
                        let failing: Vec<String> = model
                            .strip_prefix("done ")
                            .map(|r| {
                                r.split(',')
                                    .filter_map(|x| x.split_once('='))
                                    .filter(|(_, o)| *o == "none")
                                    .map(|(n, _)| n.to_string())
                                    .collect()
                            })
                            .unwrap_or_default();
                        // a route-set the IRR does not know: the library swallows the error of the members
                        // query and the evaluation SUCCEEDS with the empty set (the model mirrors that);
                        // for the property the prefix data was not obtained all the same
                        let unknown_rs: Vec<String> = case
                            .items
                            .iter()
                            .filter(|i| matches!(&i.expr, Expr::RouteSet(n, _) if !case.db.route_sets.iter().any(|(m, _)| m == n)))
                            .map(|i| i.name.clone())
                            .collect();
                        sink.count(&format!("c03.failing.{}", failing.len().min(4)));
                        let verdict = match (&obs.touched, model.starts_with("done ")) {
                            (_, false) => format!(
                                "violation model-run-{}",
                                model.split(' ').next().unwrap_or("")
                            ),
                            (None, _) => format!(
                                "violation agent-evaluate-{}",
                                obs.run.split([' ', '=']).next().unwrap_or("")
                            ),
                            (Some(Err(e)), _) => format!("violation plan-failed-{}", hexs(e)),
                            (Some(Ok(t)), _) => {
                                let hit: Vec<&String> =
                                    failing.iter().filter(|n| t.contains(n)).collect();
                                if hit.is_empty() && unknown_rs.iter().any(|n| t.contains(n)) {
                                    "violation unknown-route-set-empties-policy".to_string()
                                } else if hit.is_empty() {
                                    if !t.iter().any(|n| n == "stale") {
                                        "violation unmanaged-not-deleted".to_string()
                                    } else {
                                        "ok".to_string()
                                    }
                                } else {
                                    "violation failed-evaluation-causes-update".to_string()
                                }
                            }
                        };
                        sink.direct(&d, verdict);
                    }
                    _ => sink.spec(
                        &d,
                        format!(
                            "irr spec15 {db} {FUEL} {} {pt} {}",
                            case.cands_tok(),
                            obs.run
                        ),
                    ),
                }
                sink.sample(format!("{d} -> {}", obs.run));
            }
        }
    }

    // operator precedence: unparenthesised sequences (family c11 only)
    if !flats.is_empty() {
        let mut lines = vec![];
        let mut layout = vec![];
        for f in &flats {
            let c = f.as_case();
            let qs = all_queries(&c);
            let first = lines.len();
            for q in &qs {
                lines.push(format!("irr serve {} {q}", f.db.tok()));
            }
            lines.push(format!("irr flattext {}", f.tok()));
            layout.push((first, qs));
        }
        let answers = modeld(&lines);
        struct FJob {
            f: FlatCase,
            table: HashMap<String, Vec<u8>>,
            text: Option<String>,
            probes: Vec<Pfx>,
        }
        let mut jobs = vec![];
        for (f, (first, qs)) in flats.iter().zip(layout) {
            let mut table = HashMap::new();
            for (j, q) in qs.iter().enumerate() {
                if let Some(b) = unhex(&answers[first + j]) {
                    table.insert(qwire(q), b);
                }
            }
            let text = unhex(&answers[first + qs.len()]).and_then(|b| String::from_utf8(b).ok());
            jobs.push(FJob {
                probes: probes(&f.as_case()),
                f: f.clone(),
                table,
                text,
            });
        }
        let results = run_pool(jobs, 8, move |j: FJob| {
            let Some(text) = j.text.clone() else {
                return (
                    j.f,
                    j.probes,
                    String::new(),
                    "modeld rejected the case".to_string(),
                );
            };
            let fake = FakeIrrd::start(j.table);
            let mut ev = match bgpfu::RpslEvaluator::new("127.0.0.1", fake.port) {
                Ok(e) => e,
                Err(e) => return (j.f, j.probes, String::new(), format!("connect: {e}")),
            };
            let start = fake.begin(vec![]);
            let o = eval_once(&mut ev, &text, &j.probes);
            let log = fake.log_from(start);
            (
                j.f,
                j.probes,
                format!("{o}/{}", log_tok(&log)),
                String::new(),
            )
        });
        for (f, probes, obs, note) in results {
            let d = f.descr();
            if !note.is_empty() {
                sink.direct(&d, format!("violation harness-{}", note.replace(' ', "-")));
                continue;
            }
            let pt = probes_tok(&probes);
            let db = f.db.tok();
            sink.count("precedence.sequences");
            sink.corr(
                &d,
                format!("irr evalflat {cfg} {db} {FUEL} {} {pt}", f.tok()),
                obs.clone(),
            );
            let outcome = obs.split('/').next().unwrap_or("").to_string();
            sink.spec(
                &d,
                format!("irr specprec {db} {FUEL} {} {pt} {outcome}", f.tok()),
            );
            sink.sample(format!("{d} -> {outcome}"));
        }
    }

    // liveness of NOT: complementing a set must not take time exponential in the prefix length
    let replay_not = opts
        .replay
        .as_ref()
        .map(|p| {
            std::fs::read_to_string(p)
                .unwrap_or_default()
                .contains("case\tnot-complexity")
        })
        .unwrap_or(false);
    if (opts.replay.is_none() && family == "c11") || replay_not {
        let fake = FakeIrrd::start(HashMap::new());
        let time = |len: u8| -> f64 {
            let mut ev = bgpfu::RpslEvaluator::new("127.0.0.1", fake.port).unwrap();
            let expr: rpsl::expr::MpFilterExpr = format!("NOT {{10.0.0.0/{len}}}").parse().unwrap();
            let t = Instant::now();
            let _ = ev.evaluate(expr).map(|s| s.ranges().count());
            t.elapsed().as_secs_f64()
        };
        let (t12, t15, t18) = (time(12), time(15), time(18));
        sink.notes.push(format!(
            "NOT {{10.0.0.0/n}}: n=12 {:.1} ms, n=15 {:.1} ms, n=18 {:.1} ms",
            t12 * 1e3,
            t15 * 1e3,
            t18 * 1e3
        ));
        // linear (or n log n) growth would give ratios near 1.2; doubling per bit gives 8 per step
        let exponential = t18 > 0.05 && t18 > 5.0 * t15 && t15 > 3.0 * t12;
        sink.direct(
            "not-complexity 12/15/18",
            if exponential {
                "violation not-exponential-in-prefix-length".into()
            } else {
                "ok".into()
            },
        );
    }

    // connection refused: construction fails with an error (no panic, no hang)
    if opts.replay.is_none() {
        let port = FakeIrrd::refusing_port();
        let r = catch_unwind(|| bgpfu::RpslEvaluator::new("127.0.0.1", port).is_err());
        sink.direct(
            "refused/lib",
            if matches!(r, Ok(true)) {
                "ok".into()
            } else {
                "violation connect-refused-not-an-error".into()
            },
        );
        let r = catch_unwind(|| {
            agent::verif::evaluate(&[("p0".to_string(), "ANY".to_string())], "127.0.0.1", port)
                .is_err()
        });
        sink.direct(
            "refused/agent",
            if matches!(r, Ok(true)) {
                "ok".into()
            } else {
                "violation connect-refused-not-an-error".into()
            },
        );
    }
    sink.add("wall_ms", t0.elapsed().as_millis() as u64);
    // C17 in one RUN of the agent: several candidates with the SAME expression text, and a transient IRR
    // fault (the first `!gAS64500` of the run is answered with an error, every later one normally). The
    // library swallows per-query errors, so one evaluation comes out partial — exactly one: every
    // other candidate must get what a fault-free run gives it, whatever was evaluated before it on the
    // same connection (which candidate is hit depends on the map's iteration order, so the verdict
    // counts deviations instead of naming the candidate).
    if family == "c17" && opts.replay.is_none() {
        let a = |body: &str| format!("A{}\n{body}\nC\n", body.len() + 1).into_bytes();
        let mut table: HashMap<String, Vec<u8>> = HashMap::new();
        table.insert("!iAS-T0,1".into(), a("AS64500 AS64501"));
        table.insert("!gAS64500".into(), a("10.0.0.0/8"));
        table.insert("!6AS64500".into(), a("2001:db8::/32"));
        table.insert("!gAS64501".into(), a("198.51.100.0/24"));
        table.insert("!6AS64501".into(), b"D\n".to_vec());
        let fake = FakeIrrd::start(table);
        for (tag, expr, n) in [("as-set", "AS-T0", 3usize), ("autnum", "AS64500", 4), ("or", "AS64500 OR AS64501", 2)] {
            for kind in ['F', 'D', 'E'] {
                let cands: Vec<(String, String)> = (0..n).map(|i| (format!("p{i}"), expr.to_string())).collect();
                let port = fake.port;
                let run = |faults: Vec<(crate::fakeirrd::Sel, char)>| -> Result<Vec<String>, String> {
                    let _ = fake.begin(faults);
                    let c = cands.clone();
                    match catch_unwind(AssertUnwindSafe(move || agent::verif::evaluate(&c, "127.0.0.1", port))) {
                        Ok(Ok(v)) => {
                            let mut outs: Vec<(String, String)> = v.iter().map(|(n, _, r)| (n.clone(), format!("{r:?}"))).collect();
                            outs.sort();
                            Ok(outs.into_iter().map(|x| x.1).collect())
                        }
                        Ok(Err(e)) => Err(format!("error-{}", e.replace(' ', "-"))),
                        Err(_) => Err("panic".into()),
                    }
                };
                let clean = run(vec![]);
                let hit = run(vec![(crate::fakeirrd::Sel::QueryOnce("!gAS64500".into()), kind)]);
                let case = format!("c17.same-expression-transient-fault.{tag}.{kind}");
                let verdict = match (&clean, &hit) {
                    (Err(e), _) => format!("violation fault-free-run-{e}"),
                    (_, Err(e)) => format!("violation run-with-one-transient-fault-{e}"),
                    (Ok(c), Ok(h)) => {
                        let deviating = c.iter().zip(h.iter()).filter(|(x, y)| x != y).count();
                        if h.len() != c.len() {
                            "violation candidate-dropped".to_string()
                        } else if deviating > 1 {
                            format!("violation {deviating}-of-{n}-results-show-one-transient-fault")
                        } else {
                            "ok".to_string()
                        }
                    }
                };
                sink.count("c17.transient");
                sink.direct(&case, verdict);
            }
        }
    }
    sink.write(opts, &format!("evalseq"));
}
