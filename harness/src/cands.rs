//! C16: generated running configurations → the real candidate reader
//! (`agent::verif::read_candidates`) vs the event-level model (`fetch cands`, corr rows) vs the
//! specification `select` evaluated on the generator's own abstract description (`fetch spec`).
//!
//! Case descriptor (re-runnable, see `Case::parse`):
//!   `<style>#<shape>#<stmt>,<stmt>,…`   (`.` = no statement)
//!   style = `e<0|1>q<0|1>k<0|1>w<0|1>`  escaping variant, quote char, comments between levels, indentation
//!   shape = 0 normal | 1 no policy-options | 2 two policy-options | 3 foreign element in configuration
//!           | 4 two configurations | 5 `<data/>` | 6 text in policy-options | 7 `<policy-options/>`
//!   stmt  = attrs|body      attrs = `.` | a;a;…    body = `.` | b;b;…
//!   a = `J` xmlns:jcmd | `A<hex>` jcmd:active | `C<hex>` jcmd:comment | `O<digit>` unrelated attribute
//!       | `B<hex>` / `P<hex>` active / comment attribute of the jcmd namespace spelt with another prefix (`j:`)
//!       | `R` `xmlns:jcmd` bound to another namespace on this statement (its `jcmd:` attributes are unrelated then)
//!       | `Z<hex>` raw attribute text (outside the grammar)
//!   b = `N<hex>` name | `T<children>` | `E` term element | `M` empty element | `X` text | `D` CDATA
//!       | `K` comment | `Z<hex>` raw XML (outside the grammar)
//!   children = `_` | string over r a e x d k R (`R` = `<reject></reject>`, outside the grammar)
use std::str::FromStr;

use crate::{util::*, xmltok::tokenize};

const XNM_HEX: &str = "687474703a2f2f786d6c2e6a756e697065722e6e65742f786e6d2f312e312f786e6d";
const JCMD_HEX: &str = "687474703a2f2f79616e672e6a756e697065722e6e65742f6a756e6f732f6a636d64";
const JCMD: &str = "http://yang.juniper.net/junos/jcmd";

#[derive(Clone, Debug, PartialEq)]
pub enum GAttr {
    Ns,
    Active(String),
    Comment(String),
    /// `j:active`, `j:comment` with `xmlns:j` bound to the jcmd namespace
    AltActive(String),
    AltComment(String),
    /// `xmlns:jcmd="urn:example:not-junos"` on the statement
    Rebind,
    /// `xmlns:k="<jcmd namespace>"` on the statement; at configuration level `k` is bound to
    /// `urn:example:not-junos`, so only a statement that declares it itself has jcmd `k:` attributes
    LocalNs,
    /// `k:comment`
    KComment(String),
    /// the n-th of many further attributes (`pad<n>="x"`): real replies carry `junos:` bookkeeping
    /// attributes, and nothing limits their number
    Pad(usize),
    Other(u8),
    Raw(String),
}

#[derive(Clone, Debug, PartialEq)]
pub enum GBody {
    Name(String),
    Then(String),
    Term,
    Empty,
    /// an element with a same-named descendant (`<tag><tag>7</tag></tag>`)
    Nested,
    Text,
    CData,
    Comment,
    Raw(String),
}

#[derive(Clone, Debug, PartialEq)]
pub struct GStmt {
    pub attrs: Vec<GAttr>,
    pub body: Vec<GBody>,
}

#[derive(Clone, Debug, PartialEq)]
pub struct Case {
    pub esc: u8,
    pub quote: u8,
    pub comments: u8,
    pub indent: u8,
    pub shape: u8,
    pub stmts: Vec<GStmt>,
}

fn unhexs(s: &str) -> Option<String> {
    String::from_utf8(unhex(s)?).ok()
}

impl GAttr {
    fn token(&self) -> String {
        match self {
            GAttr::Ns => "J".into(),
            GAttr::Active(v) => format!("A{}", hexs(v)),
            GAttr::Comment(v) => format!("C{}", hexs(v)),
            GAttr::AltActive(v) => format!("B{}", hexs(v)),
            GAttr::AltComment(v) => format!("P{}", hexs(v)),
            GAttr::Rebind => "R".into(),
            GAttr::LocalNs => "L".into(),
            GAttr::KComment(v) => format!("K{}", hexs(v)),
            GAttr::Pad(n) => format!("D{n}"),
            GAttr::Other(k) => format!("O{k}"),
            GAttr::Raw(v) => format!("Z{}", hexs(v)),
        }
    }
    fn parse(s: &str) -> Option<GAttr> {
        let (h, t) = s.split_at(1);
        Some(match h {
            "J" if t.is_empty() => GAttr::Ns,
            "A" => GAttr::Active(unhexs(t)?),
            "C" => GAttr::Comment(unhexs(t)?),
            "B" => GAttr::AltActive(unhexs(t)?),
            "P" => GAttr::AltComment(unhexs(t)?),
            "R" if t.is_empty() => GAttr::Rebind,
            "L" if t.is_empty() => GAttr::LocalNs,
            "K" => GAttr::KComment(unhexs(t)?),
            "D" => GAttr::Pad(t.parse().ok()?),
            "O" => GAttr::Other(t.parse().ok()?),
            "Z" => GAttr::Raw(unhexs(t)?),
            _ => return None,
        })
    }
    /// token of the abstract description handed to `fetch spec`; `rebound`: the statement binds the
    /// prefix `jcmd` to another namespace, so its `jcmd:` attributes are not jcmd attributes
    fn spec_token(&self, rebound: bool, local_k: bool) -> Option<String> {
        match self {
            GAttr::Ns | GAttr::Other(_) | GAttr::Rebind | GAttr::LocalNs | GAttr::Pad(_) => Some("O".into()),
            GAttr::KComment(v) if local_k => Some(format!("C{}", hexs(v))),
            GAttr::KComment(_) => Some("O".into()),
            GAttr::Active(_) | GAttr::Comment(_) if rebound => Some("O".into()),
            GAttr::Active(_) | GAttr::Comment(_) => Some(self.token()),
            GAttr::AltActive(v) => Some(format!("A{}", hexs(v))),
            GAttr::AltComment(v) => Some(format!("C{}", hexs(v))),
            GAttr::Raw(_) => None,
        }
    }
}

impl GBody {
    fn token(&self) -> String {
        match self {
            GBody::Name(n) => format!("N{}", hexs(n)),
            GBody::Then(cs) => format!("T{}", if cs.is_empty() { "_" } else { cs }),
            GBody::Term => "E".into(),
            GBody::Empty => "M".into(),
            GBody::Nested => "G".into(),
            GBody::Text => "X".into(),
            GBody::CData => "D".into(),
            GBody::Comment => "K".into(),
            GBody::Raw(v) => format!("Z{}", hexs(v)),
        }
    }
    fn parse(s: &str) -> Option<GBody> {
        let (h, t) = s.split_at(1);
        Some(match h {
            "N" => GBody::Name(unhexs(t)?),
            "T" if t == "_" => GBody::Then(String::new()),
            "T" if !t.is_empty() && t.chars().all(|c| "raexdkRm".contains(c)) => {
                GBody::Then(t.into())
            }
            "E" if t.is_empty() => GBody::Term,
            "M" if t.is_empty() => GBody::Empty,
            "G" if t.is_empty() => GBody::Nested,
            "X" if t.is_empty() => GBody::Text,
            "D" if t.is_empty() => GBody::CData,
            "K" if t.is_empty() => GBody::Comment,
            "Z" => GBody::Raw(unhexs(t)?),
            _ => return None,
        })
    }
    fn spec_token(&self) -> Option<String> {
        match self {
            GBody::Raw(_) => None,
            GBody::Then(cs) if cs.contains('R') => None,
            _ => Some(self.token()),
        }
    }
}

fn seplist(items: Vec<String>, sep: &str) -> String {
    if items.is_empty() {
        ".".into()
    } else {
        items.join(sep)
    }
}

impl GStmt {
    fn token(&self) -> String {
        format!(
            "{}|{}",
            seplist(self.attrs.iter().map(|a| a.token()).collect(), ";"),
            seplist(self.body.iter().map(|b| b.token()).collect(), ";")
        )
    }
    fn parse(s: &str) -> Option<GStmt> {
        let (a, b) = s.split_once('|')?;
        let attrs = if a == "." {
            vec![]
        } else {
            a.split(';').map(GAttr::parse).collect::<Option<Vec<_>>>()?
        };
        let body = if b == "." {
            vec![]
        } else {
            b.split(';').map(GBody::parse).collect::<Option<Vec<_>>>()?
        };
        Some(GStmt { attrs, body })
    }
    fn spec_token(&self) -> Option<String> {
        // a list entry without its key is not a statement of the grammar
        if !self.body.iter().any(|b| matches!(b, GBody::Name(_))) {
            return None;
        }
        let rebound = self.rebinds_jcmd();
        // two declarations of one prefix in a start tag: not a document of the grammar
        if rebound && self.declares_jcmd() {
            return None;
        }
        let a = self
            .attrs
            .iter()
            .map(|a| a.spec_token(rebound, self.attrs.iter().any(|x| matches!(x, GAttr::LocalNs))))
            .collect::<Option<Vec<_>>>()?;
        let b = self
            .body
            .iter()
            .map(|b| b.spec_token())
            .collect::<Option<Vec<_>>>()?;
        Some(format!("{}|{}", seplist(a, ";"), seplist(b, ";")))
    }
    fn uses_jcmd(&self) -> bool {
        self.attrs
            .iter()
            .any(|a| matches!(a, GAttr::Active(_) | GAttr::Comment(_)))
    }
    fn declares_jcmd(&self) -> bool {
        self.attrs.iter().any(|a| matches!(a, GAttr::Ns))
    }
    fn rebinds_jcmd(&self) -> bool {
        self.attrs.iter().any(|a| matches!(a, GAttr::Rebind))
    }
    fn uses_k_prefix(&self) -> bool {
        self.attrs.iter().any(|a| matches!(a, GAttr::KComment(_) | GAttr::LocalNs))
    }
    fn uses_alt_prefix(&self) -> bool {
        self.attrs
            .iter()
            .any(|a| matches!(a, GAttr::AltActive(_) | GAttr::AltComment(_)))
    }
}

impl Case {
    pub fn descr(&self) -> String {
        format!(
            "e{}q{}k{}w{}#{}#{}",
            self.esc,
            self.quote,
            self.comments,
            self.indent,
            self.shape,
            seplist(self.stmts.iter().map(|s| s.token()).collect(), ",")
        )
    }
    pub fn parse(s: &str) -> Option<Case> {
        let mut it = s.splitn(3, '#');
        let st = it.next()?.as_bytes().to_vec();
        if st.len() != 8 || st[0] != b'e' || st[2] != b'q' || st[4] != b'k' || st[6] != b'w' {
            return None;
        }
        let d = |b: u8| {
            if b.is_ascii_digit() {
                Some(b - b'0')
            } else {
                None
            }
        };
        let shape: u8 = it.next()?.parse().ok()?;
        let ss = it.next()?;
        let stmts = if ss == "." {
            vec![]
        } else {
            ss.split(',')
                .map(GStmt::parse)
                .collect::<Option<Vec<_>>>()?
        };
        Some(Case {
            esc: d(st[1])?,
            quote: d(st[3])?,
            comments: d(st[5])?,
            indent: d(st[7])?,
            shape,
            stmts,
        })
    }
    /// the abstract description for `fetch spec`; `None` if the document is outside the grammar
    fn spec_config(&self) -> Option<String> {
        if self.shape != 0 {
            return None;
        }
        let v = self
            .stmts
            .iter()
            .map(|s| s.spec_token())
            .collect::<Option<Vec<_>>>()?;
        Some(seplist(v, ","))
    }

    fn esc_text(&self, s: &str) -> String {
        let mut out = String::new();
        for c in s.chars() {
            match c {
                '&' => out.push_str("&amp;"),
                '<' => out.push_str("&lt;"),
                '>' if self.esc == 1 => out.push_str("&gt;"),
                '"' if self.esc == 1 => out.push_str("&quot;"),
                'S' if self.esc == 1 => out.push_str("&#x53;"),
                'o' if self.esc == 1 => out.push_str("&#111;"),
                c => out.push(c),
            }
        }
        out
    }
    fn quote(&self, s: &str) -> String {
        let q = if self.quote == 1 { '\'' } else { '"' };
        format!("{q}{s}{q}")
    }
    fn esc_attr(&self, s: &str) -> String {
        let q = if self.quote == 1 { '\'' } else { '"' };
        let mut out = String::new();
        for c in s.chars() {
            match c {
                '&' => out.push_str("&amp;"),
                '<' => out.push_str("&lt;"),
                '"' if q == '"' => out.push_str("&quot;"),
                '\'' if q == '\'' => out.push_str("&apos;"),
                '>' if self.esc == 1 => out.push_str("&gt;"),
                'S' if self.esc == 1 => out.push_str("&#x53;"),
                // character references inside the words the reader compares (`false`, `bgpfu-fltr:`)
                'f' if self.esc == 1 => out.push_str("&#102;"),
                'e' if self.esc == 1 => out.push_str("&#x65;"),
                c => out.push(c),
            }
        }
        format!("{q}{out}{q}")
    }

    fn render_stmt(&self, s: &GStmt, out: &mut String) {
        let nl = if self.indent == 1 { "\n        " } else { "" };
        out.push_str(nl);
        out.push_str("<policy-statement");
        for a in &s.attrs {
            out.push(' ');
            match a {
                // namespace names are written plainly: quick-xml compares the raw attribute value
                GAttr::Ns => out.push_str(&format!("xmlns:jcmd={}", self.quote(JCMD))),
                GAttr::Active(v) => out.push_str(&format!("jcmd:active={}", self.esc_attr(v))),
                GAttr::Comment(v) => out.push_str(&format!("jcmd:comment={}", self.esc_attr(v))),
                GAttr::AltActive(v) => out.push_str(&format!("j:active={}", self.esc_attr(v))),
                GAttr::AltComment(v) => out.push_str(&format!("j:comment={}", self.esc_attr(v))),
                GAttr::LocalNs => out.push_str(&format!("xmlns:k={}", self.quote(JCMD))),
                GAttr::KComment(v) => out.push_str(&format!("k:comment={}", self.esc_attr(v))),
                GAttr::Pad(n) => out.push_str(&format!("pad{n}={}", self.esc_attr("x"))),
                GAttr::Rebind => out.push_str(&format!(
                    "xmlns:jcmd={}",
                    self.esc_attr("urn:example:not-junos")
                )),
                GAttr::Other(0) => out.push_str(&format!(
                    "junos:changed-seconds={}",
                    self.esc_attr("1700000000")
                )),
                GAttr::Other(1) => out.push_str(&format!("inactive={}", self.esc_attr("inactive"))),
                GAttr::Other(2) => out.push_str(&format!("xmlns:y={}", self.quote("urn:y"))),
                GAttr::Other(3) => out.push_str(&format!("x:active={}", self.esc_attr("false"))),
                GAttr::Other(4) => out.push_str(&format!("active={}", self.esc_attr("false"))),
                GAttr::Other(5) => out.push_str(&format!(
                    "comment={}",
                    self.esc_attr("/* bgpfu-fltr: AS-UNPREFIXED */")
                )),
                GAttr::Other(_) => out.push_str(&format!(
                    "x:comment={}",
                    self.esc_attr("/* bgpfu-fltr: AS-FOREIGN */")
                )),
                GAttr::Raw(v) => out.push_str(v),
            }
        }
        out.push('>');
        let nl2 = if self.indent == 1 {
            "\n            "
        } else {
            ""
        };
        for b in &s.body {
            out.push_str(nl2);
            match b {
                GBody::Name(n) => out.push_str(&format!("<name>{}</name>", self.esc_text(n))),
                GBody::Then(cs) => {
                    out.push_str("<then>");
                    for c in cs.chars() {
                        out.push_str(match c {
                            'r' => "<reject/>",
                            'a' => "<accept/>",
                            'e' => "<next>policy</next>",
                            'm' => "<metric><metric>100</metric></metric>",
                            'x' => "stray",
                            'd' => "<![CDATA[c]]>",
                            'k' => "<!-- c -->",
                            _ => "<reject></reject>",
                        });
                    }
                    out.push_str("</then>");
                }
                GBody::Term => out.push_str(
                    "<term><name>t1</name><from><route-filter><address>10.0.0.0/8</address><orlonger/></route-filter></from><then><accept/></then></term>",
                ),
                GBody::Empty => out.push_str("<apply-groups/>"),
                GBody::Nested => out.push_str("<tag><tag>7</tag></tag>"),
                GBody::Text => out.push_str("stray text"),
                GBody::CData => out.push_str("<![CDATA[c]]>"),
                GBody::Comment => out.push_str("<!-- c -->"),
                GBody::Raw(v) => out.push_str(v),
            }
        }
        out.push_str(nl);
        out.push_str("</policy-statement>");
    }

    pub fn xml(&self) -> String {
        let k = |s: &str| {
            if self.comments == 1 {
                format!("<!-- {s} -->")
            } else {
                String::new()
            }
        };
        let decl_on_conf = self
            .stmts
            .iter()
            .any(|s| s.uses_jcmd() && !s.declares_jcmd());
        let conf_attrs = format!(
            " xmlns=\"http://xml.juniper.net/xnm/1.1/xnm\"{}{} junos:commit-seconds=\"1700000000\"",
            if decl_on_conf {
                format!(" xmlns:jcmd=\"{JCMD}\"")
            } else {
                String::new()
            },
            if self.stmts.iter().any(|s| s.uses_alt_prefix()) {
                format!(" xmlns:j=\"{JCMD}\"")
            } else {
                String::new()
            }
        );
        let conf_attrs = if self.stmts.iter().any(|s| s.uses_k_prefix()) {
            format!("{conf_attrs} xmlns:k=\"urn:example:not-junos\"")
        } else {
            conf_attrs
        };
        let mut po = String::new();
        let n = self.stmts.len();
        let mut second = String::new();
        for (i, s) in self.stmts.iter().enumerate() {
            let tgt = if self.shape == 2 && i >= (n + 1) / 2 {
                &mut second
            } else {
                &mut po
            };
            self.render_stmt(s, tgt);
            if self.comments == 1 && i % 2 == 0 {
                tgt.push_str("<!-- between -->");
            }
        }
        let inner = match self.shape {
            1 => k("only"),
            2 => format!(
                "<policy-options>{po}</policy-options><policy-options>{second}</policy-options>"
            ),
            3 => format!(
                "<system><host-name>r1</host-name></system><policy-options>{po}</policy-options>"
            ),
            6 => format!("<policy-options>stray{po}</policy-options>"),
            7 => "<policy-options/>".to_string(),
            _ => format!(
                "{}<policy-options>{}{po}</policy-options>{}",
                k("c3"),
                k("c5"),
                k("c4")
            ),
        };
        let conf = format!("<configuration{conf_attrs}>{inner}</configuration>");
        let data = match self.shape {
            4 => format!("<data>{conf}{conf}</data>"),
            5 => "<data/>".to_string(),
            _ => format!("<data>{}{conf}{}</data>", k("c1"), k("c2")),
        };
        format!(
            "<rpc-reply xmlns=\"urn:ietf:params:xml:ns:netconf:base:1.0\" xmlns:junos=\"http://xml.juniper.net/junos/23.1R1/junos\" xmlns:x=\"urn:x\" message-id=\"1\">{data}</rpc-reply>"
        )
    }
}

// ---------------------------------------------------------------------------------------------
// oracles (real libraries)

fn parse_display(raw: &str) -> Option<String> {
    rpsl::expr::MpFilterExpr::from_str(raw)
        .ok()
        .map(|e| e.to_string())
}

/// `v.trim_matches(['/','*']).trim().strip_prefix("bgpfu-fltr:")` — only used to know which
/// queries to answer; a wrong set shows up as `bad-op`
fn annotation_raw(v: &str) -> Option<&str> {
    v.trim_matches(['/', '*'].as_slice())
        .trim()
        .strip_prefix("bgpfu-fltr:")
}

fn table(entries: &[(String, Option<String>)]) -> String {
    let mut seen: Vec<&String> = vec![];
    let mut items = vec![];
    for (k, v) in entries {
        if seen.contains(&k) {
            continue;
        }
        seen.push(k);
        items.push(match v {
            Some(v) => format!("{}:{}", hexs(k), hexs(v)),
            None => format!("{}:!", hexs(k)),
        });
    }
    seplist(items, ";")
}

/// oracles for the model op, from the tokenised document: (parse table, unescape table)
fn oracles_from_events(evs: &str) -> (String, String) {
    let mut pq: Vec<(String, Option<String>)> = vec![];
    let mut uq: Vec<(String, Option<String>)> = vec![];
    if evs == "." {
        return (".".into(), ".".into());
    }
    for ev in evs.split(',') {
        let f: Vec<&str> = ev.split('|').collect();
        if f.len() != 6 || (f[0] != "S" && f[0] != "M") {
            continue;
        }
        if f[0] == "S" && f[1] == format!("b{XNM_HEX}") && f[2] == hexs("name") {
            if let Some(sp) = f[4].strip_prefix('s').and_then(unhexs) {
                let u = quick_xml::escape::unescape(&sp)
                    .ok()
                    .map(|c| c.into_owned());
                uq.push((sp, u));
            }
        }
        if f[5] == "." {
            continue;
        }
        for a in f[5].split(';') {
            let p: Vec<&str> = a.split('/').collect();
            if p.len() == 4 && p[1] == format!("b{JCMD_HEX}") && p[2] == hexs("comment") {
                if let Some(v) = p[3].strip_prefix('s').and_then(unhexs) {
                    if let Some(raw) = annotation_raw(&v) {
                        pq.push((raw.to_string(), parse_display(raw)));
                    }
                }
            }
        }
    }
    (table(&pq), table(&uq))
}

/// parse oracle for the spec op, from the generator's own values
fn oracle_from_case(c: &Case) -> String {
    let mut pq = vec![];
    for s in &c.stmts {
        for a in &s.attrs {
            if let GAttr::Comment(v) | GAttr::AltComment(v) | GAttr::KComment(v) = a {
                if let Some(raw) = annotation_raw(v) {
                    pq.push((raw.to_string(), parse_display(raw)));
                }
            }
        }
    }
    table(&pq)
}

/// canonical result of the real reader
fn canon(r: &Result<Vec<(String, String)>, String>) -> String {
    match r {
        Err(_) => "err".into(),
        Ok(v) => {
            // the facade does not tell `Parsed` from `Malformed`: the `Display` of a malformed
            // expression is its raw text, which does not parse
            let mut items: Vec<String> = v
                .iter()
                .map(|(n, e)| {
                    format!(
                        "{}={}{}",
                        hexs(n),
                        if parse_display(e).is_some() { "P" } else { "M" },
                        hexs(e)
                    )
                })
                .collect();
            items.sort();
            if items.is_empty() {
                "ok:.".into()
            } else {
                format!("ok:{}", items.join(";"))
            }
        }
    }
}

fn run_real(xml: String) -> Result<Vec<(String, String)>, String> {
    match std::panic::catch_unwind(move || agent::verif::read_candidates(&xml)) {
        Ok(r) => r,
        Err(_) => Err("panic".into()),
    }
}

// ---------------------------------------------------------------------------------------------
// generation

const GOOD: &str = "/* bgpfu-fltr: AS-FOO */";
const BAD: &str = "/* bgpfu-fltr: (( */";
const PLAIN: &str = "/* maintained by hand */";

const EXPRS: [&str; 8] = [
    "AS-FOO",
    "AS65000",
    "AS-FOO AND { 0.0.0.0/0^8-24 }",
    "{ 10.0.0.0/8^+, 2001:db8::/32^48 }",
    "RS-BAR OR AS-BAZ",
    "AS-FOO:AS-BAR",
    "<^AS65000 .*>",
    "(AS-A OR AS-B) AND NOT { 192.0.2.0/24 }",
];
const MALFORMED: [&str; 6] = [
    "((",
    "AS-FOO AND",
    "",
    "AS-FOO & AS-BAR",
    "say \"hi\" <now>",
    "{ 10.0.0.0/33 }",
];
const NAMES: [&str; 10] = [
    "fltr-foo",
    "a&b",
    "a<b>c",
    "q\"uote'd",
    "AS-SoS-in",
    "ünï-cødé",
    "a&amp;b",
    "x y",
    "p.q_r-1",
    "r>s",
];

fn decorate(rng: &mut Rng, body: &str) -> String {
    match rng.below(9) {
        0 => format!("/* {body} */"),
        1 => format!("/** {body} **/"),
        2 => body.to_string(),
        3 => format!("/*{body}*/"),
        4 => format!("// {body}"),
        5 => format!("* {body} *"),
        6 => format!(" /* {body} */"), // leading blank: the decoration is not stripped → no annotation
        7 => format!("/* {body} */ "),
        _ => format!("/*\t{body}\n*/"),
    }
}

fn annotation(rng: &mut Rng, expr: &str) -> String {
    let body = match rng.below(8) {
        0 => format!("bgpfu-fltr:{expr}"),
        1 => format!("bgpfu-fltr:   {expr}  "),
        2 => format!("BGPFU-FLTR: {expr}"),
        3 => format!("bgpfu-fltr {expr}"),
        4 => format!("see bgpfu-fltr: {expr}"),
        _ => format!("bgpfu-fltr: {expr}"),
    };
    decorate(rng, &body)
}

fn std_body(name: &str) -> Vec<GBody> {
    vec![GBody::Name(name.into()), GBody::Then("r".into())]
}

fn body_shapes(name: &str) -> Vec<Vec<GBody>> {
    let n = || GBody::Name(name.into());
    let t = |s: &str| GBody::Then(s.into());
    vec![
        vec![n(), t("r")],
        vec![t("r"), n()],
        vec![n(), GBody::Comment, t("krk"), GBody::Comment],
        vec![n(), t("rr")],
        vec![n(), t("")],
        vec![n(), t("k")],
        vec![n()],
        vec![n(), GBody::Term, t("r")],
        vec![n(), t("r"), GBody::Term],
        vec![n(), t("a")],
        vec![n(), t("ra")],
        vec![n(), t("ar")],
        vec![n(), t("re")],
        vec![n(), t("rx")],
        vec![n(), t("rd")],
        vec![n(), t("r"), t("r")],
        vec![n(), t(""), t("r")],
        vec![n(), t("r"), t("")],
        vec![n(), GBody::Name("second".into()), t("r")],
        vec![n(), GBody::Empty, t("r")],
        // Junos renders several actions as a container with a same-named leaf
        vec![n(), t("mr")],
        vec![n(), t("rm")],
        vec![n(), t("m")],
        vec![n(), GBody::Nested, t("r")],
        vec![n(), t("r"), GBody::Nested],
        vec![n(), GBody::Text, t("r")],
        vec![n(), GBody::CData, t("r")],
        vec![n(), GBody::Term],
        // outside the grammar (correspondence only)
        vec![t("r")],
        vec![],
        vec![GBody::Term],
        vec![n(), t("R")],
        vec![n(), GBody::Raw("<then/>".into())],
        vec![GBody::Raw("<name/>".into()), t("r")],
        vec![n(), t("r"), GBody::Raw("<?pi x?>".into())],
        vec![GBody::Raw("<name>a&bad;b</name>".into()), t("r")],
        vec![GBody::Raw("<name>a<b>x</b></name>".into()), t("r")],
    ]
}

fn attr_alphabet() -> Vec<GAttr> {
    vec![
        GAttr::Ns,
        GAttr::Active("false".into()),
        GAttr::Active("true".into()),
        GAttr::Comment(GOOD.into()),
        GAttr::Comment(BAD.into()),
        GAttr::Comment(PLAIN.into()),
        GAttr::Other(3),
    ]
}

fn seqs<T: Clone>(alpha: &[T], max: usize) -> Vec<Vec<T>> {
    let mut out: Vec<Vec<T>> = vec![vec![]];
    let mut last: Vec<Vec<T>> = vec![vec![]];
    for _ in 0..max {
        let mut next = vec![];
        for s in &last {
            for a in alpha {
                let mut t = s.clone();
                t.push(a.clone());
                next.push(t);
            }
        }
        out.extend(next.iter().cloned());
        last = next;
    }
    out
}

fn plain_case(stmts: Vec<GStmt>) -> Case {
    Case {
        esc: 0,
        quote: 0,
        comments: 0,
        indent: 0,
        shape: 0,
        stmts,
    }
}

fn exhaustive(opts: &Opts) -> Vec<Case> {
    let mut cases = vec![];
    let alpha = attr_alphabet();
    // every attribute sequence up to length 3 (4 when thorough) on a default-reject statement
    for attrs in seqs(&alpha, if opts.thorough() { 4 } else { 3 }) {
        cases.push(plain_case(vec![GStmt {
            attrs,
            body: std_body("n0"),
        }]));
    }
    // every attribute sequence up to length 2 × every body shape, next to a well-formed managed statement
    let witness = GStmt {
        attrs: vec![GAttr::Ns, GAttr::Comment(GOOD.into())],
        body: std_body("witness"),
    };
    for attrs in seqs(&alpha, 2) {
        for body in body_shapes("n0") {
            cases.push(plain_case(vec![
                witness.clone(),
                GStmt {
                    attrs: attrs.clone(),
                    body,
                },
            ]));
        }
    }
    // the jcmd namespace under another prefix, the prefix `jcmd` bound to another namespace: every
    // combination of how the annotation and the inactive flag are spelt, next to the witness
    {
        let comments = [GAttr::Comment(GOOD.into()), GAttr::AltComment(GOOD.into())];
        let actives = [
            None,
            Some(GAttr::Active("false".into())),
            Some(GAttr::AltActive("false".into())),
            Some(GAttr::AltActive("true".into())),
        ];
        for c in &comments {
            for a in &actives {
                for rebind in [false, true] {
                    for flip in [false, true] {
                        let mut attrs = vec![c.clone()];
                        if let Some(a) = a {
                            attrs.push(a.clone());
                        }
                        if flip {
                            attrs.reverse();
                        }
                        if rebind {
                            attrs.insert(if flip { attrs.len() } else { 0 }, GAttr::Rebind);
                        }
                        cases.push(plain_case(vec![
                            witness.clone(),
                            GStmt {
                                attrs: attrs.clone(),
                                body: std_body("n0"),
                            },
                        ]));
                        cases.push(plain_case(vec![GStmt {
                            attrs,
                            body: std_body("n0"),
                        }]));
                    }
                }
            }
        }
        // an un-annotated statement whose `jcmd:` prefix is not the jcmd namespace
        cases.push(plain_case(vec![GStmt {
            attrs: vec![GAttr::Rebind, GAttr::Comment(PLAIN.into())],
            body: std_body("n0"),
        }]));
        // many attributes in front of the ones that matter (30, 40, 300 of them)
        for n in [30usize, 40, 300] {
            for tail in [
                vec![GAttr::Ns, GAttr::Comment(GOOD.into()), GAttr::Active("false".into())],
                vec![GAttr::Ns, GAttr::Active("false".into()), GAttr::Comment(GOOD.into())],
                vec![GAttr::Ns, GAttr::Comment(GOOD.into())],
                vec![GAttr::Ns, GAttr::Comment(GOOD.into()), GAttr::Active("true".into())],
            ] {
                let mut attrs: Vec<GAttr> = (0..n).map(GAttr::Pad).collect();
                attrs.extend(tail);
                cases.push(plain_case(vec![
                    GStmt { attrs, body: std_body("n0") },
                    witness.clone(),
                ]));
            }
        }
        // a SELECTED statement that binds its annotation prefix itself (as Junos does), followed by a
        // statement that uses the same prefix without declaring it: there the prefix has its outer
        // meaning (another namespace), the attribute is no annotation, the statement is not managed
        for first_body in [std_body("n0"), vec![GBody::Name("n0".into()), GBody::Then("a".into())]] {
            cases.push(plain_case(vec![
                GStmt {
                    attrs: vec![GAttr::LocalNs, GAttr::KComment(GOOD.into())],
                    body: first_body.clone(),
                },
                GStmt {
                    attrs: vec![GAttr::KComment(GOOD.into())],
                    body: std_body("outer-meaning"),
                },
                witness.clone(),
            ]));
        }
        cases.push(plain_case(vec![
            GStmt {
                attrs: vec![GAttr::KComment(GOOD.into())],
                body: std_body("outer-meaning"),
            },
            GStmt {
                attrs: vec![GAttr::LocalNs, GAttr::KComment(GOOD.into())],
                body: std_body("n0"),
            },
        ]));
        // … FOLLOWED by ordinary statements: a namespace declaration is in scope for its element only,
        // so the binding made on a statement that is skipped must be gone for its later siblings
        let late = GStmt {
            attrs: vec![GAttr::Comment(GOOD.into())],
            body: std_body("late"),
        };
        for skipped in [
            vec![GAttr::Rebind, GAttr::Comment(PLAIN.into())],
            vec![GAttr::Rebind, GAttr::Comment(GOOD.into())],
            vec![GAttr::Rebind],
            vec![GAttr::Active("false".into()), GAttr::Rebind, GAttr::Comment(GOOD.into())],
        ] {
            cases.push(plain_case(vec![
                GStmt {
                    attrs: skipped.clone(),
                    body: std_body("n0"),
                },
                late.clone(),
                witness.clone(),
            ]));
        }
    }
    // duplicate names among managed / unmanaged statements
    let managed = |n: &str| GStmt {
        attrs: vec![GAttr::Ns, GAttr::Comment(GOOD.into())],
        body: std_body(n),
    };
    let variants: Vec<(&str, GStmt)> = vec![
        ("managed", managed("dup")),
        (
            "malformed",
            GStmt {
                attrs: vec![GAttr::Ns, GAttr::Comment(BAD.into())],
                body: std_body("dup"),
            },
        ),
        (
            "unannotated",
            GStmt {
                attrs: vec![],
                body: std_body("dup"),
            },
        ),
        (
            "inactive",
            GStmt {
                attrs: vec![
                    GAttr::Ns,
                    GAttr::Active("false".into()),
                    GAttr::Comment(GOOD.into()),
                ],
                body: std_body("dup"),
            },
        ),
        (
            "noreject",
            GStmt {
                attrs: vec![GAttr::Ns, GAttr::Comment(GOOD.into())],
                body: vec![GBody::Name("dup".into())],
            },
        ),
        (
            "other",
            GStmt {
                attrs: vec![GAttr::Ns, GAttr::Comment(GOOD.into())],
                body: vec![
                    GBody::Name("dup".into()),
                    GBody::Term,
                    GBody::Then("r".into()),
                ],
            },
        ),
    ];
    for (_, a) in &variants {
        for (_, b) in &variants {
            cases.push(plain_case(vec![a.clone(), b.clone()]));
            cases.push(plain_case(vec![a.clone(), managed("mid"), b.clone()]));
        }
    }
    // escaped names: "a&b" and "a&amp;b" are different names; "a&b" twice is a duplicate
    for (x, y) in [
        ("a&b", "a&amp;b"),
        ("a&b", "a&b"),
        ("a<b", "a&lt;b"),
        (" pad", "pad"),
    ] {
        for esc in 0..2 {
            let mut c = plain_case(vec![managed(x), managed(y)]);
            c.esc = esc;
            cases.push(c);
        }
    }
    // document shapes, styles
    for shape in 0..8u8 {
        for k in 0..2u8 {
            let mut c = plain_case(vec![
                managed("s1"),
                GStmt {
                    attrs: vec![],
                    body: std_body("s2"),
                },
                managed("s3"),
            ]);
            c.shape = shape;
            c.comments = k;
            c.indent = k;
            cases.push(c.clone());
            c.stmts.clear();
            cases.push(c);
        }
    }
    // every decoration × prefix form, every expression, every name (deterministic sweep)
    let mut r = Rng::new(7);
    for e in EXPRS.iter().chain(MALFORMED.iter()) {
        for _ in 0..12 {
            let v = annotation(&mut r, e);
            for (esc, quote) in [(0, 0), (1, 1)] {
                let mut c = plain_case(vec![GStmt {
                    attrs: vec![GAttr::Ns, GAttr::Comment(v.clone())],
                    body: std_body("n0"),
                }]);
                c.esc = esc;
                c.quote = quote;
                cases.push(c);
            }
        }
    }
    for n in NAMES {
        for esc in 0..2 {
            let mut c = plain_case(vec![managed(n)]);
            c.esc = esc;
            cases.push(c);
        }
    }
    // malformed attribute material (outside the grammar: correspondence only)
    let raws = [
        "jcmd:comment=\"&bad;\"",
        "jcmd:active=\"&bad;\"",
        "x=\"&bad;\"",
        "novalue",
        "jcmd:comment=\"/* bgpfu-fltr: AS-FOO */\" jcmd:comment",
        "jcmd:active=false",
    ];
    for raw in raws {
        for pos in 0..3 {
            let mut attrs = vec![
                GAttr::Ns,
                GAttr::Active("false".into()),
                GAttr::Comment(GOOD.into()),
            ];
            attrs.insert(pos + 1, GAttr::Raw(raw.into()));
            cases.push(plain_case(vec![
                witness.clone(),
                GStmt {
                    attrs,
                    body: std_body("n0"),
                },
            ]));
        }
        cases.push(plain_case(vec![GStmt {
            attrs: vec![GAttr::Ns, GAttr::Raw(raw.into())],
            body: std_body("n0"),
        }]));
    }
    cases
}

fn random_case(rng: &mut Rng) -> Case {
    let n = 1 + rng.below(6);
    let mut stmts = vec![];
    for i in 0..n {
        // attributes
        let mut attrs = vec![];
        let kind = rng.below(10);
        let annotated = kind < 7;
        if annotated || rng.chance(1, 3) {
            attrs.push(GAttr::Ns);
        }
        if annotated {
            let e = if rng.chance(1, 5) {
                *rng.pick(&MALFORMED)
            } else {
                *rng.pick(&EXPRS)
            };
            attrs.push(GAttr::Comment(annotation(rng, e)));
            if rng.chance(1, 6) {
                let e2 = if rng.chance(1, 3) {
                    *rng.pick(&MALFORMED)
                } else {
                    *rng.pick(&EXPRS)
                };
                attrs.push(GAttr::Comment(if rng.chance(1, 2) {
                    annotation(rng, e2)
                } else {
                    PLAIN.into()
                }));
            }
        } else if rng.chance(1, 3) {
            attrs.push(GAttr::Comment(PLAIN.into()));
        }
        if rng.chance(1, 4) {
            // Junos emits xmlns:jcmd once per jcmd attribute
            attrs.push(GAttr::Ns);
            attrs.push(GAttr::Active(if rng.chance(3, 4) {
                "false".into()
            } else {
                rng.pick(&["true", "FALSE", " false", ""]).to_string()
            }));
        }
        for _ in 0..rng.below(3) {
            attrs.push(GAttr::Other(rng.below(7) as u8));
        }
        if rng.chance(1, 8) {
            // the same namespace under another prefix
            for a in attrs.iter_mut() {
                if rng.chance(1, 2) {
                    *a = match a.clone() {
                        GAttr::Active(v) => GAttr::AltActive(v),
                        GAttr::Comment(v) => GAttr::AltComment(v),
                        x => x,
                    };
                }
            }
        } else if rng.chance(1, 12) {
            // the prefix `jcmd` bound to another namespace on this statement
            attrs.retain(|a| !matches!(a, GAttr::Ns));
            attrs.push(GAttr::Rebind);
        }
        if rng.chance(1, 2) {
            rng.shuffle(&mut attrs);
        }
        if rng.chance(1, 8) {
            let k = rng.below(attrs.len().max(1));
            if let Some(a) = attrs.get(k).cloned() {
                attrs.insert(rng.below(attrs.len() + 1), a);
            }
        }
        // body
        let base = *rng.pick(&NAMES);
        let name = if rng.chance(1, 12) {
            "dup".to_string()
        } else {
            format!("{base}-{i}")
        };
        let shapes = body_shapes(&name);
        let grammar_shapes = 23;
        let mut body = if rng.chance(3, 5) {
            shapes[0].clone()
        } else if rng.chance(1, 40) {
            shapes[rng.below(shapes.len())].clone()
        } else {
            shapes[rng.below(grammar_shapes)].clone()
        };
        if rng.chance(1, 5) {
            body.insert(rng.below(body.len() + 1), GBody::Comment);
        }
        stmts.push(GStmt { attrs, body });
    }
    Case {
        esc: rng.below(2) as u8,
        quote: rng.below(2) as u8,
        comments: rng.below(2) as u8,
        indent: rng.below(2) as u8,
        shape: if rng.chance(1, 25) {
            rng.below(8) as u8
        } else {
            0
        },
        stmts,
    }
}

fn classify(c: &Case) -> &'static str {
    if c.spec_config().is_none() {
        "outside-grammar"
    } else {
        "grammar"
    }
}

pub fn main(opts: &Opts) {
    let cfg = opts
        .extra
        .iter()
        .find_map(|e| e.strip_prefix("cfg="))
        .unwrap_or("pinned")
        .to_string();
    let mut sink = Sink::new();
    let mut cases: Vec<Case> = vec![];
    if let Some(p) = &opts.replay {
        for l in std::fs::read_to_string(p).unwrap().lines() {
            if let Some(d) = l.strip_prefix("case\t") {
                match Case::parse(d.split('\t').next().unwrap()) {
                    Some(c) => cases.push(c),
                    None => sink.notes.push(format!("unparsable case descriptor: {d}")),
                }
            }
        }
    } else {
        cases = exhaustive(opts);
        sink.add("cases.exhaustive", cases.len() as u64);
        let mut rng = Rng::new(opts.seed);
        let n = if opts.thorough() { 12000 } else { 1200 };
        for _ in 0..n {
            cases.push(random_case(&mut rng));
        }
        sink.add("cases.random", n as u64);
    }
    let mut seen = std::collections::HashSet::new();
    for c in &cases {
        let d = c.descr();
        if !seen.insert(d.clone()) {
            sink.count("cases.duplicate-skipped");
            continue;
        }
        debug_assert_eq!(Case::parse(&d).as_ref(), Some(c));
        let xml = c.xml();
        progress(&d);
        let real = canon(&run_real(xml.clone()));
        progress_idle();
        let evs = tokenize(&xml);
        let (po, uo) = oracles_from_events(&evs);
        sink.corr(
            &d,
            format!("fetch cands {cfg} {po} {uo} {evs}"),
            real.clone(),
        );
        sink.count(&format!(
            "result.{}",
            if real == "err" {
                "err"
            } else if real == "ok:." {
                "ok-none"
            } else {
                "ok-some"
            }
        ));
        sink.count(&format!("class.{}", classify(c)));
        if let Some(sc) = c.spec_config() {
            sink.spec(
                &d,
                format!("fetch spec {sc} {} {real}", oracle_from_case(c)),
            );
        }
        if real.contains("=M") {
            sink.count("result.with-malformed");
        }
        if sink.samples.len() < 4 && c.stmts.len() >= 3 {
            sink.sample(format!("{d} => {real}"));
        }
    }
    sink.write(opts, "cands");
}
