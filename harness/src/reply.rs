//! C08 (and the reply part of C13/C14): reply documents injected by the in-memory fake server as
//! the reply to a real request of each of the four reply kinds, through the real `Session`.
use std::time::Duration;

use netconf::{
    message::rpc::operation::{
        junos::{
            load_configuration::{Config, Merge, Text},
            CloseConfiguration, LoadConfiguration,
        },
        Builder, Commit, Get,
    },
    Error,
};

use crate::{memtransport as mt, util::*, xmltok::tokenize};

pub const KINDS: [&str; 4] = ["empty", "data", "bare", "load"];

const CAPS: [&str; 4] = [
    mt::CAP_BASE10,
    "urn:ietf:params:netconf:capability:candidate:1.0",
    mt::CAP_JUNOS,
    "urn:ietf:params:netconf:capability:validate:1.1",
];

fn kebab(s: &str) -> String {
    let mut out = String::new();
    for (i, c) in s.chars().enumerate() {
        if c.is_uppercase() {
            if i > 0 {
                out.push('-');
            }
            out.extend(c.to_lowercase());
        } else {
            out.push(c);
        }
    }
    out
}

fn field(dbg: &str, name: &str) -> String {
    let key = format!("{name}: ");
    match dbg.find(&key) {
        Some(i) => dbg[i + key.len()..]
            .chars()
            .take_while(|c| c.is_alphanumeric())
            .collect(),
        None => "?".into(),
    }
}

pub fn show_err(e: &Error) -> String {
    match e {
        Error::RpcError(errs) => {
            let v: Vec<String> = errs
                .iter()
                .map(|e| {
                    let d = format!("{e:?}");
                    format!(
                        "{}/{}/{}",
                        field(&d, "error_type").to_lowercase(),
                        kebab(&field(&d, "error_tag")),
                        field(&d, "severity").to_lowercase()
                    )
                })
                .collect();
            format!(
                "rpcerr:{}",
                if v.is_empty() {
                    ".".into()
                } else {
                    v.join(";")
                }
            )
        }
        _ => "err".into(),
    }
}

/// Issue one real request of reply kind `kind` on `session`; returns the reply future's outcome after
/// the peer delivered `reply` (a complete message text incl. the end-of-message marker).
pub async fn outcome(kind: &str, reply_of: impl Fn(&str) -> String) -> String {
    outcome_raw(kind, |id| reply_of(id).into_bytes()).await
}

pub async fn outcome_raw(kind: &str, reply_of: impl Fn(&str) -> Vec<u8>) -> String {
    let (s, peer) = mt::session_with_hello(&mt::hello(&CAPS, 4)).await;
    let mut s = match s {
        Ok(s) => s,
        Err(e) => return format!("session-err:{e}"),
    };
    macro_rules! go {
        ($fut:expr, $show:expr) => {{
            let fut = match $fut.await {
                Ok(f) => f,
                Err(e) => return format!("send-err:{e}"),
            };
            let sent = peer.sent();
            let id = mt::message_id_of(sent.last().unwrap()).unwrap_or_default();
            peer.deliver(reply_of(&id));
            match tokio::time::timeout(Duration::from_secs(5), fut).await {
                Err(_) => "timeout".to_string(),
                Ok(Ok(v)) => $show(v),
                Ok(Err(e)) => show_err(&e),
            }
        }};
    }
    match kind {
        "empty" => go!(s.rpc::<Commit, _>(|b| b.finish()), |_v: ()| "ok"
            .to_string()),
        "data" => go!(
            s.rpc::<Get, _>(|b| b.finish()),
            |v: netconf::message::rpc::operation::Opaque| format!("data:{}", hexs(&v.to_string()))
        ),
        "bare" => go!(s.rpc::<CloseConfiguration, _>(|b| b.finish()), |_v: ()| {
            "ok".to_string()
        }),
        "load" => go!(
            s.rpc::<LoadConfiguration<Config<String, Text, Merge>>, _>(|b| b
                .source(Config::new("x".to_string(), Text, Merge))
                .finish()),
            |_v: ()| "ok".to_string()
        ),
        _ => "bad-kind".into(),
    }
}

// ---------------------------------------------------------------------------------------------
// reply grammar

/// Junos / look-alike vocabulary that is not a positive indication of any operation modelled here
pub const JUNK_NAMES: [&str; 9] = [
    "load-success",
    "success",
    "load-ok",
    "OK",
    "okay",
    "ok-x",
    "commit-success",
    "x:ok xmlns:x=\"urn:example:x\"",
    "ok xmlns=\"urn:example:other\"",
];

#[derive(Clone, Debug)]
pub enum Child {
    Ok,
    OkStartEnd,
    Err {
        ty: &'static str,
        tag: &'static str,
        sev: &'static str,
        extra: u8,
    },
    Data(&'static str),
    Count(usize),
    Comment,
    Junk,
    /// an element outside the grammar whose NAME sounds like a positive indication (`JUNK_NAMES`)
    JunkNamed(usize),
    Results(Vec<Child>),
    /// an element the reply grammar does not know (`<commit-results>`, `<results>` …) wrapped around
    /// children of the grammar
    Wrap(&'static str, Vec<Child>),
}

impl Child {
    pub fn token(&self) -> String {
        match self {
            Child::Ok => "ok".into(),
            Child::OkStartEnd => "okse".into(),
            Child::Err { ty, tag, sev, extra } if *extra >= 16 => format!("e:{ty}/{tag}.x{extra}/{sev}"),
            Child::Err { ty, tag, sev, .. } => format!("e:{ty}/{tag}/{sev}"),
            Child::Data(_) => "data".into(),
            Child::Count(k) => format!("c{k}"),
            Child::Comment => "cmt".into(),
            Child::Junk => "junk".into(),
            Child::JunkNamed(i) => format!("junk.{i}"),
            Child::Wrap(n, cs) => format!(
                "W:{n}:{}",
                if cs.is_empty() { "_".into() } else { cs.iter().map(|c| c.token()).collect::<Vec<_>>().join("+") }
            ),
            Child::Results(cs) => {
                format!(
                    "R:{}",
                    if cs.is_empty() {
                        "_".into()
                    } else {
                        cs.iter().map(|c| c.token()).collect::<Vec<_>>().join("+")
                    }
                )
            }
        }
    }
    pub fn xml(&self) -> String {
        match self {
            Child::Ok => "<ok/>".into(),
            Child::OkStartEnd => "<ok></ok>".into(),
            Child::Err {
                ty,
                tag,
                sev,
                extra,
            } => {
                let mut s = format!(
                    "<rpc-error><error-type>{ty}</error-type><error-tag>{tag}</error-tag><error-severity>{sev}</error-severity>"
                );
                if extra & 1 != 0 {
                    s.push_str("<error-app-tag> app </error-app-tag>");
                }
                if extra & 2 != 0 {
                    s.push_str("<error-message xml:lang=\"en\">\n  statement creation failed\n</error-message>");
                }
                if extra & 4 != 0 {
                    s.push_str("<error-info><bad-element>route-filter</bad-element><session-id>0</session-id></error-info>");
                }
                if extra & 8 != 0 {
                    s.push_str("<error-path>/a/b</error-path>");
                }
                // a leaf given twice, the second time with the harmless value
                if extra & 16 != 0 {
                    s.push_str("<error-severity>warning</error-severity>");
                }
                if extra & 32 != 0 {
                    s.push_str("<error-tag>operation-failed</error-tag><error-type>application</error-type>");
                }
                s.push_str("</rpc-error>");
                s
            }
            Child::Data(d) => format!("<data>{d}</data>"),
            Child::Count(k) => format!("<load-error-count>{k}</load-error-count>"),
            Child::Comment => "<!-- c -->".into(),
            Child::Junk => "<unexpected-element/>".into(),
            Child::JunkNamed(i) => format!("<{}/>", JUNK_NAMES[*i % JUNK_NAMES.len()]),
            Child::Wrap(n, cs) => format!("<{n}>{}</{n}>", cs.iter().map(|c| c.xml()).collect::<String>()),
            Child::Results(cs) => format!(
                "<load-configuration-results>{}</load-configuration-results>",
                cs.iter().map(|c| c.xml()).collect::<String>()
            ),
        }
    }
}

pub fn doc_tokens(cs: &[Child]) -> String {
    if cs.is_empty() {
        ".".into()
    } else {
        cs.iter().map(|c| c.token()).collect::<Vec<_>>().join(";")
    }
}

pub fn doc_xml(id: &str, cs: &[Child]) -> String {
    format!(
        "<rpc-reply xmlns=\"{}\" xmlns:junos=\"http://xml.juniper.net/junos/23.1R0/junos\" message-id=\"{id}\">{}</rpc-reply>]]>]]>",
        mt::BASE_NS,
        cs.iter().map(|c| c.xml()).collect::<String>()
    )
}

fn alphabet(rng: &mut Rng) -> Vec<Child> {
    let e = |sev: &'static str, rng: &mut Rng| Child::Err {
        ty: *rng.pick(&["transport", "rpc", "protocol", "application"]),
        tag: *rng.pick(&[
            "operation-failed",
            "in-use",
            "bad-element",
            "lock-denied",
            "malformed-message",
        ]),
        sev,
        extra: if rng.chance(1, 6) { rng.below(64) as u8 } else { rng.below(16) as u8 },
    };
    vec![
        Child::Ok,
        e("error", rng),
        e("warning", rng),
        Child::Data("<configuration><a>1</a></configuration>"),
        Child::Comment,
        Child::Count(1),
        Child::Count(0),
        Child::Count(2),
        Child::OkStartEnd,
        Child::Junk,
    ]
}

fn seqs(
    alpha: &dyn Fn(&mut Rng) -> Vec<Child>,
    n_core: usize,
    maxlen: usize,
    rng: &mut Rng,
) -> Vec<Vec<Child>> {
    // exhaustive over the first n_core letters up to maxlen
    let mut out = vec![vec![]];
    let mut frontier: Vec<Vec<usize>> = vec![vec![]];
    for _ in 0..maxlen {
        let mut next = vec![];
        for f in &frontier {
            for i in 0..n_core {
                let mut g = f.clone();
                g.push(i);
                next.push(g);
            }
        }
        for g in &next {
            let a = alpha(rng);
            out.push(g.iter().map(|&i| a[i].clone()).collect());
        }
        frontier = next;
    }
    out
}

pub fn gen_docs(kind: &str, opts: &Opts, rng: &mut Rng) -> Vec<Vec<Child>> {
    let thorough = opts.thorough();
    let mut docs = vec![];
    if kind == "load" {
        // inner alphabet: ok, errE, errW, count(1), comment, count(0), count(2)
        let inner_alpha = |rng: &mut Rng| {
            let a = alphabet(rng);
            vec![
                a[0].clone(),
                a[1].clone(),
                a[2].clone(),
                a[5].clone(),
                a[4].clone(),
                a[8].clone(), // <ok></ok>: inside the exhaustive part
                a[6].clone(),
                a[7].clone(),
                a[9].clone(),
            ]
        };
        for inner in seqs(&inner_alpha, 6, if thorough { 5 } else { 4 }, rng) {
            docs.push(vec![Child::Results(inner)]);
        }
        let n = if thorough { 3000 } else { 300 };
        for _ in 0..n {
            let a = inner_alpha(rng);
            let len = rng.below(6);
            let inner: Vec<Child> = (0..len).map(|_| rng.pick(&a).clone()).collect();
            let mut top = vec![];
            let al = alphabet(rng);
            if rng.chance(1, 5) {
                top.push(rng.pick(&al).clone());
            }
            top.push(Child::Results(inner));
            if rng.chance(1, 5) {
                top.push(rng.pick(&al).clone());
            }
            if rng.chance(1, 10) {
                top.push(Child::Results(vec![Child::Ok]));
            }
            docs.push(top);
        }
    } else {
        // top-level alphabet: ok, errE, errW, data, comment (+ random extras)
        // … and the start/end form <ok></ok> (sixth letter of the exhaustive part)
        let top_alpha = |r: &mut Rng| {
            let a = alphabet(r);
            vec![a[0].clone(), a[1].clone(), a[2].clone(), a[3].clone(), a[4].clone(), a[8].clone()]
        };
        for d in seqs(&top_alpha, 6, if thorough { 5 } else { 4 }, rng) {
            docs.push(d);
        }
        let n = if thorough { 3000 } else { 300 };
        for _ in 0..n {
            let a = alphabet(rng);
            let len = rng.below(6);
            let mut d: Vec<Child> = (0..len).map(|_| rng.pick(&a).clone()).collect();
            if rng.chance(1, 10) {
                d.push(Child::Results(vec![Child::Ok]));
            }
            docs.push(d);
        }
    }
    // an element outside the grammar wrapped around errors, followed by the positive indication:
    // whatever a reader does with an element it does not know, the error inside must not vanish
    {
        let a = alphabet(rng);
        let (err_e, err_w) = (a[1].clone(), a[2].clone());
        for name in ["commit-results", "results", "routing-engine", "load-configuration-results"] {
            for inner in [vec![err_e.clone()], vec![err_w.clone(), err_e.clone()], vec![err_w.clone()], vec![]] {
                let w = Child::Wrap(name, inner.clone());
                let pos: Vec<Child> = match kind {
                    "empty" => vec![Child::Ok],
                    "data" => vec![Child::Data("<configuration><a>1</a></configuration>")],
                    "load" => vec![Child::Results(vec![Child::Ok])],
                    _ => vec![],
                };
                let mut d = vec![w.clone()];
                d.extend(pos.clone());
                docs.push(d);
                let mut d = pos.clone();
                d.push(w.clone());
                docs.push(d);
            }
        }
    }
    // an rpc-error with a leaf given twice (severity error, then severity warning), before the
    // positive indication: whichever a reader keeps, this is no success
    {
        for extra in [16u8, 32, 48, 16 | 2] {
            let e = Child::Err { ty: "protocol", tag: "operation-failed", sev: "error", extra };
            let d = match kind {
                "load" => vec![Child::Results(vec![e.clone(), Child::Ok])],
                "empty" => vec![e.clone(), Child::Ok],
                "data" => vec![e.clone(), Child::Data("<configuration><a>1</a></configuration>")],
                _ => vec![e.clone()],
            };
            docs.push(d);
        }
    }
    // elements that merely SOUND positive (Junos vocabulary of other replies, look-alikes, `ok` in a
    // foreign namespace), alone, after an error, after a warning, before the real indication
    {
        let a = alphabet(rng);
        let (err_e, err_w) = (a[1].clone(), a[2].clone());
        for i in 0..JUNK_NAMES.len() {
            let j = Child::JunkNamed(i);
            for pre in [vec![], vec![err_e.clone()], vec![err_w.clone()], vec![err_w.clone(), err_e.clone()]] {
                let mut inner = pre.clone();
                inner.push(j.clone());
                if kind == "load" {
                    docs.push(vec![Child::Results(inner.clone())]);
                    let mut i2 = inner.clone();
                    i2.push(Child::Ok);
                    docs.push(vec![Child::Results(i2)]);
                    let mut d = pre.clone();
                    d.push(Child::Results(vec![j.clone()]));
                    docs.push(d);
                } else {
                    docs.push(inner.clone());
                    let mut d = inner.clone();
                    match kind {
                        "empty" => d.push(Child::Ok),
                        "data" => d.push(Child::Data("<configuration><a>1</a></configuration>")),
                        _ => {}
                    }
                    docs.push(d);
                }
            }
        }
    }
    // many rpc-errors (limits on how many are kept): n warnings, then one of severity error, then the
    // positive indication — success would hide the error
    let a = alphabet(rng);
    let (err_e, err_w) = (a[1].clone(), a[2].clone());
    for n in [255usize, 1023, 1024, 1025, 1100] {
        let mut many: Vec<Child> = (0..n).map(|_| err_w.clone()).collect();
        many.push(err_e.clone());
        if kind == "load" {
            let mut inner = many.clone();
            inner.push(Child::Ok);
            docs.push(vec![Child::Results(inner)]);
            let mut inner = many.clone();
            inner.push(Child::Count(n + 1));
            docs.push(vec![Child::Results(inner)]);
        } else {
            let mut d = many.clone();
            match kind {
                "empty" => d.push(Child::Ok),
                "data" => d.push(Child::Data("<configuration><a>1</a></configuration>")),
                _ => {}
            }
            docs.push(d);
        }
    }
    docs
}

fn parse_token(t: &str) -> Option<Child> {
    Some(match t {
        "ok" => Child::Ok,
        "okse" => Child::OkStartEnd,
        "data" => Child::Data("<configuration><a>1</a></configuration>"),
        "cmt" => Child::Comment,
        "junk" => Child::Junk,
        _ if t.starts_with("junk.") => Child::JunkNamed(t[5..].parse().ok()?),
        _ if t.starts_with("e:") => {
            let f: Vec<&str> = t[2..].split('/').collect();
            if f.len() != 3 {
                return None;
            }
            let leak = |s: &str| -> &'static str { Box::leak(s.to_string().into_boxed_str()) };
            let (tag, extra) = match f[1].split_once(".x") {
                Some((t, x)) => (t, x.parse().unwrap_or(0)),
                None => (f[1], 0),
            };
            Child::Err {
                ty: leak(f[0]),
                tag: leak(tag),
                sev: leak(f[2]),
                extra,
            }
        }
        _ if t.starts_with("W:") => {
            let (n, inner) = t[2..].split_once(':')?;
            let leak = |s: &str| -> &'static str { Box::leak(s.to_string().into_boxed_str()) };
            Child::Wrap(
                leak(n),
                if inner == "_" { vec![] } else { inner.split('+').map(parse_token).collect::<Option<Vec<_>>>()? },
            )
        }
        _ if t.starts_with("R:") => {
            let inner = &t[2..];
            if inner == "_" {
                Child::Results(vec![])
            } else {
                Child::Results(
                    inner
                        .split('+')
                        .map(parse_token)
                        .collect::<Option<Vec<_>>>()?,
                )
            }
        }
        _ if t.starts_with('c') => Child::Count(t[1..].parse().ok()?),
        _ => return None,
    })
}

/// valid-looking documents (so that error handling is not all the run sees)
fn gen_valid(kind: &str, rng: &mut Rng) -> Vec<Child> {
    let a = alphabet(rng);
    let (errE, errW, cmt) = (a[1].clone(), a[2].clone(), a[4].clone());
    let mut d = vec![];
    let sprinkle = |d: &mut Vec<Child>, rng: &mut Rng| {
        if rng.chance(1, 3) {
            d.push(cmt.clone());
        }
    };
    match kind {
        "load" => {
            let mut inner = vec![];
            if rng.chance(1, 2) {
                for _ in 0..rng.below(3) {
                    inner.push(errW.clone());
                    sprinkle(&mut inner, rng);
                }
                inner.push(Child::Ok);
            } else {
                let n = 1 + rng.below(3);
                for _ in 0..n {
                    inner.push(if rng.chance(2, 3) {
                        errE.clone()
                    } else {
                        errW.clone()
                    });
                    sprinkle(&mut inner, rng);
                }
                inner.push(Child::Count(n));
            }
            sprinkle(&mut d, rng);
            d.push(Child::Results(inner));
            sprinkle(&mut d, rng);
        }
        _ => {
            sprinkle(&mut d, rng);
            if rng.chance(1, 2) {
                match kind {
                    "empty" => d.push(Child::Ok),
                    "data" => d.push(Child::Data("<configuration><a>1</a></configuration>")),
                    _ => {}
                }
            } else {
                for _ in 0..(1 + rng.below(3)) {
                    d.push(if rng.chance(2, 3) {
                        errE.clone()
                    } else {
                        errW.clone()
                    });
                    sprinkle(&mut d, rng);
                }
            }
            sprinkle(&mut d, rng);
        }
    }
    d
}

pub fn main(opts: &Opts) {
    let mut rng = Rng::new(opts.seed);
    let mut sink = Sink::new();
    let cfg = if opts.extra.iter().any(|e| e == "pinned") {
        "pinned"
    } else {
        "fixed"
    };
    let mut jobs: Vec<(String, Vec<Child>)> = vec![];
    if let Some(p) = &opts.replay {
        for l in std::fs::read_to_string(p).unwrap().lines() {
            if let Some(d) = l.strip_prefix("case\t") {
                let d = d.split('\t').next().unwrap();
                let mut it = d.splitn(2, ';');
                let (Some(kind), Some(toks)) = (it.next(), it.next()) else {
                    continue;
                };
                let doc = if toks == "." {
                    Some(vec![])
                } else {
                    toks.split(';').map(parse_token).collect::<Option<Vec<_>>>()
                };
                if let Some(doc) = doc {
                    jobs.push((kind.to_string(), doc));
                }
            }
        }
    } else {
        for kind in KINDS {
            let mut r = Rng::new(rng.next());
            for d in gen_docs(kind, opts, &mut r) {
                jobs.push((kind.to_string(), d));
            }
            for _ in 0..(if opts.thorough() { 4000 } else { 600 }) {
                jobs.push((kind.to_string(), gen_valid(kind, &mut r)));
            }
        }
    }
    // thread-level watchdog: a reader loop that never returns cannot be interrupted from inside
    let results = run_pool_watchdog_opt(
        jobs.clone(),
        16,
        std::time::Duration::from_secs(20),
        8,
        |(kind, doc)| {
            let rt = tokio::runtime::Builder::new_current_thread()
                .enable_all()
                .build()
                .unwrap();
            rt.block_on(async {
                let out = outcome(&kind, |id| doc_xml(id, &doc)).await;
                out
            })
        },
    );
    for ((kind, doc), out) in jobs.iter().zip(results) {
        let text = doc_xml("1", doc);
        let toks = doc_tokens(doc);
        let case = format!("{kind};{toks}");
        let out = match out {
            Ok(o) => o,
            Err(Stuck::Timeout) => {
                sink.direct(&case, "violation reader-does-not-return".into());
                "hang".to_string()
            }
            Err(Stuck::Skipped) => {
                sink.count("skipped_after_8_stuck_threads");
                continue;
            }
        };
        sink.corr(
            &case,
            format!("xml reply {cfg} {kind} {}", tokenize(&text)),
            out.clone(),
        );
        sink.spec(&case, format!("xml spec-reply {kind} {toks} {out}"));
        sink.count(&format!("kind.{kind}"));
        sink.count(&format!("outcome.{}", out.split(':').next().unwrap()));
        sink.count(&format!("children.{}", doc.len().min(6)));
        if sink.samples.len() < 6 && doc.len() >= 2 {
            sink.sample(format!("{case} -> {out}"));
        }
    }
    // a frame is ONE document: two `<rpc-reply>` root elements in one frame (with the same id) are
    // never a success, whichever of them carries the error or the positive indication
    if opts.replay.is_none() {
        let mut r = Rng::new(rng.next());
        for kind in KINDS {
            let a = alphabet(&mut r);
            let (err_e, err_w) = (a[1].clone(), a[2].clone());
            let pos: Vec<Child> = match kind {
                "empty" => vec![Child::Ok],
                "data" => vec![Child::Data("<configuration><a>1</a></configuration>")],
                "load" => vec![Child::Results(vec![Child::Ok])],
                _ => vec![],
            };
            let wrap = |cs: &[Child]| -> Vec<Child> {
                if kind == "load" {
                    vec![Child::Results(cs.to_vec())]
                } else {
                    cs.to_vec()
                }
            };
            let roots: Vec<Vec<Child>> = vec![
                pos.clone(),
                wrap(&[err_e.clone()]),
                wrap(&[err_w.clone()]),
                if kind == "load" {
                    vec![Child::Results(vec![err_w.clone(), Child::Ok])]
                } else {
                    let mut d = vec![err_w.clone()];
                    d.extend(pos.clone());
                    d
                },
            ];
            for x in &roots {
                for y in &roots {
                    for sep in ["", "<!-- between -->", "\n"] {
                        let case = format!("tworoots;{kind};{};{};{}", doc_tokens(x).replace(';', "+"), doc_tokens(y).replace(';', "+"), hexs(sep));
                        let (x2, y2, sep2) = (x.clone(), y.clone(), sep.to_string());
                        let text_of = move |id: &str| {
                            let first = doc_xml(id, &x2);
                            format!("{}{sep2}{}", first.trim_end_matches("]]>]]>"), doc_xml(id, &y2))
                        };
                        let rt = tokio::runtime::Builder::new_current_thread().enable_all().build().unwrap();
                        let out = rt.block_on(outcome(kind, &text_of));
                        sink.corr(&case, format!("xml reply {cfg} {kind} {}", tokenize(&text_of("1"))), out.clone());
                        let verdict = if out == "ok" || out.starts_with("data:") {
                            "violation two-root-frame-reported-as-success".to_string()
                        } else {
                            "ok".to_string()
                        };
                        sink.direct(&case, verdict);
                        sink.count("tworoots.cases");
                    }
                }
            }
        }
    }
    sink.write(opts, "reply");
}
