//! In-memory fake Junos NETCONF server on a `memtransport::Peer`: answers the agent's requests
//! according to a script, with fault injection by request position (C04; also used end-to-end).
use std::sync::{Arc, Mutex};

use crate::memtransport as mt;

#[derive(Clone, Debug, PartialEq)]
pub enum Fault {
    RpcError,
    /// an rpc-error of severity error, one of severity warning, then `<ok/>`: not an acknowledgement
    ErrWarnOk,
    /// two rpc-errors (warning, error), for a load also `<load-error-count>`: not an acknowledgement
    ErrCount,
    /// 300 rpc-errors of severity warning, then one of severity error, then `<ok/>`: not an acknowledgement
    ManyWarnErrOk,
    /// an rpc-error of severity error followed by an element that merely *sounds* positive
    /// (`<load-success/>`, Junos vocabulary of other replies): not an acknowledgement
    ErrLoadSuccess,
    /// NOT a fault: a warning followed by `<ok/>` (for bare replies: a warning only) is a positive
    /// acknowledgement; the run must go on exactly as without it
    WarnOk,
    Malformed,
    WrongId,
    CloseBefore,
    CloseAfter,
}

impl Fault {
    pub fn token(&self) -> &'static str {
        match self {
            Fault::RpcError => "rpcerr",
            Fault::ErrWarnOk => "errwarnok",
            Fault::ErrCount => "errcount",
            Fault::ManyWarnErrOk => "manywarnerrok",
            Fault::ErrLoadSuccess => "errloadsuccess",
            Fault::WarnOk => "warnok",
            Fault::Malformed => "malformed",
            Fault::WrongId => "wrongid",
            Fault::CloseBefore => "closebefore",
            Fault::CloseAfter => "closeafter",
        }
    }
    pub fn parse(s: &str) -> Option<Fault> {
        Some(match s {
            "rpcerr" => Fault::RpcError,
            "errwarnok" => Fault::ErrWarnOk,
            "errcount" => Fault::ErrCount,
            "manywarnerrok" => Fault::ManyWarnErrOk,
            "errloadsuccess" => Fault::ErrLoadSuccess,
            "warnok" => Fault::WarnOk,
            "malformed" => Fault::Malformed,
            "wrongid" => Fault::WrongId,
            "closebefore" => Fault::CloseBefore,
            "closeafter" => Fault::CloseAfter,
            _ => return None,
        })
    }
}

#[derive(Clone, Default)]
pub struct Script {
    /// `<configuration>…` content returned for get-config on <running/>
    pub running: String,
    /// `<configuration>…` content returned for get-config on <candidate/> (the ephemeral instance)
    pub ephemeral: String,
    /// (1-based request position, fault)
    pub fault: Option<(usize, Fault)>,
}

#[derive(Default, Debug)]
pub struct Log {
    pub names: Vec<String>,
    pub loads: Vec<String>, // payloads of load-configuration requests
}

fn op_name(req: &str) -> String {
    // first element inside <rpc …>
    let Some(i) = req.find("<rpc") else {
        return "?".into();
    };
    let rest = &req[i..];
    let Some(j) = rest.find('>') else {
        return "?".into();
    };
    let inner = &rest[j + 1..];
    let Some(k) = inner.find('<') else {
        return "?".into();
    };
    inner[k + 1..]
        .chars()
        .take_while(|c| c.is_alphanumeric() || *c == '-')
        .collect()
}

const WARN: &str = "<rpc-error><error-type>application</error-type><error-tag>operation-failed</error-tag><error-severity>warning</error-severity><error-message>statement not found</error-message></rpc-error>";
const ERR: &str = "<rpc-error><error-type>protocol</error-type><error-tag>operation-failed</error-tag><error-severity>error</error-severity><error-message>injected</error-message></rpc-error>";

fn reply(id: &str, body: &str) -> String {
    format!("<rpc-reply xmlns=\"{}\" xmlns:junos=\"http://xml.juniper.net/junos/23.1R0/junos\" message-id=\"{id}\">{body}</rpc-reply>]]>]]>", mt::BASE_NS)
}

/// serve one session on `peer` until the client closes the session or the script closes the transport
pub async fn serve(peer: mt::Peer, script: Script, log: Arc<Mutex<Log>>) {
    peer.deliver(mt::hello(
        &[
            mt::CAP_BASE10,
            mt::CAP_JUNOS,
            "urn:ietf:params:netconf:capability:candidate:1.0",
        ],
        7,
    ));
    let mut handled = 1usize; // index 0 is the client's hello
    loop {
        let sent = peer.wait_sent(handled + 1).await;
        if sent.len() <= handled {
            return; // transport closed
        }
        let req = String::from_utf8_lossy(&sent[handled]).to_string();
        let pos = handled; // 1-based position of this request
        handled += 1;
        let name = op_name(&req);
        let id = mt::message_id_of(req.as_bytes()).unwrap_or_default();
        {
            let mut g = log.lock().unwrap();
            g.names.push(name.clone());
            if name == "load-configuration" {
                g.loads.push(req.clone());
            }
        }
        let fault = match &script.fault {
            Some((p, f)) if *p == pos => Some(f.clone()),
            _ => None,
        };
        if fault == Some(Fault::CloseBefore) {
            peer.close();
            return;
        }
        let ok_body = match name.as_str() {
            "get-config" => {
                let cfg = if req.contains("<running/>") {
                    &script.running
                } else {
                    &script.ephemeral
                };
                format!("<data>{cfg}</data>")
            }
            "load-configuration" => {
                "<load-configuration-results><ok/></load-configuration-results>".to_string()
            }
            "commit-configuration" | "close-session" => "<ok/>".to_string(),
            _ => String::new(), // open-configuration, close-configuration: bare reply
        };
        let msg = match fault {
            Some(Fault::RpcError) => {
                if name == "load-configuration" {
                    reply(&id, &format!("<load-configuration-results>{ERR}<load-error-count>1</load-error-count></load-configuration-results>"))
                } else {
                    reply(&id, ERR)
                }
            }
            Some(Fault::ErrWarnOk) => {
                let ok = if name == "get-config" {
                    ok_body.clone()
                } else {
                    "<ok/>".to_string()
                };
                if name == "load-configuration" {
                    reply(&id, &format!("<load-configuration-results>{ERR}{WARN}<ok/></load-configuration-results>"))
                } else {
                    reply(&id, &format!("{ERR}{WARN}{ok}"))
                }
            }
            Some(Fault::ManyWarnErrOk) => {
                let ok = if name == "get-config" { ok_body.clone() } else { "<ok/>".to_string() };
                let many = WARN.repeat(300);
                if name == "load-configuration" {
                    reply(&id, &format!("<load-configuration-results>{many}{ERR}<ok/></load-configuration-results>"))
                } else {
                    reply(&id, &format!("{many}{ERR}{ok}"))
                }
            }
            Some(Fault::ErrLoadSuccess) => {
                if name == "load-configuration" {
                    reply(&id, &format!("<load-configuration-results>{ERR}<load-success/></load-configuration-results>"))
                } else {
                    reply(&id, &format!("{ERR}<load-success/>"))
                }
            }
            Some(Fault::ErrCount) => {
                if name == "load-configuration" {
                    reply(&id, &format!("<load-configuration-results>{WARN}{ERR}<load-error-count>1</load-error-count></load-configuration-results>"))
                } else {
                    reply(&id, &format!("{WARN}{ERR}"))
                }
            }
            Some(Fault::WarnOk) => {
                if name == "load-configuration" {
                    reply(
                        &id,
                        &format!(
                            "<load-configuration-results>{WARN}<ok/></load-configuration-results>"
                        ),
                    )
                } else {
                    reply(&id, &ok_body)
                }
            }
            Some(Fault::Malformed) => format!(
                "<rpc-reply xmlns=\"{}\" message-id=\"{id}\"><unterminated]]>]]>",
                mt::BASE_NS
            ),
            Some(Fault::WrongId) => reply("999999", &ok_body),
            _ => reply(&id, &ok_body),
        };
        peer.deliver(msg);
        if fault == Some(Fault::CloseAfter) {
            // let the client take the reply first, then the connection goes away
            while peer.inbox_len() > 0 {
                tokio::time::sleep(std::time::Duration::from_millis(1)).await;
            }
            tokio::time::sleep(std::time::Duration::from_millis(3)).await;
            peer.close();
            return;
        }
        if name == "close-session" {
            return;
        }
    }
}

pub const XNM: &str = "http://xml.juniper.net/xnm/1.1/xnm";

/// a running configuration with `n` annotated default-reject policy statements `p0 … p{n-1}`,
/// each with a literal filter expression (no IRR queries needed)
pub fn running_with(n: usize) -> String {
    let mut s = format!("<configuration xmlns=\"{XNM}\"><policy-options>");
    for i in 0..n {
        s.push_str(&format!(
            "<policy-statement xmlns:jcmd=\"http://yang.juniper.net/junos/jcmd\" jcmd:comment=\"/* bgpfu-fltr: {{ 10.{}.{}.0/24^24-28, 2001:db8:{:x}::/48 }} */\"><name>p{i}</name><then><reject/></then></policy-statement>",
            i / 256,
            i % 256,
            i
        ));
    }
    s.push_str("</policy-options></configuration>");
    s
}

/// an ephemeral instance in which the given policies are installed (as an earlier run left them)
pub fn installed_with(names: &[String]) -> String {
    let mut s = format!("<configuration xmlns=\"{XNM}\"><policy-options>");
    for n in names {
        s.push_str(&format!(
            "<policy-statement><name>{n}</name>\
             <term><name>inet</name><from><family>inet</family><route-filter><address>203.0.113.0/25</address><choice-ident>prefix-length-range</choice-ident><choice-value>/25-/32</choice-value></route-filter></from><then><accept/></then></term>\
             <term><name>inet6</name><from><family>inet6</family><route-filter><address>2001:db8:ffff::/48</address><choice-ident>prefix-length-range</choice-ident><choice-value>/48-/64</choice-value></route-filter></from><then><accept/></then></term>\
             <then><reject/></then></policy-statement>"
        ));
    }
    s.push_str("</policy-options></configuration>");
    s
}

pub fn empty_config() -> String {
    format!("<configuration xmlns=\"{XNM}\"><policy-options></policy-options></configuration>")
}

/// a running configuration with the given (name, filter expression) annotated statements
pub fn running_with_exprs(stmts: &[(String, String)]) -> String {
    let mut s = format!("<configuration xmlns=\"{XNM}\"><policy-options>");
    for (name, expr) in stmts {
        let e = expr
            .replace('&', "&amp;")
            .replace('<', "&lt;")
            .replace('"', "&quot;");
        s.push_str(&format!(
            "<policy-statement xmlns:jcmd=\"http://yang.juniper.net/junos/jcmd\" jcmd:comment=\"/* bgpfu-fltr: {e} */\"><name>{name}</name><then><reject/></then></policy-statement>"
        ));
    }
    s.push_str("</policy-options></configuration>");
    s
}
