//! In-memory fake Junos NETCONF server on a `memtransport::Peer`: answers the agent's requests
//! according to a script, with fault injection by request position (C04; also used end-to-end).
use std::sync::{Arc, Mutex};

use crate::memtransport as mt;

#[derive(Clone, Debug, PartialEq)]
pub enum Fault {
    RpcError,
    /// an rpc-error of severity error with the k-th error-tag of `TAGS` (a load: with the matching
    /// `<load-error-count>`): whatever the tag says, it is an error
    RpcErrorTag(usize),
    /// an rpc-error of severity error, one of severity warning, then `<ok/>`: not an acknowledgement
    ErrWarnOk,
    /// two rpc-errors (warning, error), for a load also `<load-error-count>`: not an acknowledgement
    ErrCount,
    /// 300 rpc-errors of severity warning, then one of severity error, then `<ok/>`: not an acknowledgement
    ManyWarnErrOk,
    /// an rpc-error of severity error followed by an element that merely *sounds* positive
    /// (`<load-success/>`, Junos vocabulary of other replies): not an acknowledgement
    ErrLoadSuccess,
    /// NOT a fault: a warning followed by `<ok/>` (for bare replies: a warning only) is a positive
    /// acknowledgement; the run must go on exactly as without it
    WarnOk,
    Malformed,
    WrongId,
    CloseBefore,
    CloseAfter,
}

impl Fault {
    pub fn token(&self) -> &'static str {
        match self {
            Fault::RpcError => "rpcerr",
            Fault::RpcErrorTag(k) => ["rpcerr-0", "rpcerr-1", "rpcerr-2", "rpcerr-3", "rpcerr-4", "rpcerr-5", "rpcerr-6", "rpcerr-7"][*k % 8],
            Fault::ErrWarnOk => "errwarnok",
            Fault::ErrCount => "errcount",
            Fault::ManyWarnErrOk => "manywarnerrok",
            Fault::ErrLoadSuccess => "errloadsuccess",
            Fault::WarnOk => "warnok",
            Fault::Malformed => "malformed",
            Fault::WrongId => "wrongid",
            Fault::CloseBefore => "closebefore",
            Fault::CloseAfter => "closeafter",
        }
    }
    pub fn parse(s: &str) -> Option<Fault> {
        Some(match s {
            "rpcerr" => Fault::RpcError,
            t if t.starts_with("rpcerr-") => Fault::RpcErrorTag(t[7..].parse().ok()?),
            "errwarnok" => Fault::ErrWarnOk,
            "errcount" => Fault::ErrCount,
            "manywarnerrok" => Fault::ManyWarnErrOk,
            "errloadsuccess" => Fault::ErrLoadSuccess,
            "warnok" => Fault::WarnOk,
            "malformed" => Fault::Malformed,
            "wrongid" => Fault::WrongId,
            "closebefore" => Fault::CloseBefore,
            "closeafter" => Fault::CloseAfter,
            _ => return None,
        })
    }
}

#[derive(Clone, Default)]
pub struct Script {
    /// `<configuration>…` content returned for get-config on <running/>
    pub running: String,
    /// `<configuration>…` content returned for get-config on <candidate/> (the ephemeral instance)
    pub ephemeral: String,
    /// (1-based request position, fault)
    pub fault: Option<(usize, Fault)>,
}

#[derive(Default, Debug)]
pub struct Log {
    pub names: Vec<String>,
    pub loads: Vec<String>, // payloads of load-configuration requests
}

fn op_name(req: &str) -> String {
    // first element inside <rpc …>
    let Some(i) = req.find("<rpc") else {
        return "?".into();
    };
    let rest = &req[i..];
    let Some(j) = rest.find('>') else {
        return "?".into();
    };
    let inner = &rest[j + 1..];
    let Some(k) = inner.find('<') else {
        return "?".into();
    };
    inner[k + 1..]
        .chars()
        .take_while(|c| c.is_alphanumeric() || *c == '-')
        .collect()
}

const WARN: &str = "<rpc-error><error-type>application</error-type><error-tag>operation-failed</error-tag><error-severity>warning</error-severity><error-message>statement not found</error-message></rpc-error>";
const ERR: &str = "<rpc-error><error-type>protocol</error-type><error-tag>operation-failed</error-tag><error-severity>error</error-severity><error-message>injected</error-message></rpc-error>";

fn reply(id: &str, body: &str) -> String {
    format!("<rpc-reply xmlns=\"{}\" xmlns:junos=\"http://xml.juniper.net/junos/23.1R0/junos\" message-id=\"{id}\">{body}</rpc-reply>]]>]]>", mt::BASE_NS)
}

/// serve one session on `peer` until the client closes the session or the script closes the transport
pub async fn serve(peer: mt::Peer, script: Script, log: Arc<Mutex<Log>>) {
    peer.deliver(mt::hello(
        &[
            mt::CAP_BASE10,
            mt::CAP_JUNOS,
            "urn:ietf:params:netconf:capability:candidate:1.0",
        ],
        7,
    ));
    let mut handled = 1usize; // index 0 is the client's hello
    loop {
        let sent = peer.wait_sent(handled + 1).await;
        if sent.len() <= handled {
            return; // transport closed
        }
        let req = String::from_utf8_lossy(&sent[handled]).to_string();
        let pos = handled; // 1-based position of this request
        handled += 1;
        let name = op_name(&req);
        let id = mt::message_id_of(req.as_bytes()).unwrap_or_default();
        {
            let mut g = log.lock().unwrap();
            g.names.push(name.clone());
            if name == "load-configuration" {
                g.loads.push(req.clone());
            }
        }
        let fault = match &script.fault {
            Some((p, f)) if *p == pos => Some(f.clone()),
            _ => None,
        };
        if fault == Some(Fault::CloseBefore) {
            peer.close();
            return;
        }
        let ok_body = match name.as_str() {
            "get-config" => {
                let cfg = if req.contains("<running/>") {
                    &script.running
                } else {
                    &script.ephemeral
                };
                // RFC 6241 §6 subtree filtering, as far as the agent's filters go: a `<policy-statement>`
                // with child selection nodes selects only those children (and the list key `name`)
                match selection_nodes(&req) {
                    Some(keep) => format!("<data>{}</data>", prune(cfg, &keep)),
                    None => format!("<data>{cfg}</data>"),
                }
            }
            "load-configuration" => {
                "<load-configuration-results><ok/></load-configuration-results>".to_string()
            }
            "commit-configuration" | "close-session" => "<ok/>".to_string(),
            _ => String::new(), // open-configuration, close-configuration: bare reply
        };
        // the error-tag of an injected error varies with the position: the tag never excuses an error
        const TAGS: [&str; 8] = ["operation-failed", "data-missing", "in-use", "data-exists", "lock-denied", "bad-element", "unknown-element", "access-denied"];
        let err_here = match &fault {
            Some(Fault::RpcErrorTag(k)) => ERR.replace("operation-failed", TAGS[*k % TAGS.len()]),
            _ => ERR.replace("operation-failed", TAGS[pos % TAGS.len()]),
        };
        let msg = match fault {
            Some(Fault::RpcError) | Some(Fault::RpcErrorTag(_)) => {
                if name == "load-configuration" {
                    reply(&id, &format!("<load-configuration-results>{err_here}<load-error-count>1</load-error-count></load-configuration-results>"))
                } else {
                    reply(&id, &err_here)
                }
            }
            Some(Fault::ErrWarnOk) => {
                let ok = if name == "get-config" {
                    ok_body.clone()
                } else {
                    "<ok/>".to_string()
                };
                if name == "load-configuration" {
                    reply(&id, &format!("<load-configuration-results>{err_here}{WARN}<ok/></load-configuration-results>"))
                } else {
                    reply(&id, &format!("{err_here}{WARN}{ok}"))
                }
            }
            Some(Fault::ManyWarnErrOk) => {
                let ok = if name == "get-config" { ok_body.clone() } else { "<ok/>".to_string() };
                let many = WARN.repeat(300);
                if name == "load-configuration" {
                    reply(&id, &format!("<load-configuration-results>{many}{err_here}<ok/></load-configuration-results>"))
                } else {
                    reply(&id, &format!("{many}{err_here}{ok}"))
                }
            }
            Some(Fault::ErrLoadSuccess) => {
                if name == "load-configuration" {
                    reply(&id, &format!("<load-configuration-results>{err_here}<load-success/></load-configuration-results>"))
                } else {
                    reply(&id, &format!("{err_here}<load-success/>"))
                }
            }
            Some(Fault::ErrCount) => {
                if name == "load-configuration" {
                    reply(&id, &format!("<load-configuration-results>{WARN}{err_here}<load-error-count>1</load-error-count></load-configuration-results>"))
                } else {
                    reply(&id, &format!("{WARN}{err_here}"))
                }
            }
            Some(Fault::WarnOk) => {
                if name == "load-configuration" {
                    reply(
                        &id,
                        &format!(
                            "<load-configuration-results>{WARN}<ok/></load-configuration-results>"
                        ),
                    )
                } else {
                    reply(&id, &ok_body)
                }
            }
            Some(Fault::Malformed) => format!(
                "<rpc-reply xmlns=\"{}\" message-id=\"{id}\"><unterminated]]>]]>",
                mt::BASE_NS
            ),
            Some(Fault::WrongId) => reply("999999", &ok_body),
            _ => reply(&id, &ok_body),
        };
        peer.deliver(msg);
        if fault == Some(Fault::CloseAfter) {
            // let the client take the reply first, then the connection goes away
            while peer.inbox_len() > 0 {
                tokio::time::sleep(std::time::Duration::from_millis(1)).await;
            }
            tokio::time::sleep(std::time::Duration::from_millis(3)).await;
            peer.close();
            return;
        }
        if name == "close-session" {
            return;
        }
    }
}

/// the child selection nodes of `<policy-statement>` in the request's subtree filter, if it has any
pub fn selection_nodes(req: &str) -> Option<Vec<String>> {
    let rest = &req[req.find("<filter")?..];
    let after = &rest[rest.find("<policy-statement")? + "<policy-statement".len()..];
    let gt = after.find('>')?;
    if after[..gt].ends_with('/') {
        return None; // a selection node itself: the whole subtree
    }
    let inner = &after[gt + 1..after.find("</policy-statement>")?];
    let mut names = vec!["name".to_string()];
    let mut i = 0;
    while let Some(p) = inner[i..].find('<') {
        let q = i + p + 1;
        let n: String = inner[q..]
            .chars()
            .take_while(|c| c.is_alphanumeric() || *c == '-' || *c == ':')
            .collect();
        if !n.is_empty() && !names.contains(&n) {
            names.push(n);
        }
        i = q;
    }
    if names.len() == 1 {
        None
    } else {
        Some(names)
    }
}

/// keep only the children named in `keep` of every `<policy-statement>`
pub fn prune(xml: &str, keep: &[String]) -> String {
    use quick_xml::{events::Event, Reader};
    let mut rd = Reader::from_str(xml);
    let mut out = String::new();
    let mut stack: Vec<String> = vec![];
    let mut skip: Option<usize> = None;
    loop {
        let a = rd.buffer_position();
        let ev = rd.read_event();
        let raw = &xml[a..rd.buffer_position()];
        match ev {
            Ok(Event::Start(t)) => {
                let name = String::from_utf8_lossy(t.local_name().as_ref()).to_string();
                let in_ps = stack.last().map(|s| s == "policy-statement").unwrap_or(false);
                if skip.is_none() && in_ps && !keep.contains(&name) {
                    skip = Some(stack.len());
                }
                stack.push(name);
                if skip.is_none() {
                    out.push_str(raw);
                }
            }
            Ok(Event::End(_)) => {
                stack.pop();
                match skip {
                    Some(d) => {
                        if stack.len() == d {
                            skip = None;
                        }
                    }
                    None => out.push_str(raw),
                }
            }
            Ok(Event::Empty(t)) => {
                let name = String::from_utf8_lossy(t.local_name().as_ref()).to_string();
                let in_ps = stack.last().map(|s| s == "policy-statement").unwrap_or(false);
                if skip.is_none() && !(in_ps && !keep.contains(&name)) {
                    out.push_str(raw);
                }
            }
            Ok(Event::Eof) => break,
            Ok(_) => {
                if skip.is_none() {
                    out.push_str(raw);
                }
            }
            Err(_) => return xml.to_string(),
        }
    }
    out
}

/// statements that must NOT be managed although they look like it at a glance: an annotated one with
/// terms of its own (hand-written), an annotated one that is deactivated, one without annotation
pub fn unmanaged_statements() -> String {
    let jc = "xmlns:jcmd=\"http://yang.juniper.net/junos/jcmd\"";
    format!(
        "<policy-statement {jc} jcmd:comment=\"/* bgpfu-fltr: AS65000 */\"><name>hand</name>\
         <term><name>own</name><from><route-filter><address>10.0.0.0/8</address><orlonger/></route-filter></from><then><accept/></then></term>\
         <then><reject/></then></policy-statement>\
         <policy-statement {jc} jcmd:comment=\"/* bgpfu-fltr: AS65000 */\" jcmd:active=\"false\"><name>off</name><then><reject/></then></policy-statement>\
         <policy-statement><name>plain</name><then><reject/></then></policy-statement>"
    )
}

/// `running` with the three unmanaged statements appended to its policy-options
pub fn with_unmanaged(running: &str) -> String {
    running.replacen("</policy-options>", &format!("{}</policy-options>", unmanaged_statements()), 1)
}

pub const XNM: &str = "http://xml.juniper.net/xnm/1.1/xnm";

/// a running configuration with `n` annotated default-reject policy statements `p0 … p{n-1}`,
/// each with a literal filter expression (no IRR queries needed)
pub fn running_with(n: usize) -> String {
    let mut s = format!("<configuration xmlns=\"{XNM}\"><policy-options>");
    for i in 0..n {
        s.push_str(&format!(
            "<policy-statement xmlns:jcmd=\"http://yang.juniper.net/junos/jcmd\" jcmd:comment=\"/* bgpfu-fltr: {{ 10.{}.{}.0/24^24-28, 2001:db8:{:x}::/48 }} */\"><name>p{i}</name><then><reject/></then></policy-statement>",
            i / 256,
            i % 256,
            i
        ));
    }
    s.push_str("</policy-options></configuration>");
    s
}

/// an ephemeral instance in which the given policies are installed (as an earlier run left them)
pub fn installed_with(names: &[String]) -> String {
    let mut s = format!("<configuration xmlns=\"{XNM}\"><policy-options>");
    for n in names {
        s.push_str(&format!(
            "<policy-statement><name>{n}</name>\
             <term><name>inet</name><from><family>inet</family><route-filter><address>203.0.113.0/25</address><choice-ident>prefix-length-range</choice-ident><choice-value>/25-/32</choice-value></route-filter></from><then><accept/></then></term>\
             <term><name>inet6</name><from><family>inet6</family><route-filter><address>2001:db8:ffff::/48</address><choice-ident>prefix-length-range</choice-ident><choice-value>/48-/64</choice-value></route-filter></from><then><accept/></then></term>\
             <then><reject/></then></policy-statement>"
        ));
    }
    s.push_str("</policy-options></configuration>");
    s
}

pub fn empty_config() -> String {
    format!("<configuration xmlns=\"{XNM}\"><policy-options></policy-options></configuration>")
}

/// a running configuration with the given (name, filter expression) annotated statements
pub fn running_with_exprs(stmts: &[(String, String)]) -> String {
    let mut s = format!("<configuration xmlns=\"{XNM}\"><policy-options>");
    for (name, expr) in stmts {
        let e = expr
            .replace('&', "&amp;")
            .replace('<', "&lt;")
            .replace('"', "&quot;");
        s.push_str(&format!(
            "<policy-statement xmlns:jcmd=\"http://yang.juniper.net/junos/jcmd\" jcmd:comment=\"/* bgpfu-fltr: {e} */\"><name>{name}</name><then><reject/></then></policy-statement>"
        ));
    }
    s.push_str("</policy-options></configuration>");
    s
}
