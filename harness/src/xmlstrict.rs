//! A small strict XML 1.0 (Fifth Edition) parser, written for the C10 oracle; independent of quick-xml.
//!
//! Supported: prolog (XML declaration, comments, PIs), one root element, trailing Misc, elements,
//! attributes (both quote kinds, uniqueness), character data (no `]]>`), CDATA sections, comments
//! (no `--`), PIs, the five predefined entities, decimal / hexadecimal character references (must
//! denote a `Char`), the `Char`, `Name` productions, end-of-line handling (§2.11) and
//! attribute-value normalisation (§3.3.3, CDATA type). A DOCTYPE is rejected (`doctype`), so no
//! other entities can be declared. Namespace constraints are *not* part of XML 1.0 well-formedness;
//! `unbound_prefixes` reports them separately.

#[derive(Debug, Clone, PartialEq)]
pub struct Attr {
    pub name: String,
    /// normalised value, references expanded
    pub value: String,
    /// the literal between the quotes as it stands in the source
    pub raw: String,
}

#[derive(Debug, Clone, PartialEq)]
pub struct Elem {
    pub name: String,
    pub attrs: Vec<Attr>,
    pub kids: Vec<Node>,
}

#[derive(Debug, Clone, PartialEq)]
pub enum Node {
    Elem(Elem),
    /// character data between two pieces of markup: value with references expanded and line ends
    /// normalised; `raw` = source span (empty for CDATA sections, whose content is literal)
    Text {
        value: String,
        raw: String,
    },
}

impl Elem {
    pub fn child(&self, name: &str) -> Option<&Elem> {
        self.kids.iter().find_map(|k| match k {
            Node::Elem(e) if e.name == name => Some(e),
            _ => None,
        })
    }
    pub fn children<'a>(&'a self, name: &'a str) -> impl Iterator<Item = &'a Elem> + 'a {
        self.kids.iter().filter_map(move |k| match k {
            Node::Elem(e) if e.name == name => Some(e),
            _ => None,
        })
    }
    pub fn elems(&self) -> impl Iterator<Item = &Elem> {
        self.kids.iter().filter_map(|k| match k {
            Node::Elem(e) => Some(e),
            _ => None,
        })
    }
    /// concatenated character data of this element (what an application reads as its text value)
    pub fn text(&self) -> String {
        let mut s = String::new();
        for k in &self.kids {
            if let Node::Text { value, .. } = k {
                s.push_str(value);
            }
        }
        s
    }
    /// the source span of the character data if the content is exactly one run of character data
    /// (or nothing at all)
    pub fn text_raw(&self) -> Option<String> {
        match self.kids.as_slice() {
            [] => Some(String::new()),
            [Node::Text { raw, value }] if !(raw.is_empty() && !value.is_empty()) => {
                Some(raw.clone())
            }
            _ => None,
        }
    }
    pub fn attr(&self, name: &str) -> Option<&Attr> {
        self.attrs.iter().find(|a| a.name == name)
    }
    /// `a/b/c` relative to this element (first match at every step); `""` = this element
    pub fn path(&self, p: &str) -> Option<&Elem> {
        let mut e = self;
        for step in p.split('/').filter(|s| !s.is_empty()) {
            e = e.child(step)?;
        }
        Some(e)
    }
}

pub fn is_char(c: char) -> bool {
    let n = c as u32;
    n == 9
        || n == 10
        || n == 13
        || (0x20..=0xD7FF).contains(&n)
        || (0xE000..=0xFFFD).contains(&n)
        || (0x10000..=0x10FFFF).contains(&n)
}

fn is_name_start(c: char) -> bool {
    let n = c as u32;
    c == ':'
        || c == '_'
        || c.is_ascii_alphabetic()
        || (0xC0..=0xD6).contains(&n)
        || (0xD8..=0xF6).contains(&n)
        || (0xF8..=0x2FF).contains(&n)
        || (0x370..=0x37D).contains(&n)
        || (0x37F..=0x1FFF).contains(&n)
        || (0x200C..=0x200D).contains(&n)
        || (0x2070..=0x218F).contains(&n)
        || (0x2C00..=0x2FEF).contains(&n)
        || (0x3001..=0xD7FF).contains(&n)
        || (0xF900..=0xFDCF).contains(&n)
        || (0xFDF0..=0xFFFD).contains(&n)
        || (0x10000..=0xEFFFF).contains(&n)
}

fn is_name_char(c: char) -> bool {
    let n = c as u32;
    is_name_start(c)
        || c == '-'
        || c == '.'
        || c.is_ascii_digit()
        || n == 0xB7
        || (0x300..=0x36F).contains(&n)
        || (0x203F..=0x2040).contains(&n)
}

fn is_space(c: char) -> bool {
    c == ' ' || c == '\t' || c == '\n' || c == '\r'
}

struct P<'a> {
    s: &'a str,
    pos: usize,
}

type R<T> = Result<T, String>;

impl<'a> P<'a> {
    fn peek(&self) -> Option<char> {
        self.s[self.pos..].chars().next()
    }
    fn starts(&self, t: &str) -> bool {
        self.s[self.pos..].starts_with(t)
    }
    fn eat(&mut self, t: &str) -> bool {
        if self.starts(t) {
            self.pos += t.len();
            true
        } else {
            false
        }
    }
    fn bump(&mut self) -> Option<char> {
        let c = self.peek()?;
        self.pos += c.len_utf8();
        Some(c)
    }
    fn eof(&self) -> bool {
        self.pos >= self.s.len()
    }
    fn skip_space(&mut self) -> bool {
        let p0 = self.pos;
        while let Some(c) = self.peek() {
            if is_space(c) {
                self.pos += 1;
            } else {
                break;
            }
        }
        self.pos > p0
    }
    fn name(&mut self) -> R<String> {
        let p0 = self.pos;
        match self.peek() {
            Some(c) if is_name_start(c) => {
                self.bump();
            }
            _ => return Err("bad-name".into()),
        }
        while let Some(c) = self.peek() {
            if is_name_char(c) {
                self.bump();
            } else {
                break;
            }
        }
        Ok(self.s[p0..self.pos].to_string())
    }
    /// after `&`: the replacement character
    fn reference(&mut self) -> R<char> {
        let p0 = self.pos;
        let end = self.s[p0..].find(';').ok_or("unterminated-reference")? + p0;
        let body = &self.s[p0..end];
        self.pos = end + 1;
        let c = if let Some(h) = body.strip_prefix("#x") {
            if h.is_empty() || !h.chars().all(|c| c.is_ascii_hexdigit()) {
                return Err("bad-char-reference".into());
            }
            let n = u32::from_str_radix(h, 16).map_err(|_| "bad-char-reference")?;
            char::from_u32(n).ok_or("bad-char-reference")?
        } else if let Some(d) = body.strip_prefix('#') {
            if d.is_empty() || !d.chars().all(|c| c.is_ascii_digit()) {
                return Err("bad-char-reference".into());
            }
            let n: u32 = d.parse().map_err(|_| "bad-char-reference")?;
            char::from_u32(n).ok_or("bad-char-reference")?
        } else {
            match body {
                "lt" => '<',
                "gt" => '>',
                "amp" => '&',
                "apos" => '\'',
                "quot" => '"',
                _ => return Err("unknown-entity".into()),
            }
        };
        if !is_char(c) {
            return Err("bad-char-reference".into());
        }
        Ok(c)
    }
    fn attr_value(&mut self) -> R<(String, String)> {
        let q = match self.bump() {
            Some(c @ ('"' | '\'')) => c,
            _ => return Err("attribute-not-quoted".into()),
        };
        let p0 = self.pos;
        let mut v = String::new();
        loop {
            let c = self.bump().ok_or("unterminated-attribute")?;
            if c == q {
                break;
            }
            match c {
                '<' => return Err("lt-in-attribute".into()),
                '&' => v.push(self.reference()?),
                '\r' => {
                    // §2.11 then §3.3.3: CR LF -> LF -> one space; lone CR -> LF -> space
                    if self.peek() == Some('\n') {
                        self.bump();
                    }
                    v.push(' ');
                }
                '\n' | '\t' => v.push(' '),
                c => v.push(c),
            }
        }
        Ok((v, self.s[p0..self.pos - 1].to_string()))
    }
    fn comment(&mut self) -> R<()> {
        // after `<!--`
        let end = self.s[self.pos..]
            .find("--")
            .ok_or("unterminated-comment")?
            + self.pos;
        self.pos = end + 2;
        if !self.eat(">") {
            return Err("double-hyphen-in-comment".into());
        }
        Ok(())
    }
    fn pi(&mut self) -> R<()> {
        // after `<?`
        let target = self.name()?;
        if target.eq_ignore_ascii_case("xml") {
            return Err("reserved-pi-target".into());
        }
        if self.eat("?>") {
            return Ok(());
        }
        if !self.skip_space() {
            return Err("bad-pi".into());
        }
        let end = self.s[self.pos..].find("?>").ok_or("unterminated-pi")? + self.pos;
        self.pos = end + 2;
        Ok(())
    }
    fn xml_decl(&mut self) -> R<()> {
        // after `<?xml` + space
        let end = self.s[self.pos..]
            .find("?>")
            .ok_or("unterminated-xml-declaration")?
            + self.pos;
        let body = self.s[self.pos..end].trim();
        if !(body.starts_with("version=\"1.") || body.starts_with("version='1.")) {
            return Err("bad-xml-declaration".into());
        }
        self.pos = end + 2;
        Ok(())
    }
    fn misc(&mut self) -> R<()> {
        loop {
            self.skip_space();
            if self.eat("<!--") {
                self.comment()?;
            } else if self.starts("<?") {
                self.pos += 2;
                self.pi()?;
            } else {
                return Ok(());
            }
        }
    }
    /// `content` production up to (not including) `</` or end of input
    fn content(&mut self) -> R<Vec<Node>> {
        let mut kids = vec![];
        let mut val = String::new();
        let mut raw_from = self.pos;
        let mut has_text = false;
        let mut cdata_in_run = false;
        macro_rules! flush {
            () => {
                if has_text {
                    let raw = if cdata_in_run {
                        String::new()
                    } else {
                        self.s[raw_from..self.pos].to_string()
                    };
                    kids.push(Node::Text {
                        value: std::mem::take(&mut val),
                        raw,
                    });
                }
                has_text = false;
                cdata_in_run = false;
            };
        }
        loop {
            if self.eof() || self.starts("</") {
                flush!();
                return Ok(kids);
            }
            if self.starts("<![CDATA[") {
                if !has_text {
                    raw_from = self.pos;
                }
                self.pos += 9;
                let end = self.s[self.pos..].find("]]>").ok_or("unterminated-cdata")? + self.pos;
                let body = &self.s[self.pos..end];
                val.push_str(&body.replace("\r\n", "\n").replace('\r', "\n"));
                self.pos = end + 3;
                has_text = true;
                cdata_in_run = true;
            } else if self.starts("<!--") {
                flush!();
                self.pos += 4;
                self.comment()?;
                raw_from = self.pos;
            } else if self.starts("<?") {
                flush!();
                self.pos += 2;
                self.pi()?;
                raw_from = self.pos;
            } else if self.starts("<!") {
                return Err("bad-markup".into());
            } else if self.starts("<") {
                flush!();
                kids.push(Node::Elem(self.element()?));
                raw_from = self.pos;
            } else {
                if !has_text {
                    raw_from = self.pos;
                    has_text = true;
                }
                if self.starts("]]>") {
                    return Err("cdata-end-in-text".into());
                }
                let c = self.bump().unwrap();
                match c {
                    '&' => val.push(self.reference()?),
                    '\r' => {
                        if self.peek() == Some('\n') {
                            self.bump();
                        }
                        val.push('\n');
                    }
                    c => val.push(c),
                }
            }
        }
    }
    fn element(&mut self) -> R<Elem> {
        if !self.eat("<") {
            return Err("expected-element".into());
        }
        let name = self.name()?;
        let mut attrs: Vec<Attr> = vec![];
        loop {
            let sp = self.skip_space();
            if self.eat("/>") {
                return Ok(Elem {
                    name,
                    attrs,
                    kids: vec![],
                });
            }
            if self.eat(">") {
                break;
            }
            if !sp {
                return Err("bad-start-tag".into());
            }
            let an = self.name().map_err(|_| "bad-start-tag".to_string())?;
            self.skip_space();
            if !self.eat("=") {
                return Err("attribute-without-value".into());
            }
            self.skip_space();
            let (value, raw) = self.attr_value()?;
            if attrs.iter().any(|a| a.name == an) {
                return Err("duplicate-attribute".into());
            }
            attrs.push(Attr {
                name: an,
                value,
                raw,
            });
        }
        let kids = self.content()?;
        if !self.eat("</") {
            return Err("unclosed-element".into());
        }
        let en = self.name()?;
        if en != name {
            return Err("mismatched-end-tag".into());
        }
        self.skip_space();
        if !self.eat(">") {
            return Err("bad-end-tag".into());
        }
        Ok(Elem { name, attrs, kids })
    }
}

fn check_chars(s: &str) -> R<()> {
    if s.chars().all(is_char) {
        Ok(())
    } else {
        Err("invalid-char".into())
    }
}

/// A complete document: exactly one root element.
pub fn parse_document(s: &str) -> R<Elem> {
    check_chars(s)?;
    let mut p = P { s, pos: 0 };
    if p.starts("<?xml") && p.s[5..].starts_with(is_space) {
        p.pos = 5;
        p.xml_decl()?;
    }
    p.misc()?;
    if p.starts("<!DOCTYPE") {
        return Err("doctype".into());
    }
    if p.eof() {
        return Err("no-root-element".into());
    }
    let root = p.element()?;
    p.misc()?;
    if !p.eof() {
        return Err("content-after-root".into());
    }
    Ok(root)
}

/// The `content` production (what may stand between a start tag and an end tag).
pub fn parse_content(s: &str) -> R<Vec<Node>> {
    check_chars(s)?;
    let mut p = P { s, pos: 0 };
    let kids = p.content()?;
    if !p.eof() {
        return Err("unbalanced-end-tag".into());
    }
    Ok(kids)
}

/// Namespace prefixes used on element / attribute names that have no declaration in scope
/// (`xml` is predeclared). Not an XML 1.0 well-formedness matter.
pub fn unbound_prefixes(e: &Elem) -> Vec<String> {
    fn go(e: &Elem, scope: &mut Vec<String>, out: &mut Vec<String>) {
        let n0 = scope.len();
        for a in &e.attrs {
            if let Some(p) = a.name.strip_prefix("xmlns:") {
                scope.push(p.to_string());
            }
        }
        let mut check = |qn: &str, out: &mut Vec<String>| {
            if let Some((p, _)) = qn.split_once(':') {
                if p != "xml"
                    && p != "xmlns"
                    && !scope.iter().any(|s| s == p)
                    && !out.iter().any(|s| s == p)
                {
                    out.push(p.to_string());
                }
            }
        };
        check(&e.name, out);
        for a in &e.attrs {
            check(&a.name, out);
        }
        for k in e.elems() {
            go(k, scope, out);
        }
        scope.truncate(n0);
    }
    let mut out = vec![];
    go(e, &mut vec![], &mut out);
    out
}

pub fn selftest() -> Result<(), String> {
    let ok = [
        "<a/>",
        "<a b=\"1\" c='2'>x &lt; y<b/><![CDATA[<&]]]]><!-- c --><?p q?></a>",
        "<?xml version=\"1.0\"?>\n<!-- c --><a>&#x41;&#65;</a>\n",
        "<a b=\"x&#10;y\"/>",
        "<é:a xmlns:é=\"u\"/>",
    ];
    for d in ok {
        parse_document(d).map_err(|e| format!("selftest: {d:?} rejected: {e}"))?;
    }
    let bad = [
        ("", "no-root-element"),
        ("<a>", "unclosed-element"),
        ("<a></b>", "mismatched-end-tag"),
        ("<a/><b/>", "content-after-root"),
        ("<a>x</a>y", "content-after-root"),
        ("<a b=\"1\" b=\"2\"/>", "duplicate-attribute"),
        ("<a b=\"<\"/>", "lt-in-attribute"),
        ("<a b=1/>", "attribute-not-quoted"),
        ("<a>]]></a>", "cdata-end-in-text"),
        ("<a>&nbsp;</a>", "unknown-entity"),
        ("<a>&#0;</a>", "bad-char-reference"),
        ("<a>& b</a>", "unterminated-reference"),
        ("<a>a & b;</a>", "unknown-entity"),
        ("<a><!-- -- --></a>", "double-hyphen-in-comment"),
        ("<a>\u{1}</a>", "invalid-char"),
        ("<1a/>", "bad-name"),
        ("<a b=\"1\"c=\"2\"/>", "bad-start-tag"),
        ("<!DOCTYPE a><a/>", "doctype"),
        ("<a><?xml v?></a>", "reserved-pi-target"),
    ];
    for (d, want) in bad {
        match parse_document(d) {
            Ok(_) => return Err(format!("selftest: {d:?} accepted")),
            Err(e) if e != want => return Err(format!("selftest: {d:?}: {e}, expected {want}")),
            _ => {}
        }
    }
    let r = parse_document("<a b=\" x\ty\r\nz&#9;&#10; \">p\r\nq\rr&#13;</a>").unwrap();
    if r.attr("b").unwrap().value != " x y z\t\n " || r.text() != "p\nq\nr\r" {
        return Err(format!("selftest: normalisation: {r:?}"));
    }
    if unbound_prefixes(&parse_document("<a j:x=\"1\"><b xmlns:k=\"u\" k:y=\"2\"/></a>").unwrap())
        != vec!["j".to_string()]
    {
        return Err("selftest: prefixes".into());
    }
    Ok(())
}
