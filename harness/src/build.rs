//! C09 correspondence: the real request builders of /repo/netconf against the Lean model
//! (`Model/Builders.lean`) and the RFC 6241 §8 table (`Model/Rfc6241.lean`).
//!
//! One real `Session` (hook H1, in-memory transport) per advertised capability set; every
//! operation × every combination of its builder calls is issued through the public API
//! `session.rpc::<Op, _>(|builder| …)`.  Observed per case: `Err(kind)` vs. the bytes that reached
//! the transport (parsed with quick-xml into the canonical request of `Drive/Builders.lean`).
//!
//!   corr  `build caps <annotated uris>`            model's capability parse   = implementation's
//!   corr  `build op <cfg> <sid> <caps> <op> <calls>` model's build            = implementation's
//!   spec  `build spec <sid> <caps> <op> <calls> <outcome>`  RFC table on what was sent / refused
//!   direct  nothing may reach the wire when the call returns `Err`; no panics
//!
//! Case descriptor: `<hex uri>,<hex uri>…|<op>|<call>,<call>…` (URLs as hex text).
use std::panic::AssertUnwindSafe;
use std::time::Duration;

use futures::FutureExt;
use iri_string::types::UriStr;
use netconf::message::rpc::operation::{
    edit_config::{DefaultOperation, ErrorOption, TestOption},
    junos::{
        load_configuration::{
            Config, Json, Merge, Override, Replace, Rescue, Set, Text, Update, Xml,
        },
        CloseConfiguration, CommitConfiguration, LoadConfiguration, LockConfiguration,
        OpenConfiguration, UnlockConfiguration,
    },
    Builder as _, CancelCommit, Commit, CopyConfig, Datastore, DeleteConfig, DiscardChanges,
    EditConfig, Filter, Get, GetConfig, KillSession, Lock, Opaque, Token, Unlock, Validate,
};
use netconf::Error;

use crate::memtransport::{self, MemTransport, Peer};
use crate::util::*;

type Session = netconf::Session<MemTransport>;

pub const SESSION_ID: u32 = 4;

// ---------------------------------------------------------------------------------------------
// capability universe

pub const KNOWN: [&str; 13] = [
    "urn:ietf:params:netconf:base:1.0",
    "urn:ietf:params:netconf:base:1.1",
    "urn:ietf:params:netconf:capability:writable-running:1.0",
    "urn:ietf:params:netconf:capability:candidate:1.0",
    "urn:ietf:params:netconf:capability:confirmed-commit:1.0",
    "urn:ietf:params:netconf:capability:confirmed-commit:1.1",
    "urn:ietf:params:netconf:capability:rollback-on-error:1.0",
    "urn:ietf:params:netconf:capability:validate:1.0",
    "urn:ietf:params:netconf:capability:validate:1.1",
    "urn:ietf:params:netconf:capability:startup:1.0",
    "urn:ietf:params:netconf:capability:url:1.0", // + ?query
    "urn:ietf:params:netconf:capability:xpath:1.0",
    "http://xml.juniper.net/netconf/junos/1.0",
];
const URL_IDX: usize = 10;

/// queries of the :url capability; a variant may stand for two `<capability>` elements (`|`)
const URL_QUERIES: [&str; 15] = [
    "?scheme=file",
    "?scheme=http,ftp,file",
    "?scheme=https&foo=bar&scheme=sftp",
    "?scheme=file|?scheme=ftp",
    "?scheme=",
    "?foo=bar",
    "?scheme=FILE,http",
    "", // no query at all: not the :url capability (Unknown)
    "?foo=bar&scheme=file,sftp",
    // parameters whose NAME merely contains "scheme": they are not the scheme parameter
    "?scheme=file&fallback-scheme=ftp",
    "?xscheme=http,ftp",
    "?scheme-x=ftp&scheme=file",
    "?scheme=file&other=scheme=ftp",
    "?SCHEME=ftp&scheme=file",
    "?scheme=file&scheme",
];

/// capability texts that are not (or not exactly) one of the known ones
const NOISE: [&str; 15] = [
    "urn:example:vendor:thing:1.0",
    "urn:ietf:params:netconf:capability:xpath:1.0?module=x",
    "urn:ietf:params:netconf:capability:candidate:1.0#frag",
    // an empty fragment / an empty query are still not the bare URI
    "urn:ietf:params:netconf:capability:candidate:1.0#",
    "urn:ietf:params:netconf:capability:writable-running:1.0?",
    "urn:ietf:params:netconf:capability:validate:1.1?#",
    "urn:ietf:params:netconf:capability:confirmed-commit:1.1#",
    "urn:ietf:params:netconf:capability:startup:1.1",
    "URN:ietf:params:netconf:capability:validate:1.1",
    "http://xml.juniper.net/netconf/junos/1.0?x=1",
    "https://xml.juniper.net/netconf/junos/1.0",
    "urn:ietf:params:netconf:capability:notification:1.0",
    "urn:ietf:params:xml:ns:yang:ietf-netconf-monitoring?module=ietf-netconf-monitoring&revision=2010-10-04",
    // surrounding whitespace is insignificant (capabilities.rs: `span.trim()`): these *are* known ones
    "\n      urn:ietf:params:netconf:capability:startup:1.0\n    ",
    " urn:ietf:params:netconf:capability:url:1.0?scheme=ftp&scheme=mailto\t",
];
/// rejected by iri-string: the whole hello is rejected and no session exists
const INVALID: [&str; 2] = [
    "not a uri",
    "urn:ietf:params:netconf:capability:xpath:1.0 x",
];

const URLS: [&str; 8] = [
    "file:///var/tmp/c.xml",
    "http://h.example/c.xml",
    "https://h.example/c.xml",
    "sftp://u@h.example/c.xml",
    "ftp://h.example/c",
    "FILE:///x",
    "not a url",
    "mailto:x@example.org",
];

/// one `<capability>` element of a server hello, by table index (compact, re-runnable descriptor)
#[derive(Clone, Debug, PartialEq, Eq, Hash)]
pub enum CapTok {
    Known(usize),
    /// the :url capability with piece `1` of `URL_QUERIES[0]`
    Url(usize, usize),
    Noise(usize),
    Invalid(usize),
    Raw(String),
}

impl CapTok {
    fn uri(&self) -> String {
        match self {
            CapTok::Known(i) => KNOWN[*i].to_string(),
            CapTok::Url(q, piece) => format!(
                "{}{}",
                KNOWN[URL_IDX],
                URL_QUERIES[*q].split('|').nth(*piece).unwrap_or("")
            ),
            CapTok::Noise(i) => NOISE[*i].to_string(),
            CapTok::Invalid(i) => INVALID[*i].to_string(),
            CapTok::Raw(s) => s.clone(),
        }
    }
    fn descr(&self) -> String {
        match self {
            CapTok::Known(i) => format!("k{i}"),
            CapTok::Url(q, p) => format!("u{q}.{p}"),
            CapTok::Noise(i) => format!("n{i}"),
            CapTok::Invalid(i) => format!("i{i}"),
            CapTok::Raw(s) => format!("x{}", hexs(s)),
        }
    }
    fn parse(t: &str) -> Option<CapTok> {
        let (k, rest) = t.split_at(1);
        Some(match k {
            "k" => CapTok::Known(
                rest.parse()
                    .ok()
                    .filter(|i| *i < KNOWN.len() && *i != URL_IDX)?,
            ),
            "u" => {
                let (q, p) = rest.split_once('.')?;
                let (q, p): (usize, usize) = (q.parse().ok()?, p.parse().ok()?);
                if q >= URL_QUERIES.len() || p >= URL_QUERIES[q].split('|').count() {
                    return None;
                }
                CapTok::Url(q, p)
            }
            "n" => CapTok::Noise(rest.parse().ok().filter(|i| *i < NOISE.len())?),
            "i" => CapTok::Invalid(rest.parse().ok().filter(|i| *i < INVALID.len())?),
            "x" => CapTok::Raw(String::from_utf8(unhex(rest)?).ok()?),
            _ => return None,
        })
    }
    /// What the server advertised, read off the URI by the harness itself (RFC 6241 §8: exact
    /// capability URIs; 8.8.3: the `scheme` argument is a comma-separated list) — independent of
    /// both the implementation's and the model's parse.
    fn advertised(&self) -> String {
        const TOKS: [&str; 13] = [
            "b10", "b11", "wr", "cand", "cc10", "cc11", "roe", "v10", "v11", "st", "", "xp",
            "junos",
        ];
        let uri = self.uri().trim().to_string();
        if let Some(i) = KNOWN.iter().position(|k| *k == uri) {
            if i != URL_IDX {
                return TOKS[i].into();
            }
        }
        if let Some(q) = uri
            .strip_prefix(KNOWN[URL_IDX])
            .and_then(|r| r.strip_prefix('?'))
        {
            if !q.contains('#') && UriStr::new(uri.as_str()).is_ok() {
                let mut schemes = vec![];
                for arg in q.split('&') {
                    if let Some(v) = arg.strip_prefix("scheme=") {
                        schemes.extend(v.split(',').map(hexs));
                    }
                }
                return if schemes.is_empty() {
                    "url:.".into()
                } else {
                    format!("url:{}", schemes.join("+"))
                };
            }
        }
        "unk".into()
    }
}

fn toks_of(mask: u32, urlq: usize, extra: &[CapTok]) -> Vec<CapTok> {
    let mut v = vec![];
    for i in 0..KNOWN.len() {
        if mask & (1 << i) != 0 {
            if i == URL_IDX {
                let q = urlq % URL_QUERIES.len();
                for p in 0..URL_QUERIES[q].split('|').count() {
                    v.push(CapTok::Url(q, p));
                }
            } else {
                v.push(CapTok::Known(i));
            }
        }
    }
    v.extend(extra.iter().cloned());
    v
}

/// the text the implementation hands to `UriStr::new`: the span between `<capability>` and
/// `</capability>` as `memtransport::hello` writes it (character references unresolved), without
/// surrounding whitespace (capabilities.rs `span.trim()`)
fn xml_span(uri: &str) -> String {
    uri.replace('&', "&amp;")
        .replace('<', "&lt;")
        .trim()
        .to_string()
}

fn opt_hex(s: Option<&str>) -> String {
    match s {
        None => "~".into(),
        Some(x) => hexs(x),
    }
}

/// the annotated input of `build caps`: the raw span of the `<capability>` element with
/// iri-string's verdict and decomposition, plus quick-xml's unescaping of its query component
fn annotate(uri: &str) -> String {
    let raw = xml_span(uri);
    let ann = annotate1(&raw);
    let query = UriStr::new(raw.as_str())
        .ok()
        .and_then(|u| u.query_str().map(|q| q.to_string()));
    match query {
        Some(q) => match quick_xml::escape::unescape(&q) {
            Ok(u) if u == q => ann,
            Ok(u) => format!("{ann}>{}", hexs(&u)),
            Err(_) => format!("{ann}>!"),
        },
        None => ann,
    }
}

fn annotate1(uri: &str) -> String {
    match UriStr::new(uri) {
        Err(_) => format!("{}/!", hexs(uri)),
        Ok(u) => format!(
            "{}/{}/{}/{}/{}/{}",
            hexs(uri),
            hexs(u.scheme_str()),
            opt_hex(u.authority_str()),
            hexs(u.path_str()),
            opt_hex(u.query_str()),
            opt_hex(u.fragment().map(|f| f.as_str())),
        ),
    }
}

/// canonical token of one parsed capability, from its `Debug` form (the type itself is private)
fn cap_token(dbg: &str) -> String {
    match dbg {
        "Base(V1_0)" => "b10".into(),
        "Base(V1_1)" => "b11".into(),
        "WritableRunning" => "wr".into(),
        "Candidate" => "cand".into(),
        "ConfirmedCommitV1_0" => "cc10".into(),
        "ConfirmedCommitV1_1" => "cc11".into(),
        "RollbackOnError" => "roe".into(),
        "ValidateV1_0" => "v10".into(),
        "ValidateV1_1" => "v11".into(),
        "Startup" => "st".into(),
        "XPath" => "xp".into(),
        "JunosXmlManagementProtocol" => "junos".into(),
        d if d.starts_with("Unknown(") => "unk".into(),
        d if d.starts_with("Url([") && d.ends_with("])") => {
            let inner = &d[5..d.len() - 2];
            if inner.is_empty() {
                "url:.".into()
            } else {
                let items: Vec<String> = inner
                    .split(", ")
                    .map(|q| hexs(q.trim_start_matches('"').trim_end_matches('"')))
                    .collect();
                format!("url:{}", items.join("+"))
            }
        }
        d => format!("?{}", hexs(d)),
    }
}

fn caps_tokens(session: &Session) -> Vec<String> {
    let mut v: Vec<String> = session
        .context()
        .server_capabilities()
        .iter()
        .map(|c| cap_token(&format!("{c:?}")))
        .collect();
    v.sort();
    v.dedup();
    v
}

// ---------------------------------------------------------------------------------------------
// builder calls

#[derive(Clone, Copy, Debug, PartialEq)]
pub enum Ds {
    Running,
    Candidate,
    Startup,
}
impl Ds {
    const ALL: [Ds; 3] = [Ds::Running, Ds::Candidate, Ds::Startup];
    fn tok(self) -> &'static str {
        match self {
            Ds::Running => "running",
            Ds::Candidate => "candidate",
            Ds::Startup => "startup",
        }
    }
    fn parse(s: &str) -> Option<Ds> {
        Ds::ALL.into_iter().find(|d| d.tok() == s)
    }
    fn real(self) -> Datastore {
        match self {
            Ds::Running => Datastore::Running,
            Ds::Candidate => Datastore::Candidate,
            Ds::Startup => Datastore::Startup,
        }
    }
}

#[derive(Clone, Debug, PartialEq)]
pub enum Call {
    Filter(Option<bool>), // Some(true) = xpath, Some(false) = subtree
    Source(Ds),
    Target(Ds),
    Config,
    Url(String),
    DefOp(&'static str),
    ErrOpt(&'static str),
    TestOpt(&'static str),
    Sid(u32),
    Confirmed(bool),
    Timeout(u64),
    Persist(Option<String>),
    PersistId(Option<String>),
    Private,
    Ephemeral(Option<String>),
    LoadSource(&'static str, &'static str), // ("rescue","") | (format, action)
    Check(bool),
    Now,
    AtReboot,
    TodayAt,
    At,
    ConfirmedTimeout(u64),
    Log(String),
    Sync(bool),
}

const DEFOPS: [&str; 3] = ["merge", "replace", "none"];
const ERROPTS: [&str; 3] = ["stop-on-error", "continue-on-error", "rollback-on-error"];
const TESTOPTS: [&str; 3] = ["test-then-set", "set", "test-only"];
const LOADS: [(&str, &str); 13] = [
    ("rescue", ""),
    ("xml", "merge"),
    ("xml", "override"),
    ("xml", "update"),
    ("xml", "replace"),
    ("text", "merge"),
    ("text", "override"),
    ("text", "update"),
    ("text", "replace"),
    ("text", "set"),
    ("json", "merge"),
    ("json", "override"),
    ("json", "update"),
];

fn intern(list: &[&'static str], s: &str) -> Option<&'static str> {
    list.iter().copied().find(|x| *x == s)
}

fn url_scheme_token(url: &str) -> String {
    match UriStr::new(url) {
        Err(_) => "!".into(),
        Ok(u) => hexs(u.scheme_str()),
    }
}

impl Call {
    /// token used in the case descriptor (`model = false`) or in the modeld line (`model = true`);
    /// they differ only for URLs (text vs. annotated parse result)
    fn tok(&self, model: bool) -> String {
        match self {
            Call::Filter(None) => "filter:none".into(),
            Call::Filter(Some(false)) => "filter:subtree".into(),
            Call::Filter(Some(true)) => "filter:xpath".into(),
            Call::Source(d) => format!("source:{}", d.tok()),
            Call::Target(d) => format!("target:{}", d.tok()),
            Call::Config => "config".into(),
            Call::Url(u) => {
                if model {
                    format!("url:{}", url_scheme_token(u))
                } else {
                    format!("url:{}", hexs(u))
                }
            }
            Call::DefOp(o) => format!("defop:{o}"),
            Call::ErrOpt(o) => format!("erropt:{o}"),
            Call::TestOpt(o) => format!("testopt:{o}"),
            Call::Sid(n) => format!("sid:{n}"),
            Call::Confirmed(b) => format!("confirmed:{}", *b as u8),
            Call::Timeout(n) => format!("timeout:{n}"),
            Call::Persist(t) => format!("persist:{}", opt_hex(t.as_deref())),
            Call::PersistId(t) => format!("persist-id:{}", opt_hex(t.as_deref())),
            Call::Private => "private".into(),
            Call::Ephemeral(n) => format!("ephemeral:{}", opt_hex(n.as_deref())),
            Call::LoadSource("rescue", _) => "source:rescue".into(),
            Call::LoadSource(f, a) => format!("source:{f}:{a}"),
            Call::Check(b) => format!("check:{}", *b as u8),
            Call::Now => "now".into(),
            Call::AtReboot => "at-reboot".into(),
            Call::TodayAt => "today-at".into(),
            Call::At => "at".into(),
            Call::ConfirmedTimeout(n) => format!("confirmed-timeout:{n}"),
            Call::Log(m) => format!("log:{}", hexs(m)),
            Call::Sync(b) => format!("sync:{}", *b as u8),
        }
    }

    fn parse(op: &str, t: &str) -> Option<Call> {
        let hex_str = |h: &str| unhex(h).and_then(|b| String::from_utf8(b).ok());
        let opt_str = |h: &str| {
            if h == "~" {
                Some(None)
            } else {
                hex_str(h).map(Some)
            }
        };
        let b01 = |s: &str| match s {
            "0" => Some(false),
            "1" => Some(true),
            _ => None,
        };
        Some(match t {
            "config" => Call::Config,
            "private" => Call::Private,
            "now" => Call::Now,
            "at-reboot" => Call::AtReboot,
            "today-at" => Call::TodayAt,
            "at" => Call::At,
            "filter:none" => Call::Filter(None),
            "filter:subtree" => Call::Filter(Some(false)),
            "filter:xpath" => Call::Filter(Some(true)),
            _ => {
                let (k, v) = t.split_once(':')?;
                match (k, op) {
                    ("source", "load-configuration") => {
                        if v == "rescue" {
                            Call::LoadSource("rescue", "")
                        } else {
                            let (f, a) = v.split_once(':')?;
                            let (f, a) = *LOADS.iter().find(|(x, y)| *x == f && *y == a)?;
                            Call::LoadSource(f, a)
                        }
                    }
                    ("source", _) => Call::Source(Ds::parse(v)?),
                    ("target", _) => Call::Target(Ds::parse(v)?),
                    ("url", _) => Call::Url(hex_str(v)?),
                    ("defop", _) => Call::DefOp(intern(&DEFOPS, v)?),
                    ("erropt", _) => Call::ErrOpt(intern(&ERROPTS, v)?),
                    ("testopt", _) => Call::TestOpt(intern(&TESTOPTS, v)?),
                    ("sid", _) => Call::Sid(v.parse().ok()?),
                    ("confirmed", _) => Call::Confirmed(b01(v)?),
                    ("timeout", _) => Call::Timeout(v.parse().ok()?),
                    ("persist", _) => Call::Persist(opt_str(v)?),
                    ("persist-id", _) => Call::PersistId(opt_str(v)?),
                    ("ephemeral", _) => Call::Ephemeral(opt_str(v)?),
                    ("check", _) => Call::Check(b01(v)?),
                    ("confirmed-timeout", _) => Call::ConfirmedTimeout(v.parse().ok()?),
                    ("log", _) => Call::Log(hex_str(v)?),
                    ("sync", _) => Call::Sync(b01(v)?),
                    _ => return None,
                }
            }
        })
    }
}

#[derive(Clone, Debug)]
pub struct Case {
    pub op: &'static str,
    pub calls: Vec<Call>,
}

const OPS: [&str; 19] = [
    "get",
    "get-config",
    "edit-config",
    "copy-config",
    "delete-config",
    "lock",
    "unlock",
    "kill-session",
    "commit",
    "cancel-commit",
    "discard-changes",
    "validate",
    "close-session",
    "close-configuration",
    "lock-configuration",
    "unlock-configuration",
    "open-configuration",
    "load-configuration",
    "commit-configuration",
];

impl Case {
    fn new(op: &'static str, calls: Vec<Call>) -> Case {
        Case { op, calls }
    }
    fn calls_tok(&self, model: bool) -> String {
        list(&self.calls.iter().map(|c| c.tok(model)).collect::<Vec<_>>())
    }
    fn parse(op: &str, calls: &str) -> Option<Case> {
        let op = intern(&OPS, op)?;
        let calls = if calls == "." {
            vec![]
        } else {
            calls
                .split(',')
                .map(|t| Call::parse(op, t))
                .collect::<Option<Vec<_>>>()?
        };
        Some(Case { op, calls })
    }
}

// ---------------------------------------------------------------------------------------------
// running one case through the real builders

fn err_kind(e: &Error) -> String {
    match e {
        Error::UnsupportedOperation { .. } => "unsupported-operation".into(),
        Error::UnsupportedOperationParameter { .. } => "unsupported-operation-parameter".into(),
        Error::UnsupportedOperParameterValue { .. } => "unsupported-oper-parameter-value".into(),
        Error::UnsupportedSource { .. } => "unsupported-source".into(),
        Error::UnsupportedTarget { .. } => "unsupported-target".into(),
        Error::UnsupportedLockTarget { .. } => "unsupported-lock-target".into(),
        Error::UnsupportedUrlScheme { .. } => "unsupported-url-scheme".into(),
        Error::UnsupportedFilterType { .. } => "unsupported-filter-type".into(),
        Error::MissingOperationParameter { .. } => "missing-operation-parameter".into(),
        Error::IncompatibleOperationParameters { .. } => "incompatible-operation-parameters".into(),
        Error::UrlParse(_) => "url-parse".into(),
        Error::DeleteRunningConfig => "delete-running-config".into(),
        Error::InvalidSessionId { .. } => "invalid-session-id".into(),
        Error::KillCurrentSession => "kill-current-session".into(),
        other => {
            let d = format!("{other:?}");
            format!(
                "other:{}",
                d.split(|c: char| !c.is_alphanumeric())
                    .next()
                    .unwrap_or("?")
            )
        }
    }
}

fn filter_of(f: Option<bool>) -> Option<Filter> {
    match f {
        None => None,
        Some(false) => Some(Filter::Subtree("<configuration/>".into())),
        Some(true) => Some(Filter::XPath("/configuration/system".into())),
    }
}
fn defop_of(s: &str) -> DefaultOperation {
    match s {
        "merge" => DefaultOperation::Merge,
        "replace" => DefaultOperation::Replace,
        _ => DefaultOperation::None,
    }
}
fn erropt_of(s: &str) -> ErrorOption {
    match s {
        "stop-on-error" => ErrorOption::StopOnError,
        "continue-on-error" => ErrorOption::ContinueOnError,
        _ => ErrorOption::RollbackOnError,
    }
}
fn testopt_of(s: &str) -> TestOption {
    match s {
        "test-then-set" => TestOption::TestThenSet,
        "set" => TestOption::Set,
        _ => TestOption::TestOnly,
    }
}

/// `get`'s `Builder::filter` returns `Self` in the tree as it is and (like get-config's) a
/// `Result<Self, Error>` once it checks the :xpath capability; accept either signature
trait Lift<B> {
    fn lift(self) -> Result<B, Error>;
}
impl<B> Lift<B> for B {
    fn lift(self) -> Result<B, Error> {
        Ok(self)
    }
}
impl<B> Lift<B> for Result<B, Error> {
    fn lift(self) -> Result<B, Error> {
        self
    }
}
fn lift_as<B, T: Lift<B>>(_same_type_as: &B, t: T) -> Result<B, Error> {
    t.lift()
}

/// a call that does not exist on this operation's builder (cannot be written in Rust)
fn inapplicable(op: &str, c: &Call) -> ! {
    panic!("harness: call {c:?} does not exist on the {op} builder")
}

/// issue the request; the reply future is dropped unpolled (nothing is ever answered)
macro_rules! issue {
    ($session:expr, $op:ty, $body:expr) => {
        $session.rpc::<$op, _>($body).await.map(|_reply_future| ())
    };
}

macro_rules! load_with {
    ($session:expr, $calls:expr, $ty:ty, $mk:expr) => {
        issue!($session, LoadConfiguration<$ty>, |mut b| {
            for _ in $calls {
                b = b.source($mk);
            }
            b.finish()
        })
    };
}

async fn run_real(session: &mut Session, case: &Case) -> Result<(), Error> {
    let calls = &case.calls;
    let op = case.op;
    match op {
        "get" => issue!(session, Get, |mut b| {
            for c in calls {
                b = match c {
                    Call::Filter(f) => {
                        let witness = b.clone();
                        lift_as(&witness, b.filter(filter_of(*f)))?
                    }
                    c => inapplicable(op, c),
                };
            }
            b.finish()
        }),
        "get-config" => issue!(session, GetConfig<Opaque>, |mut b| {
            for c in calls {
                b = match c {
                    Call::Source(d) => b.source(d.real())?,
                    Call::Filter(f) => b.filter(filter_of(*f))?,
                    c => inapplicable(op, c),
                };
            }
            b.finish()
        }),
        "edit-config" => issue!(session, EditConfig<Opaque>, |mut b| {
            for c in calls {
                b = match c {
                    Call::Target(d) => b.target(d.real())?,
                    Call::Config => b.config(Opaque::from("<configuration/>")),
                    Call::Url(u) => b.url(u)?,
                    Call::DefOp(o) => b.default_operation(defop_of(o)),
                    Call::ErrOpt(o) => b.error_option(erropt_of(o))?,
                    Call::TestOpt(o) => b.test_option(testopt_of(o))?,
                    c => inapplicable(op, c),
                };
            }
            b.finish()
        }),
        "copy-config" => issue!(session, CopyConfig, |mut b| {
            for c in calls {
                b = match c {
                    Call::Target(d) => b.target(d.real())?,
                    Call::Source(d) => b.source(d.real())?,
                    Call::Config => b.config("<configuration/>".into()),
                    c => inapplicable(op, c),
                };
            }
            b.finish()
        }),
        "delete-config" => issue!(session, DeleteConfig, |mut b| {
            for c in calls {
                b = match c {
                    Call::Target(d) => b.target(d.real())?,
                    Call::Url(u) => b.url(u)?,
                    c => inapplicable(op, c),
                };
            }
            b.finish()
        }),
        "lock" => issue!(session, Lock, |mut b| {
            for c in calls {
                b = match c {
                    Call::Target(d) => b.target(d.real())?,
                    c => inapplicable(op, c),
                };
            }
            b.finish()
        }),
        "unlock" => issue!(session, Unlock, |mut b| {
            for c in calls {
                b = match c {
                    Call::Target(d) => b.target(d.real())?,
                    c => inapplicable(op, c),
                };
            }
            b.finish()
        }),
        "kill-session" => issue!(session, KillSession, |mut b| {
            for c in calls {
                b = match c {
                    Call::Sid(n) => b.session_id(*n)?,
                    c => inapplicable(op, c),
                };
            }
            b.finish()
        }),
        "commit" => issue!(session, Commit, |mut b| {
            for c in calls {
                b = match c {
                    Call::Confirmed(v) => b.confirmed(*v)?,
                    Call::Timeout(n) => b.confirm_timeout(Duration::from_secs(*n))?,
                    Call::Persist(t) => b.persist(t.as_ref().map(Token::new))?,
                    Call::PersistId(t) => b.persist_id(t.as_ref().map(Token::new))?,
                    c => inapplicable(op, c),
                };
            }
            b.finish()
        }),
        "cancel-commit" => issue!(session, CancelCommit, |mut b| {
            for c in calls {
                b = match c {
                    Call::PersistId(t) => b.persist_id(t.as_ref().map(Token::new))?,
                    c => inapplicable(op, c),
                };
            }
            b.finish()
        }),
        "discard-changes" => issue!(session, DiscardChanges, |b| b.finish()),
        "validate" => issue!(session, Validate, |mut b| {
            for c in calls {
                b = match c {
                    Call::Source(d) => b.source(d.real())?,
                    Call::Config => b.config("<configuration/>".into()),
                    c => inapplicable(op, c),
                };
            }
            b.finish()
        }),
        "close-configuration" => issue!(session, CloseConfiguration, |b| b.finish()),
        "lock-configuration" => issue!(session, LockConfiguration, |b| b.finish()),
        "unlock-configuration" => issue!(session, UnlockConfiguration, |b| b.finish()),
        "open-configuration" => issue!(session, OpenConfiguration, |mut b| {
            for c in calls {
                b = match c {
                    Call::Private => b.private(),
                    Call::Ephemeral(n) => b.ephemeral(n.as_deref()),
                    c => inapplicable(op, c),
                };
            }
            b.finish()
        }),
        "load-configuration" => {
            // the source type is a type parameter of the operation: all calls of one case have
            // the same kind (anything else cannot be written in Rust)
            let kind = match calls.first() {
                None => ("rescue", ""),
                Some(Call::LoadSource(f, a)) => (*f, *a),
                Some(c) => inapplicable(op, c),
            };
            if calls.iter().any(|c| *c != Call::LoadSource(kind.0, kind.1)) {
                panic!("harness: mixed load-configuration source types");
            }
            let xml = || Opaque::from("<configuration/>");
            match kind {
                ("rescue", _) => load_with!(session, calls, Rescue, Rescue),
                ("xml", "merge") => {
                    load_with!(session, calls, Config<Opaque, Xml, Merge>, Config::new(xml(), Xml, Merge))
                }
                ("xml", "override") => {
                    load_with!(session, calls, Config<Opaque, Xml, Override>, Config::new(xml(), Xml, Override))
                }
                ("xml", "update") => {
                    load_with!(session, calls, Config<Opaque, Xml, Update>, Config::new(xml(), Xml, Update))
                }
                ("xml", "replace") => {
                    load_with!(session, calls, Config<Opaque, Xml, Replace>, Config::new(xml(), Xml, Replace))
                }
                ("text", "merge") => {
                    load_with!(session, calls, Config<&str, Text, Merge>, Config::new("system { }", Text, Merge))
                }
                ("text", "override") => {
                    load_with!(session, calls, Config<&str, Text, Override>, Config::new("system { }", Text, Override))
                }
                ("text", "update") => {
                    load_with!(session, calls, Config<&str, Text, Update>, Config::new("system { }", Text, Update))
                }
                ("text", "replace") => {
                    load_with!(session, calls, Config<&str, Text, Replace>, Config::new("system { }", Text, Replace))
                }
                ("text", "set") => {
                    load_with!(session, calls, Config<&str, Text, Set>, Config::new("set system", Text, Set))
                }
                ("json", "merge") => {
                    load_with!(session, calls, Config<&str, Json, Merge>, Config::new("{}", Json, Merge))
                }
                ("json", "override") => {
                    load_with!(session, calls, Config<&str, Json, Override>, Config::new("{}", Json, Override))
                }
                ("json", "update") => {
                    load_with!(session, calls, Config<&str, Json, Update>, Config::new("{}", Json, Update))
                }
                other => panic!("harness: no such load-configuration source {other:?}"),
            }
        }
        "commit-configuration" => issue!(session, CommitConfiguration, |mut b| {
            for c in calls {
                b = match c {
                    Call::Check(v) => b.check(*v),
                    Call::Now => b.now(),
                    Call::AtReboot => b.at_reboot(),
                    Call::TodayAt => b.today_at(chrono::NaiveTime::from_hms_opt(3, 4, 5).unwrap()),
                    Call::At => b.at(chrono::NaiveDate::from_ymd_opt(2030, 1, 2)
                        .unwrap()
                        .and_hms_opt(3, 4, 5)
                        .unwrap()),
                    Call::Confirmed(v) => b.confirmed(*v),
                    Call::ConfirmedTimeout(n) => b.confirmed_with_timeout(Duration::from_secs(*n)),
                    Call::Log(m) => b.with_log_message(m),
                    Call::Sync(f) => b.synchronize(*f),
                    c => inapplicable(op, c),
                };
            }
            b.finish()
        }),
        other => panic!("harness: unknown operation {other}"),
    }
}

// ---------------------------------------------------------------------------------------------
// canonical form of what reached the wire (quick-xml)

#[derive(Debug, Default)]
struct Node {
    name: String,
    attrs: Vec<(String, String)>,
    children: Vec<Node>,
    text: String,
}
impl Node {
    fn child(&self, n: &str) -> Option<&Node> {
        self.children.iter().find(|c| c.name == n)
    }
    fn attr(&self, n: &str) -> Option<&str> {
        self.attrs
            .iter()
            .find(|(k, _)| k == n)
            .map(|(_, v)| v.as_str())
    }
}

fn parse_xml(bytes: &[u8]) -> Option<Node> {
    use quick_xml::events::Event;
    let s = std::str::from_utf8(bytes).ok()?;
    let s = s.strip_suffix("]]>]]>")?;
    let mut reader = quick_xml::Reader::from_str(s);
    let mut stack: Vec<Node> = vec![Node::default()];
    let start = |e: &quick_xml::events::BytesStart<'_>| -> Option<Node> {
        let mut n = Node {
            name: String::from_utf8(e.local_name().as_ref().to_vec()).ok()?,
            ..Default::default()
        };
        for a in e.attributes() {
            let a = a.ok()?;
            n.attrs.push((
                String::from_utf8(a.key.as_ref().to_vec()).ok()?,
                a.unescape_value().ok()?.into_owned(),
            ));
        }
        Some(n)
    };
    loop {
        match reader.read_event().ok()? {
            Event::Start(e) => stack.push(start(&e)?),
            Event::Empty(e) => {
                let n = start(&e)?;
                stack.last_mut()?.children.push(n);
            }
            Event::End(_) => {
                let n = stack.pop()?;
                stack.last_mut()?.children.push(n);
            }
            Event::Text(t) => {
                let t = t.unescape().ok()?;
                stack.last_mut()?.text.push_str(&t);
            }
            Event::Eof => break,
            _ => {}
        }
    }
    if stack.len() != 1 {
        return None;
    }
    let mut root = stack.pop()?;
    if root.children.len() != 1 {
        return None;
    }
    root.children.pop()
}

/// scheme of a URL as a server would read it (RFC 3986: everything before the first ':')
fn wire_scheme(url: &str) -> String {
    hexs(url.split(':').next().unwrap_or(""))
}

fn endpoint(n: &Node) -> Option<String> {
    if n.children.len() != 1 {
        return None;
    }
    let c = &n.children[0];
    Some(match c.name.as_str() {
        "running" | "candidate" | "startup" => c.name.clone(),
        "config" => "config".into(),
        "url" => format!("url:{}", wire_scheme(c.text.trim())),
        _ => return None,
    })
}

fn filter_tok(n: &Node) -> Option<String> {
    Some(match n.child("filter") {
        None => "-".into(),
        Some(f) => match f.attr("type")? {
            "xpath" => "xpath".into(),
            "subtree" => "subtree".into(),
            _ => return None,
        },
    })
}

fn opt_text(n: &Node, name: &str) -> String {
    match n.child(name) {
        None => "-".into(),
        Some(c) => c.text.clone(),
    }
}
fn opt_text_hex(n: &Node, name: &str) -> String {
    match n.child(name) {
        None => "~".into(),
        Some(c) => hexs(&c.text),
    }
}
fn known_children(n: &Node, names: &[&str]) -> bool {
    n.children.iter().all(|c| names.contains(&c.name.as_str()))
}

fn canon_op(o: &Node) -> Option<String> {
    let flag = |name: &str| if o.child(name).is_some() { "1" } else { "0" };
    Some(match o.name.as_str() {
        "get" if known_children(o, &["filter"]) => format!("get;filter={}", filter_tok(o)?),
        "get-config" if known_children(o, &["source", "filter"]) => {
            format!(
                "get-config;source={};filter={}",
                endpoint(o.child("source")?)?,
                filter_tok(o)?
            )
        }
        "edit-config"
            if known_children(
                o,
                &[
                    "target",
                    "default-operation",
                    "error-option",
                    "test-option",
                    "config",
                    "url",
                ],
            ) =>
        {
            let content = match (o.child("config"), o.child("url")) {
                (Some(_), None) => "config".to_string(),
                (None, Some(u)) => format!("url:{}", wire_scheme(u.text.trim())),
                _ => return None,
            };
            format!(
                "edit-config;target={};default-operation={};error-option={};test-option={};content={}",
                endpoint(o.child("target")?)?,
                opt_text(o, "default-operation"),
                opt_text(o, "error-option"),
                opt_text(o, "test-option"),
                content
            )
        }
        "copy-config" if known_children(o, &["target", "source"]) => {
            format!(
                "copy-config;target={};source={}",
                endpoint(o.child("target")?)?,
                endpoint(o.child("source")?)?
            )
        }
        "delete-config" | "lock" | "unlock" if known_children(o, &["target"]) => {
            format!("{};target={}", o.name, endpoint(o.child("target")?)?)
        }
        "kill-session" if known_children(o, &["session-id"]) => {
            format!("kill-session;session-id={}", o.child("session-id")?.text)
        }
        "commit"
            if known_children(
                o,
                &["confirmed", "confirm-timeout", "persist", "persist-id"],
            ) =>
        {
            format!(
                "commit;confirmed={};confirm-timeout={};persist={};persist-id={}",
                flag("confirmed"),
                opt_text(o, "confirm-timeout"),
                opt_text_hex(o, "persist"),
                opt_text_hex(o, "persist-id")
            )
        }
        "cancel-commit" if known_children(o, &["persist-id"]) => {
            format!("cancel-commit;persist-id={}", opt_text_hex(o, "persist-id"))
        }
        "validate" if known_children(o, &["source"]) => {
            format!("validate;source={}", endpoint(o.child("source")?)?)
        }
        "discard-changes"
        | "close-session"
        | "close-configuration"
        | "lock-configuration"
        | "unlock-configuration"
            if o.children.is_empty() && o.attrs.is_empty() =>
        {
            o.name.clone()
        }
        "open-configuration" if o.children.len() == 1 => {
            let c = &o.children[0];
            match c.name.as_str() {
                "private" => "open-configuration;target=private".into(),
                "ephemeral" => "open-configuration;target=ephemeral".into(),
                "ephemeral-instance" => {
                    format!("open-configuration;target=instance:{}", hexs(&c.text))
                }
                _ => return None,
            }
        }
        "load-configuration" => {
            if o.attr("rescue").is_some() && o.attrs.len() == 1 && o.children.is_empty() {
                "load-configuration;source=rescue".into()
            } else if o.attrs.len() == 2 && o.children.len() == 1 {
                format!(
                    "load-configuration;source=config:{}:{}",
                    o.attr("format")?,
                    o.attr("action")?
                )
            } else {
                "load-configuration;source=other".into()
            }
        }
        "commit-configuration"
            if known_children(
                o,
                &[
                    "check",
                    "at-time",
                    "confirmed",
                    "confirm-timeout",
                    "log",
                    "synchronize",
                    "force-synchronize",
                ],
            ) =>
        {
            let at = match o.child("at-time") {
                None => "-",
                Some(t) if t.text == "reboot" => "reboot",
                Some(t) if t.text.len() == 8 => "time",
                Some(_) => "datetime",
            };
            let sync = match (o.child("synchronize"), o.child("force-synchronize")) {
                (None, None) => "-",
                (Some(_), None) => "synchronize",
                (None, Some(_)) => "force-synchronize",
                _ => return None,
            };
            format!(
                "commit-configuration;check={};at-time={};confirmed={};confirm-timeout={};log={};sync={}",
                flag("check"),
                at,
                flag("confirmed"),
                opt_text(o, "confirm-timeout"),
                opt_text_hex(o, "log"),
                sync
            )
        }
        _ => return None,
    })
}

fn canon_wire(bytes: &[u8]) -> String {
    let parsed = parse_xml(bytes).and_then(|rpc| {
        if rpc.name != "rpc" || rpc.children.len() != 1 || rpc.attr("message-id").is_none() {
            return None;
        }
        canon_op(&rpc.children[0])
    });
    parsed.unwrap_or_else(|| format!("?unparsed:{}", hex(bytes)))
}

// ---------------------------------------------------------------------------------------------
// case generation

/// all cases; the second component is the number of cases before the call-order permutations start
fn cases_for_all(rng: &mut Rng, thorough: bool) -> (Vec<Case>, usize) {
    let mut v: Vec<Case> = vec![];
    let filters = [None, Some(false), Some(true)];
    // get
    v.push(Case::new("get", vec![]));
    for f in filters {
        v.push(Case::new("get", vec![Call::Filter(f)]));
    }
    v.push(Case::new(
        "get",
        vec![Call::Filter(Some(true)), Call::Filter(None)],
    ));
    v.push(Case::new(
        "get",
        vec![Call::Filter(Some(false)), Call::Filter(Some(true))],
    ));
    // get-config: source × filter, both orders
    for s in [
        None,
        Some(Ds::Running),
        Some(Ds::Candidate),
        Some(Ds::Startup),
    ] {
        for f in [None, Some(None), Some(Some(false)), Some(Some(true))] {
            let mut calls = vec![];
            if let Some(d) = s {
                calls.push(Call::Source(d));
            }
            if let Some(f) = f {
                calls.push(Call::Filter(f));
            }
            if calls.len() == 2 {
                let mut r = calls.clone();
                r.reverse();
                v.push(Case::new("get-config", r));
            }
            v.push(Case::new("get-config", calls));
        }
    }
    v.push(Case::new(
        "get-config",
        vec![Call::Source(Ds::Candidate), Call::Source(Ds::Running)],
    ));
    v.push(Case::new(
        "get-config",
        vec![
            Call::Source(Ds::Running),
            Call::Filter(Some(true)),
            Call::Filter(None),
        ],
    ));
    // edit-config
    let targets = [
        None,
        Some(Ds::Running),
        Some(Ds::Candidate),
        Some(Ds::Startup),
    ];
    let contents: Vec<Option<Call>> = std::iter::once(None)
        .chain(std::iter::once(Some(Call::Config)))
        .chain(URLS.iter().map(|u| Some(Call::Url((*u).to_string()))))
        .collect();
    let opt3 = |l: &[&'static str; 3]| -> Vec<Option<&'static str>> {
        std::iter::once(None)
            .chain(l.iter().copied().map(Some))
            .collect()
    };
    let (defops, erropts, testopts) = (opt3(&DEFOPS), opt3(&ERROPTS), opt3(&TESTOPTS));
    let edit = |t: Option<Ds>,
                c: &Option<Call>,
                d: Option<&'static str>,
                e: Option<&'static str>,
                to: Option<&'static str>| {
        let mut calls = vec![];
        if let Some(t) = t {
            calls.push(Call::Target(t));
        }
        if let Some(c) = c {
            calls.push(c.clone());
        }
        if let Some(d) = d {
            calls.push(Call::DefOp(d));
        }
        if let Some(e) = e {
            calls.push(Call::ErrOpt(e));
        }
        if let Some(to) = to {
            calls.push(Call::TestOpt(to));
        }
        Case::new("edit-config", calls)
    };
    if thorough {
        for t in targets {
            for c in &contents {
                for d in &defops {
                    for e in &erropts {
                        for to in &testopts {
                            v.push(edit(t, c, *d, *e, *to));
                        }
                    }
                }
            }
        }
    } else {
        for t in targets {
            for e in &erropts {
                for to in &testopts {
                    v.push(edit(t, &Some(Call::Config), None, *e, *to));
                }
            }
        }
        for t in [None, Some(Ds::Running), Some(Ds::Candidate)] {
            for c in &contents {
                v.push(edit(t, c, None, None, None));
            }
        }
        for d in &defops {
            v.push(edit(
                Some(Ds::Candidate),
                &Some(Call::Config),
                *d,
                None,
                None,
            ));
        }
    }
    // random full combinations, calls shuffled (the first failing call decides the error)
    for _ in 0..(if thorough { 200 } else { 40 }) {
        let mut c = edit(
            *rng.pick(&targets),
            rng.pick(&contents),
            *rng.pick(&defops),
            *rng.pick(&erropts),
            *rng.pick(&testopts),
        );
        rng.shuffle(&mut c.calls);
        if rng.chance(1, 4) {
            c.calls.push(Call::Target(*rng.pick(&Ds::ALL)));
        }
        v.push(c);
    }
    // copy-config
    for t in targets {
        for s in [
            None,
            Some(Call::Source(Ds::Running)),
            Some(Call::Source(Ds::Candidate)),
            Some(Call::Source(Ds::Startup)),
            Some(Call::Config),
        ] {
            let mut calls = vec![];
            if let Some(t) = t {
                calls.push(Call::Target(t));
            }
            if let Some(s) = s {
                calls.push(s);
            }
            if calls.len() == 2 {
                let mut r = calls.clone();
                r.reverse();
                v.push(Case::new("copy-config", r));
            }
            v.push(Case::new("copy-config", calls));
        }
    }
    v.push(Case::new(
        "copy-config",
        vec![
            Call::Target(Ds::Startup),
            Call::Config,
            Call::Source(Ds::Candidate),
            Call::Target(Ds::Running),
        ],
    ));
    // delete-config
    v.push(Case::new("delete-config", vec![]));
    for d in Ds::ALL {
        v.push(Case::new("delete-config", vec![Call::Target(d)]));
    }
    for u in URLS {
        v.push(Case::new("delete-config", vec![Call::Url(u.to_string())]));
    }
    v.push(Case::new(
        "delete-config",
        vec![Call::Target(Ds::Startup), Call::Url(URLS[0].to_string())],
    ));
    v.push(Case::new(
        "delete-config",
        vec![Call::Url(URLS[1].to_string()), Call::Target(Ds::Candidate)],
    ));
    v.push(Case::new(
        "delete-config",
        vec![Call::Url(URLS[1].to_string()), Call::Target(Ds::Running)],
    ));
    // lock / unlock
    for op in ["lock", "unlock"] {
        v.push(Case::new(op, vec![]));
        for d in Ds::ALL {
            v.push(Case::new(op, vec![Call::Target(d)]));
        }
        v.push(Case::new(
            op,
            vec![Call::Target(Ds::Candidate), Call::Target(Ds::Running)],
        ));
        v.push(Case::new(
            op,
            vec![Call::Target(Ds::Running), Call::Target(Ds::Startup)],
        ));
    }
    // kill-session
    v.push(Case::new("kill-session", vec![]));
    for n in [0, SESSION_ID, SESSION_ID + 1, u32::MAX] {
        v.push(Case::new("kill-session", vec![Call::Sid(n)]));
    }
    v.push(Case::new("kill-session", vec![Call::Sid(7), Call::Sid(0)]));
    v.push(Case::new("kill-session", vec![Call::Sid(7), Call::Sid(9)]));
    // commit: every combination of the four parameters
    let tok = |s: &str| Some(Some(s.to_string()));
    for c in [None, Some(true), Some(false)] {
        for t in [None, Some(120u64), Some(600)] {
            for p in [None, tok("tok-1"), Some(None)] {
                for pid in [None, tok("tok<2>&"), Some(None)] {
                    let mut calls = vec![];
                    if let Some(c) = c {
                        calls.push(Call::Confirmed(c));
                    }
                    if let Some(t) = t {
                        calls.push(Call::Timeout(t));
                    }
                    if let Some(p) = &p {
                        calls.push(Call::Persist(p.clone()));
                    }
                    if let Some(pid) = &pid {
                        calls.push(Call::PersistId(pid.clone()));
                    }
                    v.push(Case::new("commit", calls));
                }
            }
        }
    }
    v.push(Case::new(
        "commit",
        vec![
            Call::PersistId(Some("a".into())),
            Call::Confirmed(true),
            Call::PersistId(None),
        ],
    ));
    v.push(Case::new(
        "commit",
        vec![
            Call::Confirmed(true),
            Call::Persist(Some("a".into())),
            Call::Confirmed(false),
            Call::Persist(None),
        ],
    ));
    // cancel-commit
    v.push(Case::new("cancel-commit", vec![]));
    v.push(Case::new(
        "cancel-commit",
        vec![Call::PersistId(Some("tok-1".into()))],
    ));
    v.push(Case::new("cancel-commit", vec![Call::PersistId(None)]));
    v.push(Case::new(
        "cancel-commit",
        vec![Call::PersistId(Some("a".into())), Call::PersistId(None)],
    ));
    v.push(Case::new("discard-changes", vec![]));
    // validate
    v.push(Case::new("validate", vec![]));
    for d in Ds::ALL {
        v.push(Case::new("validate", vec![Call::Source(d)]));
    }
    v.push(Case::new("validate", vec![Call::Config]));
    v.push(Case::new(
        "validate",
        vec![Call::Config, Call::Source(Ds::Candidate)],
    ));
    v.push(Case::new(
        "validate",
        vec![Call::Source(Ds::Startup), Call::Config],
    ));
    // Junos
    for op in [
        "close-configuration",
        "lock-configuration",
        "unlock-configuration",
    ] {
        v.push(Case::new(op, vec![]));
    }
    v.push(Case::new("open-configuration", vec![]));
    v.push(Case::new("open-configuration", vec![Call::Private]));
    v.push(Case::new("open-configuration", vec![Call::Ephemeral(None)]));
    v.push(Case::new(
        "open-configuration",
        vec![Call::Ephemeral(Some("inst-1".into()))],
    ));
    v.push(Case::new(
        "open-configuration",
        vec![Call::Private, Call::Ephemeral(Some("x".into()))],
    ));
    v.push(Case::new(
        "open-configuration",
        vec![Call::Ephemeral(None), Call::Private],
    ));
    v.push(Case::new("load-configuration", vec![]));
    for (f, a) in LOADS {
        v.push(Case::new(
            "load-configuration",
            vec![Call::LoadSource(f, a)],
        ));
    }
    v.push(Case::new(
        "load-configuration",
        vec![
            Call::LoadSource("text", "set"),
            Call::LoadSource("text", "set"),
        ],
    ));
    let cc = |calls: Vec<Call>| Case::new("commit-configuration", calls);
    v.push(cc(vec![]));
    v.push(cc(vec![Call::Check(true)]));
    v.push(cc(vec![Call::Check(true), Call::Check(false)]));
    v.push(cc(vec![Call::AtReboot]));
    v.push(cc(vec![Call::TodayAt]));
    v.push(cc(vec![Call::At]));
    v.push(cc(vec![Call::At, Call::Now]));
    v.push(cc(vec![Call::Confirmed(true)]));
    v.push(cc(vec![Call::Confirmed(true), Call::Confirmed(false)]));
    v.push(cc(vec![Call::ConfirmedTimeout(90)]));
    v.push(cc(vec![Call::ConfirmedTimeout(600)]));
    v.push(cc(vec![Call::ConfirmedTimeout(601)]));
    v.push(cc(vec![Call::ConfirmedTimeout(0), Call::Confirmed(true)]));
    v.push(cc(vec![Call::Log("a <b> & c".into())]));
    v.push(cc(vec![Call::Sync(false)]));
    v.push(cc(vec![Call::Sync(true)]));
    v.push(cc(vec![
        Call::Check(true),
        Call::AtReboot,
        Call::ConfirmedTimeout(3600),
        Call::Log("m".into()),
        Call::Sync(true),
    ]));
    // the ORDER of builder calls: a check made in one call may depend on what an earlier call stored.
    // For every case above with 2..=4 calls: every other order (2, 3 calls) / a covering set of orders (4 calls).
    let n_base = v.len();
    let mut seen: std::collections::HashSet<String> = v.iter().map(|c| format!("{}{:?}", c.op, c.calls)).collect();
    let base: Vec<Case> = v.iter().filter(|c| (2..=4).contains(&c.calls.len())).cloned().collect();
    for c in base {
        let n = c.calls.len();
        let id: Vec<usize> = (0..n).collect();
        let mut orders: Vec<Vec<usize>> = vec![];
        if n <= 3 {
            // all orders (Heap's algorithm, iterative)
            let mut idx = id.clone();
            let mut st = vec![0usize; n];
            let mut i = 0;
            while i < n {
                if st[i] < i {
                    if i % 2 == 0 {
                        idx.swap(0, i);
                    } else {
                        idx.swap(st[i], i);
                    }
                    orders.push(idx.clone());
                    st[i] += 1;
                    i = 0;
                } else {
                    st[i] = 0;
                    i += 1;
                }
            }
        } else {
            // four calls: the rotations, the reversal, and each adjacent transposition (every pair of
            // calls occurs in both relative orders)
            for r in 1..n {
                orders.push((0..n).map(|k| (k + r) % n).collect());
            }
            orders.push(id.iter().rev().copied().collect());
            for k in 0..n - 1 {
                let mut o = id.clone();
                o.swap(k, k + 1);
                orders.push(o);
            }
        }
        for o in orders {
            let calls: Vec<Call> = o.iter().map(|&k| c.calls[k].clone()).collect();
            if seen.insert(format!("{}{:?}", c.op, calls)) {
                v.push(Case::new(c.op, calls));
            }
        }
    }
    (v, n_base)
}

/// reduced list for the exhaustive 2^13 sweep of the thorough tier: every operation, every single
/// call with every value, and the two-call forms in which datastore roles / URLs / filters combine
fn core_cases(all: &[Case]) -> Vec<Case> {
    all.iter()
        .filter(|c| {
            c.calls.len() <= 1
                || (c.calls.len() == 2
                    && match c.op {
                        "get-config" => matches!(c.calls[0], Call::Source(_)),
                        "edit-config" => {
                            matches!(c.calls[0], Call::Target(_))
                                && matches!(c.calls[1], Call::Config | Call::Url(_))
                        }
                        "copy-config" => matches!(c.calls[0], Call::Target(_)),
                        "commit" => matches!(c.calls[0], Call::Confirmed(true)),
                        _ => false,
                    })
        })
        .cloned()
        .collect()
}

#[derive(Clone, Debug)]
struct CapSet {
    toks: Vec<CapTok>,
    /// use the reduced case list
    core_only: bool,
}

fn gen_capsets(opts: &Opts, rng: &mut Rng) -> Vec<CapSet> {
    let mut sets: Vec<CapSet> = vec![];
    let mut seen = std::collections::HashSet::new();
    let mut push = |sets: &mut Vec<CapSet>, toks: Vec<CapTok>, core_only: bool| {
        if seen.insert(toks.clone()) {
            sets.push(CapSet { toks, core_only });
        }
    };
    let n = KNOWN.len();
    let mut rot = 0usize;
    // (A) all subsets of the 13 known capabilities of size <= 2 and >= 11
    for mask in 0u32..(1 << n) {
        let k = mask.count_ones() as usize;
        if k <= 2 || k >= n - 2 {
            rot += 1;
            push(&mut sets, toks_of(mask, rot, &[]), false);
        }
    }
    // (B) every subset of the 11 optional capabilities of size <= 2, with base 1.0 alone and with
    //     both base versions (without a common base version no session exists; the client speaks
    //     1.0 only); every :url variant
    for mask in 0u32..(1 << n) {
        if mask & 3 != 0 || mask.count_ones() > 2 {
            continue;
        }
        for base in [1u32, 3] {
            if mask & (1 << URL_IDX) != 0 {
                for q in 0..URL_QUERIES.len() {
                    push(&mut sets, toks_of(mask | base, q, &[]), false);
                }
            } else {
                push(&mut sets, toks_of(mask | base, 0, &[]), false);
            }
        }
    }
    // (C) random subsets, random base, sometimes noise capabilities, shuffled order, duplicates
    let n_rand = if opts.thorough() { 400 } else { 200 };
    for _ in 0..n_rand {
        let mut mask = (rng.next() as u32) & ((1 << n) - 1) & !3;
        mask |= 1 + 2 * rng.below(2) as u32;
        let mut extra = vec![];
        while rng.chance(1, 3) {
            extra.push(CapTok::Noise(rng.below(NOISE.len())));
        }
        let mut toks = toks_of(mask, rng.below(URL_QUERIES.len()), &extra);
        if rng.chance(1, 2) {
            rng.shuffle(&mut toks);
        }
        if rng.chance(1, 8) {
            let d = rng.pick(&toks).clone();
            toks.push(d);
        }
        push(&mut sets, toks, false);
    }
    // (D) noise only / everything plus noise / invalid capability text
    for i in 0..NOISE.len() {
        push(&mut sets, toks_of(0b11, 0, &[CapTok::Noise(i)]), false);
    }
    let all_noise: Vec<CapTok> = (0..NOISE.len()).map(CapTok::Noise).collect();
    push(&mut sets, toks_of((1 << n) - 1, 1, &all_noise), false);
    for i in 0..INVALID.len() {
        push(
            &mut sets,
            toks_of((1 << n) - 1, 1, &[CapTok::Invalid(i)]),
            false,
        );
    }
    // (E) thorough: all 2^13 subsets (reduced case list)
    if opts.thorough() {
        for mask in 0u32..(1 << n) {
            rot += 1;
            push(&mut sets, toks_of(mask, rot, &[]), true);
        }
    }
    sets
}

// ---------------------------------------------------------------------------------------------

fn capset_descr(toks: &[CapTok]) -> String {
    list(&toks.iter().map(|t| t.descr()).collect::<Vec<_>>())
}

fn advertised(toks: &[CapTok]) -> String {
    let mut v: Vec<String> = toks.iter().map(|t| t.advertised()).collect();
    v.sort();
    v.dedup();
    list(&v)
}

struct Job {
    toks: Vec<CapTok>,
    cases: Vec<Case>,
    cfg: String,
}

async fn establish(uris: &[String]) -> (Result<Session, Error>, Peer) {
    let refs: Vec<&str> = uris.iter().map(|s| s.as_str()).collect();
    memtransport::session_with_hello(&memtransport::hello(&refs, SESSION_ID)).await
}

struct Ctx<'a> {
    cfg: &'a str,
    /// the capability set as the implementation parsed it (the builders' context)
    caps: String,
    /// the capability set as the server advertised it (harness's own reading of the URIs)
    adv: String,
    errors_checked: u64,
}

fn run_job(job: Job) -> Sink {
    let mut sink = Sink::new();
    let rt = tokio::runtime::Builder::new_current_thread()
        .enable_all()
        .build()
        .unwrap();
    let cd = capset_descr(&job.toks);
    let uris: Vec<String> = job.toks.iter().map(|t| t.uri()).collect();
    let annotated = list(&uris.iter().map(|u| annotate(u)).collect::<Vec<_>>());
    rt.block_on(async {
        let (res, peer) = establish(&uris).await;
        let case0 = format!("{cd}|-|.");
        let mut session = match res {
            Ok(s) => s,
            Err(e) => {
                // no session: nothing can be sent. The model must agree when the cause is a
                // capability that is not a URI; a missing common base version is C12's business.
                let all_valid = uris
                    .iter()
                    .all(|u| UriStr::new(xml_span(u).as_str()).is_ok());
                if !all_valid {
                    sink.corr(
                        &case0,
                        format!("build caps {} {annotated}", job.cfg),
                        "nosession".into(),
                    );
                    sink.count("session.rejected-invalid-capability");
                } else {
                    sink.count(&format!("session.none.{}", err_kind(&e)));
                }
                sink.direct(
                    &case0,
                    if peer.sent_count() <= 1 {
                        "ok".into()
                    } else {
                        "violation sent-without-session".into()
                    },
                );
                return;
            }
        };
        sink.count("session.established");
        let caps_v = caps_tokens(&session);
        let mut ctx = Ctx {
            cfg: &job.cfg,
            caps: list(&caps_v),
            adv: advertised(&job.toks),
            errors_checked: 0,
        };
        sink.corr(
            &case0,
            format!("build caps {} {annotated}", job.cfg),
            format!("caps={}", ctx.caps),
        );
        // independent oracle on the hello reader: the context holds what the server advertised
        if ctx.caps == ctx.adv {
            sink.direct(&case0, "ok".into());
        } else {
            sink.direct(&case0, "violation advertised-capability-misread".into());
            sink.count("capset.misread");
            sink.sample(format!("advertised [{}] read as [{}]", ctx.adv, ctx.caps));
        }
        sink.count(&format!("capset.size.{:02}", caps_v.len()));
        for case in &job.cases {
            let d = format!("{cd}|{}|{}", case.op, case.calls_tok(false));
            let before = peer.sent_count();
            let outcome = AssertUnwindSafe(run_real(&mut session, case))
                .catch_unwind()
                .await;
            let sent = peer.sent();
            record(
                &mut sink,
                &mut ctx,
                &d,
                case,
                outcome,
                &sent[before.min(sent.len())..],
            );
        }
        // `Session::close` (the only way to issue close-session) consumes the session: last
        let case = Case::new("close-session", vec![]);
        let d = format!("{cd}|close-session|.");
        let before = peer.sent_count();
        let outcome =
            AssertUnwindSafe(async move { session.close().await.map(|_reply_future| ()) })
                .catch_unwind()
                .await;
        let sent = peer.sent();
        record(
            &mut sink,
            &mut ctx,
            &d,
            &case,
            outcome,
            &sent[before.min(sent.len())..],
        );
        // every local failure left the transport untouched (violations were reported per case)
        sink.direct(&format!("{cd}|*|."), "ok".into());
        sink.add("errors_with_wire_untouched", ctx.errors_checked);
    });
    sink
}

fn record(
    sink: &mut Sink,
    ctx: &mut Ctx<'_>,
    d: &str,
    case: &Case,
    outcome: Result<Result<(), Error>, Box<dyn std::any::Any + Send>>,
    new_msgs: &[bytes::Bytes],
) {
    let calls = case.calls_tok(true);
    let model_line = format!(
        "build op {} {SESSION_ID} {} {} {calls}",
        ctx.cfg, ctx.caps, case.op
    );
    sink.count(&format!("op.{}", case.op));
    let (obs, spec_outcome) = match outcome {
        Err(p) => {
            let msg = p
                .downcast_ref::<String>()
                .cloned()
                .or_else(|| p.downcast_ref::<&str>().map(|s| s.to_string()))
                .unwrap_or_default();
            sink.direct(d, "violation panic".into());
            sink.notes.push(format!("panic in {d}: {msg}"));
            ("panic".to_string(), None)
        }
        Ok(Ok(())) => {
            if new_msgs.len() == 1 {
                let c = canon_wire(&new_msgs[0]);
                sink.count("outcome.sent");
                (format!("ok {c}"), Some(format!("sent:{c}")))
            } else {
                sink.direct(d, format!("violation ok-but-{}-messages", new_msgs.len()));
                (format!("ok ?{}-messages", new_msgs.len()), None)
            }
        }
        Ok(Err(e)) => {
            let k = err_kind(&e);
            sink.count(&format!("outcome.err.{k}"));
            if new_msgs.is_empty() {
                ctx.errors_checked += 1;
                (format!("err {k}"), Some(format!("err:{k}")))
            } else {
                sink.direct(d, "violation sent-on-error".into());
                (
                    format!("err {k} +sent"),
                    Some(format!("sent:{}", canon_wire(&new_msgs[0]))),
                )
            }
        }
    };
    sink.sample(format!("{} {calls} on [{}] -> {obs}", case.op, ctx.caps));
    sink.corr(d, model_line, obs);
    if let Some(o) = spec_outcome {
        // the RFC table is evaluated against what the server advertised
        sink.spec(
            d,
            format!(
                "build spec {SESSION_ID} {} {} {calls} {o}",
                ctx.adv, case.op
            ),
        );
    }
}

pub fn main(opts: &Opts) {
    let mut rng = Rng::new(opts.seed);
    let cfg = opts
        .extra
        .iter()
        .find_map(|e| e.strip_prefix("cfg=").map(|s| s.to_string()))
        .unwrap_or_else(|| "pinned".to_string());
    let t0 = std::time::Instant::now();
    let mut jobs: Vec<Job> = vec![];
    let mut sink = Sink::new();
    if let Some(p) = &opts.replay {
        // group the replayed cases by capability set
        let mut groups: Vec<(Vec<CapTok>, Vec<Case>)> = vec![];
        for l in std::fs::read_to_string(p).unwrap().lines() {
            let Some(d) = l.strip_prefix("case\t") else {
                continue;
            };
            let d = d.split('\t').next().unwrap();
            let parts: Vec<&str> = d.split('|').collect();
            if parts.len() != 3 {
                continue;
            }
            let toks: Option<Vec<CapTok>> = if parts[0] == "." {
                Some(vec![])
            } else {
                parts[0].split(',').map(CapTok::parse).collect()
            };
            let Some(toks) = toks else { continue };
            // `-` / `*` are the capability-set rows, close-session is issued for every set anyway
            let case = if matches!(parts[1], "-" | "*" | "close-session") {
                None
            } else {
                Case::parse(parts[1], parts[2])
            };
            match groups.iter_mut().find(|(u, _)| *u == toks) {
                Some((_, cs)) => cs.extend(case),
                None => groups.push((toks, case.into_iter().collect())),
            }
        }
        for (toks, cases) in groups {
            jobs.push(Job {
                toks,
                cases,
                cfg: cfg.clone(),
            });
        }
    } else {
        let (all, n_base) = cases_for_all(&mut rng, opts.thorough());
        let core = core_cases(&all[..n_base]);
        let unpermuted: Vec<Case> = all[..n_base].to_vec();
        for (k, cs) in gen_capsets(opts, &mut rng).into_iter().enumerate() {
            jobs.push(Job {
                toks: cs.toks,
                cases: if cs.core_only {
                    core.clone()
                } else if opts.thorough() && k % 3 != 0 {
                    // thorough tier: the call-order permutations on every third capability set (volume)
                    unpermuted.clone()
                } else {
                    all.clone()
                },
                cfg: cfg.clone(),
            });
        }
        sink.add("cases_per_set.full", all.len() as u64 + 1);
        sink.add("cases_per_set.core", core.len() as u64 + 1);
    }
    // panics inside the code under test are caught per case; keep their default report quiet
    std::panic::set_hook(Box::new(|_| {}));
    let n_jobs = jobs.len();
    let sinks = run_pool(jobs, 16, run_job);
    let _ = std::panic::take_hook();
    for s in sinks {
        sink.merge(s);
    }
    sink.add("capability_sets", n_jobs as u64);
    sink.add("wall_ms", t0.elapsed().as_millis() as u64);
    sink.write(opts, "build");
}
