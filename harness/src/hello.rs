//! C12 (and the hello part of C13/C14): server hellos through the real `Session::new` (hook H1).
use std::time::Duration;

use crate::{memtransport as mt, util::*, xmltok};

pub fn show_session(r: &Result<netconf::Session<mt::MemTransport>, netconf::Error>) -> String {
    match r {
        Err(_) => "err".into(),
        Ok(s) => {
            let ctx = s.context();
            let ver = match format!("{:?}", ctx.protocol_version()).as_str() {
                "V1_0" => "1.0",
                "V1_1" => "1.1",
                _ => "?",
            };
            let mut caps: Vec<String> = ctx
                .server_capabilities()
                .iter()
                .map(|c| c.uri().to_string())
                .collect();
            caps.sort();
            caps.dedup();
            format!(
                "ok sid={} ver={} caps={}",
                ctx.session_id(),
                ver,
                list(&caps.iter().map(|c| hexs(c)).collect::<Vec<_>>())
            )
        }
    }
}

/// establish over a fresh in-memory transport; returns (outcome, does the client's hello advertise base:1.1)
pub async fn establish(hello: &str) -> (String, bool) {
    establish_bytes(hello.as_bytes()).await
}

pub async fn establish_bytes(hello: &[u8]) -> (String, bool) {
    let (t, peer) = mt::new();
    peer.deliver(hello.to_vec());
    let r = tokio::time::timeout(Duration::from_secs(5), netconf::Session::verif_new(t)).await;
    let adv11 = peer
        .sent()
        .first()
        .map(|b| String::from_utf8_lossy(b).contains(mt::CAP_BASE11))
        .unwrap_or(false);
    match r {
        Err(_) => ("timeout".into(), adv11),
        Ok(r) => (show_session(&r), adv11),
    }
}

#[derive(Clone, Debug)]
pub struct HelloCase {
    pub bases: Vec<&'static str>,
    pub extra: Vec<String>,
    pub sid: Option<String>,
    pub sid_dup: bool,
    /// a second `<session-id>` element with its own text, after the first
    pub sid2: Option<String>,
    /// one element is in a foreign namespace (same local name): 1 the `capabilities` wrapper,
    /// 2 `session-id`, 3 every `capability`; 0 = none
    pub foreign: u8,
    pub prefix: bool,
    pub sid_first: bool,
    pub comments: u8, // bit0: before capabilities, bit1: between, bit2: after
    pub decl: bool,
    pub junk: bool,
    pub no_caps: bool,
    pub trailer: bool,
    /// content between the end of the root element and the end of the message: 0 none, 1 an empty
    /// element, 2 text, 3 a stray end tag, 4 a second complete `<hello>`, 5 an `<rpc-reply>`,
    /// 6 a comment (the only one that leaves the message a well-formed document)
    pub after: u8,
    /// a second `<capabilities>` element (with only base:1.0) after the first
    pub caps2: bool,
}

impl HelloCase {
    pub fn xml(&self) -> String {
        let (p, ns) = if self.prefix {
            ("nc:", format!(" xmlns:nc=\"{}\"", mt::BASE_NS))
        } else {
            ("", format!(" xmlns=\"{}\"", mt::BASE_NS))
        };
        let mut s = String::new();
        if self.decl {
            s.push_str("<?xml version=\"1.0\" encoding=\"UTF-8\"?>");
        }
        s.push_str(&format!("<{p}hello{ns}>"));
        const EXT: &str = " xmlns:ext=\"urn:example:vendor\"";
        let caps = {
            let (wp, wns) = if self.foreign == 1 { ("ext:", EXT) } else { (p, "") };
            let (cp, cns) = if self.foreign == 3 { ("ext:", EXT) } else { (p, "") };
            let mut c = format!("<{wp}capabilities{wns}>");
            for b in &self.bases {
                c.push_str(&format!("<{cp}capability{cns}>{b}</{cp}capability>"));
            }
            for e in &self.extra {
                // `RAW:` = written as it is (ill-formed references inside a capability text)
                let text = match e.strip_prefix("RAW:") {
                    Some(r) => r.to_string(),
                    None => e.replace('&', "&amp;").replace('<', "&lt;"),
                };
                c.push_str(&format!("<{cp}capability{cns}>{text}</{cp}capability>"));
            }
            c.push_str(&format!("</{wp}capabilities>"));
            c
        };
        let sid = match &self.sid {
            None => String::new(),
            Some(v) => {
                let one = if self.foreign == 2 {
                    format!("<ext:session-id{EXT}>{v}</ext:session-id>")
                } else {
                    format!("<{p}session-id>{v}</{p}session-id>")
                };
                let two = self
                    .sid2
                    .as_ref()
                    .map(|v| format!("<{p}session-id>{v}</{p}session-id>"))
                    .unwrap_or_default();
                if self.sid_dup {
                    format!("{one}{one}{two}")
                } else {
                    format!("{one}{two}")
                }
            }
        };
        if self.comments & 1 != 0 {
            s.push_str("<!-- a -->");
        }
        let caps = if self.no_caps { String::new() } else { caps };
        let caps = if self.caps2 && !self.no_caps {
            format!("{caps}<{p}capabilities><{p}capability>{}</{p}capability></{p}capabilities>", mt::CAP_BASE10)
        } else {
            caps
        };
        if self.sid_first {
            s.push_str(&sid);
            if self.comments & 2 != 0 {
                s.push_str("<!-- b -->");
            }
            s.push_str(&caps);
        } else {
            s.push_str(&caps);
            if self.comments & 2 != 0 {
                s.push_str("<!-- b -->");
            }
            s.push_str(&sid);
        }
        if self.junk {
            s.push_str(&format!("<{p}unexpected/>"));
        }
        if self.comments & 4 != 0 {
            s.push_str("<!-- c -->");
        }
        s.push_str(&format!("</{p}hello>"));
        match self.after {
            1 => s.push_str("<junk/>"),
            2 => s.push_str("garbage"),
            3 => s.push_str(&format!("</{p}hello>")),
            4 => {
                let again = HelloCase { after: 0, trailer: false, decl: false, ..self.clone() }.xml();
                s.push_str(&again);
            }
            5 => s.push_str(&format!(
                "<rpc-reply xmlns=\"{}\" message-id=\"1\"><ok/></rpc-reply>",
                mt::BASE_NS
            )),
            6 => s.push_str("<!-- after -->"),
            _ => {}
        }
        if self.trailer {
            s.push_str("]]>]]>");
        }
        s
    }
    /// descriptor for the spec op: shape, sid text, server bases, whether all capability URIs are valid
    pub fn descr(&self) -> String {
        let shape_ok = !self.no_caps
            && self.sid.is_some()
            && !self.sid_dup
            && self.sid2.is_none()
            && !self.junk
            // an element of a foreign namespace is not the NETCONF element of that name
            && self.foreign == 0
            // anything but a comment after the root element: not a well-formed document
            && matches!(self.after, 0 | 6)
            && !(self.caps2 && !self.no_caps);
        // a capability text with a reference that cannot be resolved is not a well-formed hello
        let uris_ok = self
            .extra
            .iter()
            .all(|e| !e.starts_with("RAW:") && iri_string::types::UriStr::new(e).is_ok());
        format!(
            "shape={} uris={} sid={} bases={}",
            if shape_ok { 1 } else { 0 },
            if uris_ok { 1 } else { 0 },
            self.sid
                .as_ref()
                .map(|s| format!("s{}", hexs(s)))
                .unwrap_or("n".into()),
            list(
                &self
                    .bases
                    .iter()
                    .map(|b| if b.ends_with("1.0") { "10" } else { "11" })
                    .collect::<Vec<_>>()
            )
        )
    }
}

pub fn gen(opts: &Opts, rng: &mut Rng) -> Vec<HelloCase> {
    let base_sets: Vec<Vec<&'static str>> = vec![
        vec![],
        vec![mt::CAP_BASE10],
        vec![mt::CAP_BASE11],
        vec![mt::CAP_BASE10, mt::CAP_BASE11],
        vec![mt::CAP_BASE11, mt::CAP_BASE10],
    ];
    let sids: Vec<Option<&str>> = vec![
        Some("4"),
        Some("1"),
        Some("4294967295"),
        Some("0"),
        Some("4294967296"),
        Some("-1"),
        Some("+5"),
        Some(" 7 "),
        Some("7\n"),
        Some("abc"),
        Some(""),
        Some("00012"),
        Some("99999999999999999999999"),
        None,
    ];
    let extras: Vec<Vec<String>> = vec![
        vec![],
        vec!["urn:ietf:params:netconf:capability:candidate:1.0".into(), mt::CAP_JUNOS.into()],
        vec!["urn:ietf:params:netconf:capability:url:1.0?scheme=http,ftp&x=1&scheme=file".into(), "urn:ietf:params:netconf:capability:xpath:1.0".into()],
        vec!["urn:ietf:params:xml:ns:yang:ietf-inet-types?module=ietf-inet-types&revision=2013-07-15".into()],
        vec!["not a uri".into()],
        vec!["urn:ietf:params:netconf:capability:url:1.0".into(), "urn:ietf:params:netconf:base:1.0#frag".into(), "http://xml.juniper.net/netconf/junos/1.0?x".into()],
        vec!["urn:ietf:params:netconf:capability:candidate:1.0".into(), "urn:ietf:params:netconf:capability:candidate:1.0".into()],
        // references that cannot be resolved inside the query of the :url capability
        vec!["RAW:urn:ietf:params:netconf:capability:url:1.0?scheme=http,ftp&scheme=file".into()],
        vec!["RAW:urn:ietf:params:netconf:capability:url:1.0?scheme=http&bogus;ftp".into()],
        vec!["RAW:urn:ietf:params:netconf:capability:url:1.0?scheme=http&amp".into()],
        // a known URI followed by an empty fragment / an empty query is not that URI
        vec![
            "urn:ietf:params:netconf:base:1.0#".into(),
            "urn:ietf:params:netconf:base:1.1#".into(),
        ],
        vec![
            "urn:ietf:params:netconf:base:1.0?".into(),
            "urn:ietf:params:netconf:base:1.0?#".into(),
            "urn:ietf:params:netconf:base:1.1?x".into(),
        ],
        // near misses of the base capabilities: none of them is :base:1.0 / :base:1.1
        vec!["urn:ietf:params:netconf:base:1.00".into(), "urn:ietf:params:netconf:base:1.10".into(), "urn:ietf:params:netconf:base:1".into()],
        vec!["urn:ietf:params:netconf:base:1.0x".into(), "urn:ietf:params:netconf:base:1.1.0".into(), "urn:ietf:params:netconf:base:2.0".into()],
        vec!["urn:ietf:params:netconf:capability:base:1.0".into(), "urn:ietf:params:netconf:base:1.0:1.1".into(), "xurn:ietf:params:netconf:base:1.1".into()],
        vec!["urn:ietf:params:netconf:base".into(), "urn:ietf:params:netconf:base:".into(), "urn:ietf:params:xml:ns:netconf:base:1.0".into()],
    ];
    let mut out = vec![];
    // exhaustive: bases × sids (plain shape)
    for b in &base_sets {
        for s in &sids {
            for prefix in [false, true] {
                out.push(HelloCase {
                    bases: b.clone(),
                    extra: vec![],
                    sid: s.map(|x| x.to_string()),
                    sid_dup: false,
                    sid2: None,
                    foreign: 0,
                    prefix,
                    sid_first: false,
                    comments: 0,
                    decl: false,
                    junk: false,
                    no_caps: false,
                    trailer: true,
                    after: 0,
                    caps2: false,
                });
            }
        }
    }
    // bases × extras × structural variants
    for b in &base_sets {
        for e in &extras {
            for v in 0..8u8 {
                out.push(HelloCase {
                    bases: b.clone(),
                    extra: e.clone(),
                    sid: Some("77".into()),
                    sid_dup: v == 5,
                    sid2: None,
                    foreign: 0,
                    prefix: v & 1 != 0,
                    sid_first: v & 2 != 0,
                    comments: if v == 3 {
                        7
                    } else if v == 4 {
                        2
                    } else {
                        0
                    },
                    decl: v == 6,
                    junk: v == 7,
                    no_caps: false,
                    trailer: v != 2,
                    after: 0,
                    caps2: false,
                });
            }
        }
    }
    // two session-id elements with different texts, every (first, second) pair: never a valid hello
    for a in sids.iter().flatten() {
        for b in sids.iter().flatten() {
            for sid_first in [false, true] {
                out.push(HelloCase {
                    bases: vec![mt::CAP_BASE10],
                    extra: vec![],
                    sid: Some(a.to_string()),
                    sid_dup: false,
                    sid2: Some(b.to_string()),
                    foreign: 0,
                    prefix: false,
                    sid_first,
                    comments: 0,
                    decl: false,
                    junk: false,
                    no_caps: false,
                    trailer: true,
                    after: 0,
                    caps2: false,
                });
            }
        }
    }
    // one element in a foreign namespace, every base set, both spellings of the base namespace
    for b in &base_sets {
        for foreign in 1..=3u8 {
            for prefix in [false, true] {
                for sid_first in [false, true] {
                    out.push(HelloCase {
                        bases: b.clone(),
                        extra: vec![],
                        sid: Some("4".into()),
                        sid_dup: false,
                        sid2: None,
                        foreign,
                        prefix,
                        sid_first,
                        comments: 0,
                        decl: false,
                        junk: false,
                        no_caps: false,
                        trailer: true,
                        after: 0,
                        caps2: false,
                    });
                }
            }
        }
    }
    // two <capabilities> elements: whichever the reader would keep, the hello is not of the grammar
    for b in &base_sets {
        for prefix in [false, true] {
            for sid_first in [false, true] {
                out.push(HelloCase {
                    bases: b.clone(),
                    extra: vec!["urn:ietf:params:netconf:capability:candidate:1.0".into()],
                    sid: Some("7".into()),
                    sid_dup: false,
                    sid2: None,
                    foreign: 0,
                    prefix,
                    sid_first,
                    comments: 0,
                    decl: false,
                    junk: false,
                    no_caps: false,
                    trailer: true,
                    after: 0,
                    caps2: true,
                });
            }
        }
    }
    // content after the root element, every kind, on an otherwise valid hello
    for b in &base_sets {
        for after in 1..=6u8 {
            for prefix in [false, true] {
                for trailer in [true, false] {
                    out.push(HelloCase {
                        bases: b.clone(),
                        extra: vec![],
                        sid: Some("4".into()),
                        sid_dup: false,
                        sid2: None,
                        foreign: 0,
                        prefix,
                        sid_first: false,
                        comments: 0,
                        decl: false,
                        junk: false,
                        no_caps: false,
                        trailer,
                        after,
                        caps2: false,
                    });
                }
            }
        }
    }
    let n = if opts.thorough() { 5000 } else { 400 };
    for _ in 0..n {
        out.push(HelloCase {
            bases: rng.pick(&base_sets).clone(),
            extra: rng.pick(&extras).clone(),
            sid: rng.pick(&sids).map(|x| x.to_string()),
            sid_dup: rng.chance(1, 12),
            foreign: if rng.chance(1, 8) { 1 + rng.below(3) as u8 } else { 0 },
            sid2: if rng.chance(1, 10) {
                rng.pick(&sids).map(|x| x.to_string())
            } else {
                None
            },
            prefix: rng.chance(1, 2),
            sid_first: rng.chance(1, 3),
            comments: if rng.chance(1, 3) {
                rng.below(8) as u8
            } else {
                0
            },
            decl: rng.chance(1, 8),
            junk: rng.chance(1, 15),
            no_caps: rng.chance(1, 15),
            trailer: rng.chance(4, 5),
            after: if rng.chance(1, 10) { 1 + rng.below(6) as u8 } else { 0 },
            caps2: rng.chance(1, 12),
        });
    }
    out
}

pub fn main(opts: &Opts) {
    let mut rng = Rng::new(opts.seed);
    let mut sink = Sink::new();
    let cfg = if opts.extra.iter().any(|e| e == "pinned") {
        "pinned"
    } else {
        "fixed"
    };
    if let Some(p) = &opts.replay {
        // a replayed case is the hex of the hello text; only the correspondence row can be re-derived
        for l in std::fs::read_to_string(p).unwrap().lines() {
            if let Some(d) = l.strip_prefix("case\t") {
                if let Some(Ok(text)) = unhex(d.split('\t').next().unwrap()).map(String::from_utf8)
                {
                    let rt = tokio::runtime::Builder::new_current_thread()
                        .enable_all()
                        .build()
                        .unwrap();
                    let (out, adv11) = rt.block_on(establish(&text));
                    let spans = xmltok::spans(&text);
                    sink.corr(
                        &hexs(&text),
                        format!(
                            "xml hello {cfg} {} {} {}",
                            if adv11 { 1 } else { 0 },
                            xmltok::uri_oracle(&spans),
                            xmltok::tokenize(&text)
                        ),
                        out.clone(),
                    );
                    sink.sample(format!("{text} -> {out}"));
                }
            }
        }
        sink.write(opts, "hello");
        return;
    }
    let cases = gen(opts, &mut rng);
    let texts: Vec<String> = cases.iter().map(|c| c.xml()).collect();
    // thread-level watchdog: a reader loop that never returns cannot be interrupted from inside
    let results = run_pool_watchdog_opt(
        texts.clone(),
        16,
        std::time::Duration::from_secs(20),
        8,
        |text| {
            let rt = tokio::runtime::Builder::new_current_thread()
                .enable_all()
                .build()
                .unwrap();
            rt.block_on(establish(&text))
        },
    );
    for ((c, text), res) in cases.iter().zip(texts.iter()).zip(results) {
        let case = hexs(text);
        let (out, adv11) = match res {
            Ok(x) => x,
            Err(Stuck::Timeout) => {
                sink.direct(
                    &case,
                    "violation session-establishment-does-not-return".into(),
                );
                continue;
            }
            Err(Stuck::Skipped) => {
                sink.count("skipped_after_8_stuck_threads");
                continue;
            }
        };
        let spans = xmltok::spans(text);
        sink.corr(
            &case,
            format!(
                "xml hello {cfg} {} {} {}",
                if adv11 { 1 } else { 0 },
                xmltok::uri_oracle(&spans),
                xmltok::tokenize(text)
            ),
            out.clone(),
        );
        sink.spec(
            &case,
            format!(
                "xml spec-hello {} adv11={} {}",
                c.descr().replace(' ', "|"),
                if adv11 { 1 } else { 0 },
                out.replace(' ', "|")
            ),
        );
        sink.count(&format!("outcome.{}", out.split(' ').next().unwrap()));
        sink.count(&format!("bases.{}", c.bases.len()));
        sink.count(if adv11 {
            "client.advertises-1.1"
        } else {
            "client.advertises-1.0-only"
        });
        if sink.samples.len() < 5 {
            sink.sample(format!("{text} -> {out}"));
        }
    }
    // a hello that is not valid UTF-8 is not a well-formed document, wherever the offending bytes are
    // (a comment, a capability text, between elements, the session-id): no session
    if opts.replay.is_none() {
        let good = mt::hello(&[mt::CAP_BASE10, mt::CAP_BASE11], 4);
        let bads: [&[u8]; 5] = [b"\xe9", b"\xff\xfe", b"\xc3", b"\xed\xa0\x80", b"\xf8\x88\x80\x80\x80"];
        let spots: Vec<(&str, usize)> = vec![
            ("before-root", 0),
            ("in-capability", good.find("urn:").unwrap_or(0) + 4),
            ("between-elements", good.find("<session-id>").unwrap_or(0)),
            ("in-session-id", good.find("</session-id>").unwrap_or(0)),
            ("after-root", good.find("]]>]]>").unwrap_or(good.len())),
        ];
        for (tag, at) in &spots {
            for (bi, bad) in bads.iter().enumerate() {
                for comment in [false, true] {
                    let mut v = good.as_bytes()[..*at].to_vec();
                    if comment && *tag != "in-capability" && *tag != "in-session-id" {
                        v.extend_from_slice(b"<!-- r");
                        v.extend_from_slice(bad);
                        v.extend_from_slice(b"seau -->");
                    } else {
                        v.extend_from_slice(bad);
                    }
                    v.extend_from_slice(&good.as_bytes()[*at..]);
                    let rt = tokio::runtime::Builder::new_current_thread().enable_all().build().unwrap();
                    let (out, _) = rt.block_on(establish_bytes(&v));
                    let case = format!("notutf8;{tag};{bi};{}", comment as u8);
                    sink.direct(
                        &case,
                        if out.starts_with("ok") {
                            "violation session-established-from-a-hello-that-is-not-utf8".into()
                        } else if out == "timeout" {
                            "violation establishment-does-not-return".into()
                        } else {
                            "ok".into()
                        },
                    );
                    sink.count("notutf8.cases");
                }
            }
        }
    }
    sink.write(opts, "hello");
}
