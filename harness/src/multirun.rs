//! C01 over several runs of ONE daemon: the real `Loop::start` (which reuses one `Updater` for all
//! its runs) against a STATEFUL in-memory fake Junos. The ephemeral configuration of that router is the
//! reference model's: after every committed run modeld applies the loads the fake server received
//! (`plan apply`), and the next session is served the result. Between runs things happen that the
//! agent does not see — the router reboots (the ephemeral instance is gone), an operator deletes an
//! installed policy or one of its terms or adds a policy of their own, an annotation changes, a run
//! fails — and after every committed run the C01 predicate (`plan spec1`: the installed state of
//! every managed policy is exactly its evaluated set, nothing unmanaged is left, the read-back is
//! faithful) must hold again. Whatever a run carries over from earlier runs of the same process is
//! exercised here and nowhere else: every other op builds a fresh `Updater` per run.
//!
//! Runs are triggered with SIGHUP (period 1 h), strictly one case after the other (signals are
//! process-global; see daemon.rs). Expressions are literal prefix sets, so the fake IRRd only has to
//! accept the connection.
use std::{
    num::NonZeroU64,
    sync::{Arc, Mutex},
    time::{Duration, Instant},
};

use crate::{
    fakeirrd::FakeIrrd,
    fakejunos::{self, Fault, Log, Script},
    memtransport::{self as mt, MemTransport},
    plan::{
        agent_policy, ask_model, dec_cfg, enc_cfg, enc_payloads, enc_running, parses,
        real_read_installed, render_get_config, render_running, Ann, JCfg, RStmt, Range,
    },
    util::*,
};

#[derive(Default)]
struct World {
    cfg: JCfg,
    running: Vec<RStmt>,
    /// fail the next run (an rpc-error in reply to its first request)
    fail_next: bool,
    /// one log per session, in the order the sessions were opened
    logs: Vec<Arc<Mutex<Log>>>,
}

fn config_part(reply: &str) -> String {
    let a = reply.find("<configuration").unwrap_or(0);
    let b = reply
        .rfind("</configuration>")
        .map(|i| i + "</configuration>".len())
        .unwrap_or(reply.len());
    reply[a..b].to_string()
}

fn r4(i: usize, alt: bool) -> Range {
    Range {
        v6: false,
        addr: u32::from_be_bytes([10, (if alt { 100 } else { 0 }) + i as u8, 0, 0]) as u128,
        len: 16,
        lo: 16,
        hi: 24,
    }
}

fn r6(i: usize, alt: bool) -> Range {
    Range {
        v6: true,
        addr: (0x2001_0db8u128 << 96) | (((if alt { 0x100 } else { 0 }) + i as u128) << 80),
        len: 48,
        lo: 48,
        hi: 64,
    }
}

fn stmt(i: usize, alt: bool) -> RStmt {
    let (a, b) = (r4(i, alt), r6(i, alt));
    let text = format!(
        "{{{}^{}-{}, {}^{}-{}}}",
        crate::plan::addr_text(&a),
        a.lo,
        a.hi,
        crate::plan::addr_text(&b),
        b.lo,
        b.hi
    );
    let display = parses(&text).expect("literal prefix set parses");
    RStmt {
        name: format!("p{i}"),
        ann: Ann::Parsed(display),
        active: true,
        reject: true,
        eval: Some((vec![a], vec![b])),
    }
}

/// what an event does to the world before the next run; `j` picks the policy
fn apply_event(w: &mut World, ev: char, j: usize) {
    let k = w.running.len().max(1);
    let name = format!("p{}", j % k);
    match ev {
        'N' => {}
        // reboot: Junos does not keep an ephemeral instance across a restart
        'B' => w.cfg.clear(),
        'D' => w.cfg.retain(|p| p.name != name),
        'T' => {
            for p in w.cfg.iter_mut().filter(|p| p.name == name) {
                p.terms.retain(|t| t.name != "inet");
            }
        }
        'S' => {
            if !w.cfg.iter().any(|p| p.name == "stale") {
                w.cfg.push(agent_policy("stale", &[r4(200, false)], &[r6(200, false)], false));
            }
        }
        'X' => {
            let i = j % k;
            let alt = w.running[i].eval.as_ref().map(|e| e.0[0] == r4(i, false)).unwrap_or(false);
            w.running[i] = stmt(i, alt);
        }
        'F' => w.fail_next = true,
        _ => {}
    }
}

struct RunObs {
    names: Vec<String>,
    loads: Vec<String>,
}

/// the n-th session, once it is over: `close-session` was answered, or — for a run that was made to
/// fail, which just drops its session — its first request was answered and nothing followed
fn wait_session(world: &Arc<Mutex<World>>, n: usize, failing: bool, limit: Duration) -> Option<RunObs> {
    let t0 = Instant::now();
    while t0.elapsed() < limit {
        let log = world.lock().unwrap().logs.get(n).cloned();
        if let Some(log) = log {
            let done = {
                let g = log.lock().unwrap();
                g.names.last().map(|s| s == "close-session").unwrap_or(false) || (failing && !g.names.is_empty())
            };
            if done {
                // let the client take the last reply (and, for a failing run, give up)
                std::thread::sleep(Duration::from_millis(if failing { 300 } else { 30 }));
                let g = log.lock().unwrap();
                return Some(RunObs { names: g.names.clone(), loads: g.loads.clone() });
            }
        }
        std::thread::sleep(Duration::from_millis(2));
    }
    None
}

fn payload_of(request: &str) -> String {
    config_part(request)
}

pub fn run_case(k: usize, events: &str, sink: &mut Sink, case: &str) {
    let rt = tokio::runtime::Builder::new_multi_thread()
        .worker_threads(4)
        .enable_all()
        .build()
        .unwrap();
    let irrd = FakeIrrd::start(std::collections::HashMap::new());
    let irrd_port = irrd.port;
    let world: Arc<Mutex<World>> = Arc::new(Mutex::new(World {
        running: (0..k).map(|i| stmt(i, false)).collect(),
        ..Default::default()
    }));
    let w2 = world.clone();
    let conn = agent::verif::connector::<MemTransport, _>(move || {
        let world = w2.clone();
        Box::pin(async move {
            let (t, peer) = mt::new();
            let script = {
                let mut g = world.lock().unwrap();
                let fault = if g.fail_next {
                    g.fail_next = false;
                    Some((1, Fault::RpcError))
                } else {
                    None
                };
                Script {
                    // plus statements that are not managed (hand-written with the annotation, deactivated,
                    // plain); the fake router applies the request's subtree filter
                    running: fakejunos::with_unmanaged(&config_part(&render_running(&g.running))),
                    ephemeral: config_part(&render_get_config(&g.cfg)),
                    fault,
                }
            };
            let log: Arc<Mutex<Log>> = Default::default();
            world.lock().unwrap().logs.push(log.clone());
            tokio::spawn(fakejunos::serve(peer, script, log));
            Ok(t)
        })
    });
    let period = NonZeroU64::new(3600).unwrap();
    let h = rt.spawn(async move {
        agent::verif::run_loop(conn, "127.0.0.1", irrd_port, "verif", period)
            .await
            .is_ok()
    });
    let evs: Vec<char> = events.chars().collect();
    let mut ok_runs = 0;
    for (n, ev) in std::iter::once('N').chain(evs.iter().copied()).enumerate() {
        let step = format!("{case}#{n}");
        progress(&step);
        if n > 0 {
            apply_event(&mut world.lock().unwrap(), ev, n);
            // the loop is waiting for its next tick or for a signal
            std::thread::sleep(Duration::from_millis(30));
            unsafe { libc::raise(libc::SIGHUP) };
        }
        let Some(obs) = wait_session(&world, n, ev == 'F', Duration::from_secs(15)) else {
            sink.direct(&step, "violation no-run-after-sighup".into());
            break;
        };
        let (cfg, running) = {
            let g = world.lock().unwrap();
            (g.cfg.clone(), g.running.clone())
        };
        let committed = obs.names.iter().any(|x| x == "commit-configuration");
        if ev == 'F' {
            // the scripted failure: nothing may have been committed
            sink.direct(
                &step,
                if committed {
                    "violation commit-in-failed-run".into()
                } else {
                    "ok".into()
                },
            );
            continue;
        }
        if !committed || obs.names.last().map(|s| s.as_str()) != Some("close-session") {
            sink.direct(&step, format!("violation run-not-completed-{}", obs.names.join(",")));
            break;
        }
        let payloads: Result<Vec<String>, String> = Ok(obs.loads.iter().map(|l| payload_of(l)).collect());
        let enc_pl = enc_payloads(&payloads);
        let a = ask_model(&[format!("plan apply {} {enc_pl}", enc_cfg(&cfg))]);
        let after = a
            .first()
            .and_then(|l| l.strip_prefix("ok:"))
            .and_then(|c| dec_cfg(c));
        let Some(after) = after else {
            sink.direct(
                &step,
                format!("violation reference-junos-rejects-the-loads-{}", a.first().cloned().unwrap_or_default().replace(' ', "_")),
            );
            break;
        };
        let readback = real_read_installed(&after);
        sink.spec(
            &step,
            format!(
                "plan spec1 {} {} {enc_pl} {readback} .",
                enc_cfg(&cfg),
                enc_running(&running)
            ),
        );
        sink.count(&format!("event.{ev}"));
        sink.count(&format!("loads.{}", obs.loads.len().min(4)));
        world.lock().unwrap().cfg = after;
        ok_runs += 1;
    }
    progress_idle();
    unsafe { libc::raise(libc::SIGTERM) };
    let t0 = Instant::now();
    while !h.is_finished() && t0.elapsed() < Duration::from_secs(5) {
        std::thread::sleep(Duration::from_millis(5));
    }
    if !h.is_finished() {
        sink.direct(&format!("{case}#exit"), "violation loop-ignores-sigterm".into());
        h.abort();
    }
    sink.add("runs.committed", ok_runs);
    drop(irrd);
    rt.shutdown_timeout(Duration::from_millis(200));
}

pub fn main(opts: &Opts) {
    let mut sink = Sink::new();
    crate::daemon::warm_up();
    let mut cases: Vec<(usize, String)> = vec![];
    if let Some(p) = &opts.replay {
        for l in std::fs::read_to_string(p).unwrap_or_default().lines() {
            if let Some(d) = l.strip_prefix("case\t") {
                let d = d.split('\t').next().unwrap_or("");
                let d = d.split('#').next().unwrap_or("");
                let mut k = None;
                let mut ev = None;
                for f in d.split(';') {
                    match f.split_once('=') {
                        Some(("k", v)) => k = v.parse().ok(),
                        Some(("ev", v)) => ev = Some(v.to_string()),
                        _ => {}
                    }
                }
                if let (Some(k), Some(ev)) = (k, ev) {
                    if !cases.contains(&(k, ev.clone())) {
                        cases.push((k, ev));
                    }
                }
            }
        }
    } else {
        // every single event after a first run, then after two runs; pairs; a few long histories
        for ev in ["N", "B", "D", "T", "S", "X", "F"] {
            cases.push((2, ev.to_string()));
            cases.push((1, format!("N{ev}")));
        }
        for a in ["B", "D", "T", "X", "F"] {
            for b in ["N", "B", "X"] {
                cases.push((2, format!("{a}{b}")));
            }
        }
        cases.push((3, "NBNDTSXFNB".to_string()));
        if opts.thorough() {
            let mut rng = Rng::new(opts.seed);
            for _ in 0..40 {
                let n = 3 + rng.below(8);
                let ev: String = (0..n).map(|_| *rng.pick(&['N', 'B', 'D', 'T', 'S', 'X', 'F', 'B'])).collect();
                cases.push((1 + rng.below(3), ev));
            }
        }
    }
    for (k, ev) in cases {
        let case = format!("k={k};ev={ev}");
        run_case(k, &ev, &mut sink, &case);
        sink.count("histories");
    }
    sink.write(opts, "multirun");
}
