//! `vh fakecli <tok>…` — stand-in for `/usr/sbin/cli xml-mode netconf need-trailer`.
//! Blocking std I/O. Tokens:  w:<hex> write+flush · s:<ms> sleep · r read one ]]>]]>-terminated
//! message from stdin · closeout close stdout, stay alive · eof exit(0) · abort (SIGKILL self) · hang sleep forever.
use std::io::{Read, Write};

pub fn main(args: &[String]) {
    let mut out = std::io::stdout();
    let mut inp = std::io::stdin();
    // the real hook passes extra args ("xml-mode" …) after ours only if asked; ignore unknown tokens
    let mut queued: Vec<u8> = vec![];
    for tok in args {
        if let Some(k) = tok.strip_prefix("p:") {
            // queue pattern(k); written together with the next `w:`
            queued.extend(crate::frame::pattern(k.parse().expect("count")));
        } else if let Some(ms) = tok.strip_prefix("echo:") {
            // after <ms> ms copy stdin to stdout until EOF (a slow reader that sends everything back)
            std::thread::sleep(std::time::Duration::from_millis(ms.parse().unwrap()));
            let mut buf = vec![0u8; 65536];
            loop {
                match inp.read(&mut buf) {
                    Ok(0) | Err(_) => std::process::exit(0),
                    Ok(n) => {
                        if out.write_all(&buf[..n]).is_err() || out.flush().is_err() {
                            std::process::exit(0);
                        }
                    }
                }
            }
        } else if let Some(h) = tok.strip_prefix("w:") {
            let mut bs = std::mem::take(&mut queued);
            bs.extend(if h == "-" { vec![] } else { crate::util::unhex(h).expect("hex") });
            if out.write_all(&bs).is_err() || out.flush().is_err() {
                std::process::exit(0);
            }
        } else if let Some(ms) = tok.strip_prefix("s:") {
            std::thread::sleep(std::time::Duration::from_millis(ms.parse().unwrap()));
        } else if tok == "r" {
            let mut buf: Vec<u8> = vec![];
            let mut b = [0u8; 1];
            loop {
                match inp.read(&mut b) {
                    Ok(0) | Err(_) => std::process::exit(0),
                    Ok(_) => {
                        buf.push(b[0]);
                        if buf.ends_with(b"]]>]]>") {
                            break;
                        }
                    }
                }
            }
        } else if tok == "closein" {
            // stop reading: the client's writes fail (EPIPE) while our output stays open and silent
            unsafe {
                libc::close(0);
            }
        } else if tok == "closeout" {
            let _ = out.flush();
            unsafe {
                libc::close(1);
            }
        } else if tok == "eof" {
            std::process::exit(0);
        } else if tok == "abort" {
            std::thread::sleep(std::time::Duration::from_millis(30));
            unsafe {
                libc::kill(libc::getpid(), libc::SIGKILL);
            }
        } else if tok == "hang" {
            loop {
                std::thread::sleep(std::time::Duration::from_secs(3600));
            }
        }
    }
    // default at end of script: stay alive and quiet (the peer sends no further traffic)
    loop {
        std::thread::sleep(std::time::Duration::from_secs(3600));
    }
}
