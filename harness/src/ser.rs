//! C10 correspondence: what the client really puts on the wire, for every operation and
//! adversarial parameter values, against (a) the Lean writer model (`ser wire …`, byte for byte)
//! and (b) an independent strict XML 1.0 parser (`xmlstrict`) as oracle for: one well-formed
//! document, the end-of-message marker exactly once at the end, every text-valued parameter
//! recovered unchanged.
//!
//! A case descriptor is `<pre>;<op tokens>` (the op tokens are exactly the tokens of the model
//! line: values in hex, `~` = absent), `hello`, or `agent;<name>;<expr>;<installed>;<evaluated>`.
//! `<pre>` dummy requests are issued first so that message-ids other than 1 occur.
use std::time::Duration;

use netconf::message::rpc::operation::{
    edit_config::{DefaultOperation, ErrorOption, TestOption},
    junos::{
        load_configuration::{
            Config, Json, Merge, Override, Replace, Rescue, Set, Text, Update, Xml,
        },
        CloseConfiguration, CommitConfiguration, LoadConfiguration, LockConfiguration,
        OpenConfiguration, UnlockConfiguration,
    },
    Builder, CancelCommit, Commit, CopyConfig, Datastore, DeleteConfig, DiscardChanges, EditConfig,
    Filter, Get, GetConfig, KillSession, Lock, Opaque, Token, Unlock, Validate,
};

use crate::{
    memtransport::{self, MemTransport, Peer},
    util::*,
    xmlstrict::{self, Elem, Node},
};

const MARKER: &[u8] = b"]]>]]>";

const SERVER_CAPS: &[&str] = &[
    "urn:ietf:params:netconf:base:1.0",
    "urn:ietf:params:netconf:capability:writable-running:1.0",
    "urn:ietf:params:netconf:capability:candidate:1.0",
    "urn:ietf:params:netconf:capability:confirmed-commit:1.0",
    "urn:ietf:params:netconf:capability:confirmed-commit:1.1",
    "urn:ietf:params:netconf:capability:rollback-on-error:1.0",
    "urn:ietf:params:netconf:capability:validate:1.0",
    "urn:ietf:params:netconf:capability:validate:1.1",
    "urn:ietf:params:netconf:capability:startup:1.0",
    "urn:ietf:params:netconf:capability:url:1.0?scheme=http,ftp,file",
    "urn:ietf:params:netconf:capability:xpath:1.0",
    "http://xml.juniper.net/netconf/junos/1.0",
];

type Session = netconf::Session<MemTransport>;

fn hs(h: &str) -> Result<String, String> {
    String::from_utf8(unhex(h).ok_or("bad hex")?).map_err(|e| e.to_string())
}
fn opt(h: &str) -> Result<Option<String>, String> {
    if h == "~" {
        Ok(None)
    } else {
        hs(h).map(Some)
    }
}
fn ds(s: &str) -> Result<Datastore, String> {
    match s {
        "running" => Ok(Datastore::Running),
        "candidate" => Ok(Datastore::Candidate),
        "startup" => Ok(Datastore::Startup),
        _ => Err(format!("bad datastore {s}")),
    }
}
fn filter(s: &str) -> Result<Option<Filter>, String> {
    if s == "~" {
        return Ok(None);
    }
    match s.split_once(':') {
        Some(("s", h)) => Ok(Some(Filter::Subtree(hs(h)?))),
        Some(("x", h)) => Ok(Some(Filter::XPath(hs(h)?))),
        _ => Err(format!("bad filter {s}")),
    }
}

/// Issue one request through the public builder API. `Err` = the client refused to send.
async fn run_op(s: &mut Session, t: &[&str]) -> Result<(), String> {
    macro_rules! go {
        ($op:ty, $f:expr) => {
            s.rpc::<$op, _>($f)
                .await
                .map(|_| ())
                .map_err(|e| e.to_string())
        };
    }
    macro_rules! load {
        ($src:expr) => {{
            let src = $src;
            s.rpc::<LoadConfiguration<_>, _>(|b| b.source(src).finish())
                .await
                .map(|_| ())
                .map_err(|e| e.to_string())
        }};
    }
    match t {
        ["get", f] => {
            let f = filter(f)?;
            go!(Get, |b| b.filter(f)?.finish())
        }
        ["get-config", d, f] => {
            let (d, f) = (ds(d)?, filter(f)?);
            go!(GetConfig<Opaque>, |b| b.source(d)?.filter(f)?.finish())
        }
        ["edit-config", tgt, d, e, o, src] => {
            let tgt = ds(tgt)?;
            let d = match *d {
                "merge" => DefaultOperation::Merge,
                "replace" => DefaultOperation::Replace,
                "none" => DefaultOperation::None,
                _ => return Err("bad default-operation".into()),
            };
            let e = match *e {
                "stop-on-error" => ErrorOption::StopOnError,
                "continue-on-error" => ErrorOption::ContinueOnError,
                "rollback-on-error" => ErrorOption::RollbackOnError,
                _ => return Err("bad error-option".into()),
            };
            let o = match *o {
                "test-then-set" => TestOption::TestThenSet,
                "set" => TestOption::Set,
                "test-only" => TestOption::TestOnly,
                _ => return Err("bad test-option".into()),
            };
            match src.split_once(':') {
                Some(("c", h)) => {
                    let c = Opaque::from(hs(h)?);
                    go!(EditConfig<Opaque>, |b| b
                        .target(tgt)?
                        .config(c)
                        .default_operation(d)
                        .error_option(e)?
                        .test_option(o)?
                        .finish())
                }
                Some(("u", h)) => {
                    let u = hs(h)?;
                    go!(EditConfig<Opaque>, |b| b
                        .target(tgt)?
                        .url(u)?
                        .default_operation(d)
                        .error_option(e)?
                        .test_option(o)?
                        .finish())
                }
                _ => Err("bad edit source".into()),
            }
        }
        ["copy-config", tgt, src] => {
            let tgt = ds(tgt)?;
            match src.split_once(':') {
                Some(("d", d)) => {
                    let d = ds(d)?;
                    go!(CopyConfig, |b| b.target(tgt)?.source(d)?.finish())
                }
                Some(("c", h)) => {
                    let c = hs(h)?;
                    go!(CopyConfig, |b| b.target(tgt)?.config(c).finish())
                }
                _ => Err("bad source".into()),
            }
        }
        ["delete-config", tgt] => match tgt.split_once(':') {
            Some(("d", d)) => {
                let d = ds(d)?;
                go!(DeleteConfig, |b| b.target(d)?.finish())
            }
            Some(("u", h)) => {
                let u = hs(h)?;
                go!(DeleteConfig, |b| b.url(u)?.finish())
            }
            _ => Err("bad target".into()),
        },
        ["lock", d] => {
            let d = ds(d)?;
            go!(Lock, |b| b.target(d)?.finish())
        }
        ["unlock", d] => {
            let d = ds(d)?;
            go!(Unlock, |b| b.target(d)?.finish())
        }
        ["kill-session", n] => {
            let n: u32 = n.parse().map_err(|_| "bad id")?;
            go!(KillSession, |b| b.session_id(n)?.finish())
        }
        ["commit", c, to, p, q] => {
            let c = *c == "1";
            let to: u64 = to.parse().map_err(|_| "bad timeout")?;
            let (p, q) = (opt(p)?.map(Token::new), opt(q)?.map(Token::new));
            go!(Commit, |b| {
                let mut b = b;
                if c {
                    b = b.confirmed(true)?;
                }
                if to != 600 {
                    b = b.confirm_timeout(Duration::from_secs(to))?;
                }
                if p.is_some() {
                    b = b.persist(p)?;
                }
                if q.is_some() {
                    b = b.persist_id(q)?;
                }
                b.finish()
            })
        }
        ["cancel-commit", p] => {
            let p = opt(p)?.map(Token::new);
            go!(CancelCommit, |b| b.persist_id(p)?.finish())
        }
        ["discard-changes"] => go!(DiscardChanges, |b| b.finish()),
        ["validate", src] => match src.split_once(':') {
            Some(("d", d)) => {
                let d = ds(d)?;
                go!(Validate, |b| b.source(d)?.finish())
            }
            Some(("c", h)) => {
                let c = hs(h)?;
                go!(Validate, |b| b.config(c).finish())
            }
            _ => Err("bad source".into()),
        },
        ["close-configuration"] => go!(CloseConfiguration, |b| b.finish()),
        ["lock-configuration"] => go!(LockConfiguration, |b| b.finish()),
        ["unlock-configuration"] => go!(UnlockConfiguration, |b| b.finish()),
        ["open-configuration", tgt] => {
            if *tgt == "private" {
                go!(OpenConfiguration, |b| b.private().finish())
            } else if *tgt == "ephemeral" {
                go!(OpenConfiguration, |b| b.ephemeral(None::<&str>).finish())
            } else if let Some(("n", h)) = tgt.split_once(':') {
                let n = hs(h)?;
                go!(OpenConfiguration, |b| b.ephemeral(Some(n)).finish())
            } else {
                Err("bad target".into())
            }
        }
        ["commit-configuration", c, at, cf, log, sync] => {
            let c = *c == "1";
            let at = opt(at)?;
            let cf: Option<u64> = if *cf == "~" {
                None
            } else {
                Some(cf.parse().map_err(|_| "bad confirm")?)
            };
            let log = opt(log)?;
            let sync = match *sync {
                "~" => None,
                "0" => Some(false),
                "1" => Some(true),
                _ => return Err("bad sync".into()),
            };
            enum At {
                Reboot,
                Time(chrono::NaiveTime),
                DateTime(chrono::NaiveDateTime),
            }
            let at = match at.as_deref() {
                None => None,
                Some("reboot") => Some(At::Reboot),
                Some(s) if s.len() == 8 => Some(At::Time(
                    chrono::NaiveTime::parse_from_str(s, "%H:%M:%S").map_err(|e| e.to_string())?,
                )),
                Some(s) => Some(At::DateTime(
                    chrono::NaiveDateTime::parse_from_str(s, "%Y-%m-%d %H:%M:%S")
                        .map_err(|e| e.to_string())?,
                )),
            };
            go!(CommitConfiguration, |b| {
                let mut b = b.check(c);
                b = match at {
                    None => b.now(),
                    Some(At::Reboot) => b.at_reboot(),
                    Some(At::Time(t)) => b.today_at(t),
                    Some(At::DateTime(t)) => b.at(t),
                };
                b = match cf {
                    None => b,
                    Some(600) => b.confirmed(true),
                    Some(n) => b.confirmed_with_timeout(Duration::from_secs(n)),
                };
                if let Some(l) = log {
                    b = b.with_log_message(l);
                }
                if let Some(f) = sync {
                    b = b.synchronize(f);
                }
                b.finish()
            })
        }
        ["load-configuration", src] => {
            let p: Vec<&str> = src.split(':').collect();
            match p.as_slice() {
                ["rescue"] => load!(Rescue),
                ["text", a, h] => {
                    let d = hs(h)?;
                    match *a {
                        "merge" => load!(Config::new(d, Text, Merge)),
                        "override" => load!(Config::new(d, Text, Override)),
                        "update" => load!(Config::new(d, Text, Update)),
                        "replace" => load!(Config::new(d, Text, Replace)),
                        "set" => load!(Config::new(d, Text, Set)),
                        _ => Err("bad action".into()),
                    }
                }
                ["json", a, h] => {
                    let d = hs(h)?;
                    match *a {
                        "merge" => load!(Config::new(d, Json, Merge)),
                        "override" => load!(Config::new(d, Json, Override)),
                        "update" => load!(Config::new(d, Json, Update)),
                        _ => Err("bad action".into()),
                    }
                }
                ["xmlfail", a, h] => {
                    // a caller-supplied serialiser that fails after it has written part of its output
                    let d = FailingPayload(hs(h)?);
                    match *a {
                        "merge" => load!(Config::new(d, Xml, Merge)),
                        "override" => load!(Config::new(d, Xml, Override)),
                        "update" => load!(Config::new(d, Xml, Update)),
                        "replace" => load!(Config::new(d, Xml, Replace)),
                        _ => Err("bad action".into()),
                    }
                }
                ["xmlchunks", a, h, k] => {
                    // the same fragment, streamed by a caller-supplied serialiser in blocks of k bytes
                    let d = ChunkedPayload(hs(h)?, k.parse().map_err(|_| "bad block size".to_string())?);
                    match *a {
                        "merge" => load!(Config::new(d, Xml, Merge)),
                        "override" => load!(Config::new(d, Xml, Override)),
                        "update" => load!(Config::new(d, Xml, Update)),
                        "replace" => load!(Config::new(d, Xml, Replace)),
                        _ => Err("bad action".into()),
                    }
                }
                ["xml", a, h] => {
                    let d = Opaque::from(hs(h)?);
                    match *a {
                        "merge" => load!(Config::new(d, Xml, Merge)),
                        "override" => load!(Config::new(d, Xml, Override)),
                        "update" => load!(Config::new(d, Xml, Update)),
                        "replace" => load!(Config::new(d, Xml, Replace)),
                        _ => Err("bad action".into()),
                    }
                }
                _ => Err("unreachable-source".into()),
            }
        }
        _ => Err(format!("bad op {t:?}")),
    }
}

/// writes its text verbatim, then reports an error (a streaming source that fails part-way)
#[derive(Debug, Clone)]
struct FailingPayload(String);

impl netconf::message::WriteXml for FailingPayload {
    fn write_xml<W: std::io::Write>(&self, writer: &mut quick_xml::Writer<W>) -> Result<(), netconf::message::WriteError> {
        writer.get_mut().write_all(self.0.as_bytes()).map_err(|e| netconf::message::WriteError::Other(e.into()))?;
        Err(netconf::message::WriteError::Other("payload source failed part-way".into()))
    }
}

/// writes its text verbatim in blocks of `.1` bytes, each with a `write` of its own (a streaming
/// source): what reaches the wire must not depend on where the blocks end
#[derive(Debug, Clone)]
struct ChunkedPayload(String, usize);

impl netconf::message::WriteXml for ChunkedPayload {
    fn write_xml<W: std::io::Write>(&self, writer: &mut quick_xml::Writer<W>) -> Result<(), netconf::message::WriteError> {
        for block in self.0.as_bytes().chunks(self.1.max(1)) {
            writer.get_mut().write_all(block).map_err(|e| netconf::message::WriteError::Other(e.into()))?;
        }
        Ok(())
    }
}

#[derive(Clone, Copy, Debug, PartialEq)]
enum Kind {
    Text,     // escaped character data
    Attr,     // escaped attribute value
    Payload,  // text / JSON configuration payload (text-valued, D7)
    Fragment, // caller-supplied XML fragment, embedded verbatim
}

#[derive(Clone, Debug)]
struct Expect {
    /// element path below the root element; `@name` suffix selects an attribute
    path: String,
    value: String,
    kind: Kind,
}

fn ex(path: &str, value: impl Into<String>, kind: Kind) -> Expect {
    Expect {
        path: path.into(),
        value: value.into(),
        kind,
    }
}

/// which parameter values must be recoverable from the request, and where
fn expects(t: &[&str]) -> Result<Vec<Expect>, String> {
    let mut v = vec![];
    let mut flt = |s: &str, base: &str, v: &mut Vec<Expect>| -> Result<(), String> {
        match s.split_once(':') {
            Some(("s", h)) => {
                v.push(ex(&format!("{base}/filter@type"), "subtree", Kind::Attr));
                v.push(ex(&format!("{base}/filter"), hs(h)?, Kind::Fragment));
            }
            Some(("x", h)) => {
                v.push(ex(&format!("{base}/filter@type"), "xpath", Kind::Attr));
                v.push(ex(&format!("{base}/filter@select"), hs(h)?, Kind::Attr));
            }
            _ => {}
        }
        Ok(())
    };
    match t {
        ["get", f] => flt(f, "get", &mut v)?,
        ["get-config", _, f] => flt(f, "get-config", &mut v)?,
        ["edit-config", _, d, e, o, src] => {
            if *d != "merge" {
                v.push(ex("edit-config/default-operation", *d, Kind::Text));
            }
            if *e != "stop-on-error" {
                v.push(ex("edit-config/error-option", *e, Kind::Text));
            }
            if *o != "test-then-set" {
                v.push(ex("edit-config/test-option", *o, Kind::Text));
            }
            match src.split_once(':') {
                Some(("c", h)) => v.push(ex("edit-config/config", hs(h)?, Kind::Fragment)),
                Some(("u", h)) => v.push(ex("edit-config/url", hs(h)?, Kind::Text)),
                _ => {}
            }
        }
        ["copy-config", _, src] => {
            if let Some(("c", h)) = src.split_once(':') {
                v.push(ex("copy-config/source/config", hs(h)?, Kind::Fragment));
            }
        }
        ["delete-config", tgt] => {
            if let Some(("u", h)) = tgt.split_once(':') {
                v.push(ex("delete-config/target/url", hs(h)?, Kind::Text));
            }
        }
        ["kill-session", n] => v.push(ex("kill-session/session-id", *n, Kind::Text)),
        ["commit", c, to, p, q] => {
            if *c == "1" {
                if *to != "600" {
                    v.push(ex("commit/confirm-timeout", *to, Kind::Text));
                }
                if let Some(p) = opt(p)? {
                    v.push(ex("commit/persist", p, Kind::Text));
                }
            } else if let Some(q) = opt(q)? {
                v.push(ex("commit/persist-id", q, Kind::Text));
            }
        }
        ["cancel-commit", p] => {
            if let Some(p) = opt(p)? {
                v.push(ex("cancel-commit/persist-id", p, Kind::Text));
            }
        }
        ["validate", src] => {
            if let Some(("c", h)) = src.split_once(':') {
                v.push(ex("validate/source/config", hs(h)?, Kind::Fragment));
            }
        }
        ["open-configuration", tgt] => {
            if let Some(("n", h)) = tgt.split_once(':') {
                v.push(ex(
                    "open-configuration/ephemeral-instance",
                    hs(h)?,
                    Kind::Text,
                ));
            }
        }
        ["commit-configuration", _, at, cf, log, _] => {
            if let Some(a) = opt(at)? {
                v.push(ex("commit-configuration/at-time", a, Kind::Text));
            }
            if *cf != "~" && *cf != "600" {
                let n: u64 = cf.parse().map_err(|_| "bad confirm")?;
                v.push(ex(
                    "commit-configuration/confirm-timeout",
                    n.div_ceil(60).to_string(),
                    Kind::Text,
                ));
            }
            if let Some(l) = opt(log)? {
                v.push(ex("commit-configuration/log", l, Kind::Text));
            }
        }
        ["load-configuration", src] => {
            let p: Vec<&str> = src.split(':').collect();
            match p.as_slice() {
                ["rescue"] => v.push(ex("load-configuration@rescue", "rescue", Kind::Attr)),
                [f @ ("text" | "json"), a, h] => {
                    v.push(ex("load-configuration@format", *f, Kind::Attr));
                    v.push(ex("load-configuration@action", *a, Kind::Attr));
                    let tag = if *a == "set" {
                        "configuration-set"
                    } else if *f == "text" {
                        "configuration-text"
                    } else {
                        "configuration-json"
                    };
                    v.push(ex(
                        &format!("load-configuration/{tag}"),
                        hs(h)?,
                        Kind::Payload,
                    ));
                }
                ["xmlfail", ..] => {}
                ["xml", a, h] => {
                    v.push(ex("load-configuration@format", "xml", Kind::Attr));
                    v.push(ex("load-configuration@action", *a, Kind::Attr));
                    v.push(ex("load-configuration", hs(h)?, Kind::Fragment));
                }
                _ => {}
            }
        }
        _ => {}
    }
    Ok(v)
}

fn count_marker(w: &[u8]) -> Vec<usize> {
    (0..w.len().saturating_sub(MARKER.len() - 1))
        .filter(|&i| &w[i..i + MARKER.len()] == MARKER)
        .collect()
}

fn norm_attr(v: &str) -> String {
    v.replace("\r\n", " ").replace(['\r', '\n', '\t'], " ")
}
fn norm_text(v: &str) -> String {
    v.replace("\r\n", "\n").replace('\r', "\n")
}

fn lookup<'a>(root: &'a Elem, path: &str) -> Option<(&'a Elem, Option<&'a xmlstrict::Attr>)> {
    match path.split_once('@') {
        Some((p, a)) => {
            let e = root.path(p)?;
            Some((e, Some(e.attr(a)?)))
        }
        None => Some((root.path(path)?, None)),
    }
}

/// is the case inside the property's domain, and which class does a delimiter inside the body get?
fn domain(exps: &[Expect]) -> (bool, &'static str) {
    let in_domain = exps
        .iter()
        .all(|e| e.kind != Kind::Fragment || xmlstrict::parse_content(&e.value).is_ok());
    let cls = if exps.iter().any(|e| {
        e.kind == Kind::Payload
            && (e.value.contains('<') || e.value.contains('&') || e.value.contains("]]>"))
    }) {
        "text-payload-raw"
    } else if exps
        .iter()
        .any(|e| e.kind == Kind::Fragment && e.value.contains("]]>]]>"))
    {
        "marker-inside-fragment"
    } else {
        "marker-inside"
    };
    (in_domain, cls)
}

/// The oracle. Returns the violation class (None = the property holds for this message) and
/// the rows tying the oracle's own value extraction to the Lean `parseText` / `parseAttr`.
fn judge(
    wire: &[u8],
    root_name: &str,
    exps: &[Expect],
    sink: &mut Sink,
    case: &str,
) -> Option<String> {
    // a value that XML 1.0 cannot represent at all (not even as a character reference) must not be
    // sent: whatever is on the wire is not a well-formed document
    if exps
        .iter()
        .any(|e| !e.value.chars().all(xmlstrict::is_char))
    {
        sink.count("non-xml-char-value.sent");
        return Some("non-xml-char-sent".into());
    }
    // ill-formed caller-supplied fragments are outside the property's domain
    let mut frag_trees: Vec<(usize, Vec<Node>)> = vec![];
    for (i, e) in exps.iter().enumerate() {
        if e.kind == Kind::Fragment {
            match xmlstrict::parse_content(&e.value) {
                Ok(k) => frag_trees.push((i, k)),
                Err(why) => {
                    sink.count(&format!("out-of-domain.ill-formed-fragment.{why}"));
                    return None;
                }
            }
        }
    }
    let payload = exps.iter().find(|e| e.kind == Kind::Payload);
    let payload_meta = payload.map_or(false, |p| {
        p.value.contains('<') || p.value.contains('&') || p.value.contains("]]>")
    });
    let frag_marker = exps
        .iter()
        .any(|e| e.kind == Kind::Fragment && e.value.contains("]]>]]>"));
    // 1. framing
    let occ = count_marker(wire);
    if occ.last().map(|&i| i + MARKER.len()) != Some(wire.len()) {
        return Some("no-marker-at-end".into());
    }
    if occ.len() != 1 {
        return Some(
            if payload_meta {
                "text-payload-raw"
            } else if frag_marker {
                "marker-inside-fragment"
            } else {
                "marker-inside"
            }
            .into(),
        );
    }
    // 2. one well-formed document
    let body = match std::str::from_utf8(&wire[..wire.len() - MARKER.len()]) {
        Ok(b) => b,
        Err(_) => return Some("not-utf8".into()),
    };
    let root = match xmlstrict::parse_document(body) {
        Ok(r) => r,
        Err(why) => {
            sink.count(&format!("not-well-formed.{why}"));
            return Some(if payload_meta {
                "text-payload-raw".into()
            } else {
                "not-well-formed".into()
            });
        }
    };
    if root.name != root_name {
        return Some("wrong-root".into());
    }
    for p in xmlstrict::unbound_prefixes(&root) {
        sink.count(&format!("ns.unbound-prefix.{p}"));
    }
    // 3. every value recovered
    let mut class: Option<String> = None;
    let mut set = |c: &str| {
        if class.is_none() {
            class = Some(c.to_string());
        }
    };
    for (i, e) in exps.iter().enumerate() {
        let Some((el, at)) = lookup(&root, &e.path) else {
            set(if e.kind == Kind::Payload && payload_meta {
                "text-payload-raw"
            } else {
                "value-missing"
            });
            continue;
        };
        match e.kind {
            Kind::Attr => {
                let a = at.expect("attribute expectation without @");
                sink.corr(
                    case,
                    format!("ser parse attr {}", hexs(&a.raw)),
                    hexs(&a.value),
                );
                if a.value != e.value {
                    if norm_attr(&e.value) == a.value {
                        set("attr-whitespace-normalised");
                    } else {
                        set("value-not-recovered");
                    }
                }
            }
            Kind::Text | Kind::Payload => {
                let got = el.text();
                if let Some(raw) = el.text_raw() {
                    sink.corr(case, format!("ser parse text {}", hexs(&raw)), hexs(&got));
                }
                let only_text = el.elems().next().is_none();
                if got != e.value || !only_text {
                    if e.kind == Kind::Payload && payload_meta {
                        set("text-payload-raw");
                    } else if only_text && norm_text(&e.value) == got {
                        set("text-cr-normalised");
                    } else {
                        set("value-not-recovered");
                    }
                }
            }
            Kind::Fragment => {
                let want = &frag_trees.iter().find(|(j, _)| *j == i).unwrap().1;
                if &el.kids != want {
                    set("fragment-not-verbatim");
                }
            }
        }
    }
    class
}

async fn new_session() -> Result<(Session, Peer), String> {
    let (s, peer) = memtransport::session_with_hello(&memtransport::hello(SERVER_CAPS, 4)).await;
    Ok((s.map_err(|e| format!("session: {e}"))?, peer))
}

/// run one request case: (bytes sent for it | refusal text, message-id it got)
async fn exec(pre: usize, toks: &[&str]) -> Result<(Result<Vec<u8>, String>, usize), String> {
    let (mut s, peer) = new_session().await?;
    for _ in 0..pre {
        run_op(&mut s, &["discard-changes"]).await?;
    }
    let n0 = peer.sent_count();
    if n0 != pre + 1 {
        return Err(format!(
            "expected {} messages before the case, saw {n0}",
            pre + 1
        ));
    }
    let r = if toks == ["close-session"] {
        s.close().await.map(|_| ()).map_err(|e| e.to_string())
    } else {
        run_op(&mut s, toks).await
    };
    let sent = peer.sent();
    let out = match (r, sent.len() - n0) {
        (Ok(()), 1) => Ok(sent[n0].to_vec()),
        (Err(e), 0) => Err(e),
        (r, k) => {
            return Err(format!(
                "rpc returned {r:?} and {k} message(s) were written"
            ))
        }
    };
    Ok((out, pre + 1))
}

fn block_on<F: std::future::Future>(f: F) -> F::Output {
    tokio::runtime::Builder::new_current_thread()
        .enable_all()
        .build()
        .unwrap()
        .block_on(f)
}

/// which variant of the code is this? (see `Cfg` in Model/Writers.lean)
fn probe() -> String {
    let bit = |toks: &[&str], pred: &dyn Fn(&Result<Vec<u8>, String>) -> bool| -> char {
        match block_on(exec(0, toks)) {
            Ok((r, _)) => {
                if pred(&r) {
                    '1'
                } else {
                    '0'
                }
            }
            Err(e) => panic!("probe failed: {e}"),
        }
    };
    let has = |r: &Result<Vec<u8>, String>, pat: &[u8]| {
        r.as_ref()
            .map_or(false, |w| w.windows(pat.len()).any(|x| x == pat))
    };
    let p = bit(
        &["load-configuration", &format!("text:merge:{}", hexs("<"))],
        &|r| has(r, b"&lt;"),
    );
    let w = bit(&["get", &format!("x:{}", hexs("\n"))], &|r| {
        has(r, b"&#10;")
    });
    let g = bit(
        &[
            "edit-config",
            "candidate",
            "merge",
            "stop-on-error",
            "test-then-set",
            &format!("c:{}", hexs("<a x=\"]]>]]>\"/>")),
        ],
        &|r| r.is_err(),
    );
    let x = bit(
        &["commit-configuration", "0", "~", "~", &hexs("\u{1}"), "~"],
        &|r| r.is_err(),
    );
    format!("c{p}{w}{g}{x}")
}

fn text_values(opts: &Opts, rng: &mut Rng) -> Vec<String> {
    let mut v: Vec<String> = [
        "",
        "plain",
        "a<b>&c",
        "\"dq\" 'sq'",
        "]]>]]>",
        "]]>",
        "]]",
        ">",
        "]>",
        "x]]>]]>y",
        "]]&gt;]]&gt;",
        "&amp;&lt;&#60;&bogus;&",
        "\u{e9}\u{2713}\u{1d11e} \u{f1}\u{85}\u{2028}\u{fffd}",
        "\t",
        "a\nb",
        "a\rb",
        "a\r\nb",
        " lead and trail ",
        "<![CDATA[x]]>",
        "<!-- c -->",
        "--></rpc>]]>]]><rpc message-id=\"9\">",
        "\u{1}",
        "a\u{0}b",
        "\u{b}",
        "x\u{1f}",
        "\u{fffe}",
        "ok\u{ffff}",
        "\u{7f}\u{80}\u{9f}",
    ]
    .iter()
    .map(|s| s.to_string())
    .collect();
    v.push(format!(
        "{}<&>\"']]>]]>{}",
        "ab".repeat(2048),
        "\u{e9}".repeat(512)
    ));
    let alphabet: Vec<&str> = vec![
        "<", ">", "&", "\"", "'", "]", "]]>", ";", "#", "a", "\u{e9}", " ", "\n", "&lt;", "/",
    ];
    let n = if opts.thorough() { 400 } else { 12 };
    for _ in 0..n {
        let k = 1 + rng.below(10);
        v.push((0..k).map(|_| *rng.pick(&alphabet)).collect());
    }
    v
}

fn fragment_values() -> Vec<String> {
    [
        // well-formed content
        "",
        "<a/>",
        "<top xmlns=\"urn:x\"><b k=\"v&amp;w\" j='q\"q'>t &lt; u &#233;</b><!-- c --><?pi d?><![CDATA[<raw>&]]></top>",
        "\n  <configuration>\n    <policy-options>\n      <policy-statement/>\n    </policy-options>\n  </configuration>\n",
        "text only",
        "<a>\u{e9}\u{2713}\u{1d11e}</a><b/>",
        "<a x=\"]]>\"/>",
        "<a>]]&gt;]]&gt;</a>",
        // well-formed content that contains the end-of-message marker
        "<a x=\"]]>]]>\"/>",
        "<!--]]>]]>-->",
        "<?p ]]>]]>?>",
        // … preceded by each proper prefix of the marker (a scanner that restarts wrongly after a
        // partial match misses these), followed by one, and twice
        "<!--]]]>]]>-->",
        "<!--]]]]>]]>-->",
        "<!--]]>]]>]]>-->",
        "<!--]]>]]]>]]>-->",
        "<!--]]>]]]]>]]>-->",
        "<a x=\"]]>]]]>]]>\"/>",
        "<!--]]>]]>]-->",
        "<!--]]>]]>--><!--]]>]]>-->",
        // near misses that must be sent: no marker inside
        "<!--]]>]]]-->",
        "<!--]]>]] >-->",
        "<!--]]>]>]]-->",
        // not well-formed: outside the property's domain (embedded verbatim all the same)
        "<a>",
        "</config><kill-session/><config>",
        "]]>]]>",
        "a & b",
        "<a x=\"<\"/>",
    ]
    .iter()
    .map(|s| s.to_string())
    .collect()
}

fn url_values() -> Vec<String> {
    [
        "file:///var/tmp/a.conf",
        "http://h.example/a?x=1&y='2'&z=(3)",
        "ftp://u:p@h.example/%5D%5D%3E%5D%5D%3E",
        "file:///a;b=c&amp;d",
    ]
    .iter()
    .map(|s| s.to_string())
    .collect()
}

fn gen_cases(opts: &Opts, rng: &mut Rng) -> Vec<String> {
    let mut ops: Vec<String> = vec![];
    let tv = text_values(opts, rng);
    let fv = fragment_values();
    let uv = url_values();
    let h = |s: &str| hexs(s);
    // operations without free-text parameters: every enumeration value
    for op in [
        "discard-changes",
        "close-session",
        "close-configuration",
        "lock-configuration",
        "unlock-configuration",
        "get ~",
        "cancel-commit ~",
    ] {
        ops.push(op.into());
    }
    for d in ["running", "candidate", "startup"] {
        ops.push(format!("get-config {d} ~"));
        ops.push(format!("lock {d}"));
        ops.push(format!("unlock {d}"));
        ops.push(format!("copy-config {d} d:running"));
        ops.push(format!("copy-config candidate d:{d}"));
        ops.push(format!("validate d:{d}"));
        if d == "startup" {
            // <running/> is never deletable; <candidate/> is refused by the builder (RFC 6241 8.7.5.1)
            ops.push(format!("delete-config d:{d}"));
        }
    }
    for d in ["merge", "replace", "none"] {
        for e in ["stop-on-error", "continue-on-error", "rollback-on-error"] {
            for o in ["test-then-set", "set", "test-only"] {
                ops.push(format!("edit-config candidate {d} {e} {o} c:{}", h("<a/>")));
            }
        }
    }
    for n in [1u32, 5, 10, 4294967295] {
        ops.push(format!("kill-session {n}"));
    }
    ops.push("commit 0 600 ~ ~".into());
    ops.push("commit 1 600 ~ ~".into());
    ops.push("commit 1 0 ~ ~".into());
    ops.push("commit 1 86400 ~ ~".into());
    for t in ["private", "ephemeral"] {
        ops.push(format!("open-configuration {t}"));
    }
    ops.push("load-configuration rescue".into());
    for c in ["0", "1"] {
        for at in [
            "~".to_string(),
            h("reboot"),
            h("23:59:07"),
            h("2031-12-31 00:00:00"),
        ] {
            for cf in ["~", "600", "0", "1", "60", "61", "7200"] {
                for sync in ["~", "0", "1"] {
                    if rng.chance(1, 4)
                        || opts.thorough()
                        || (c == "0" && at == "~")
                        || (cf == "~" && sync == "~")
                    {
                        ops.push(format!("commit-configuration {c} {at} {cf} ~ {sync}"));
                    }
                }
            }
        }
    }
    // every free-text slot x every adversarial value
    for v in &tv {
        let x = h(v);
        ops.push(format!("get x:{x}"));
        ops.push(format!("get-config running x:{x}"));
        ops.push(format!("commit 1 600 {x} ~"));
        ops.push(format!("commit 1 30 {x} ~"));
        ops.push(format!("commit 0 600 ~ {x}"));
        ops.push(format!("cancel-commit {x}"));
        ops.push(format!("open-configuration n:{x}"));
        ops.push(format!("commit-configuration 0 ~ ~ {x} ~"));
        ops.push(format!("commit-configuration 1 {} 120 {x} 1", h("reboot")));
        for a in ["merge", "override", "update", "replace", "set"] {
            ops.push(format!("load-configuration text:{a}:{x}"));
        }
        for a in ["merge", "override", "update"] {
            ops.push(format!("load-configuration json:{a}:{x}"));
        }
    }
    // realistic payloads
    for p in [
        "system {\n    host-name \"r1 <lab> & co\";\n}\n",
        "set system host-name r1\nset system login message \"a < b && c > d\"\n",
        "{ \"configuration\" : { \"system\" : { \"host-name\" : \"<r1>&\" } } }",
    ] {
        ops.push(format!("load-configuration text:merge:{}", h(p)));
        ops.push(format!("load-configuration text:set:{}", h(p)));
        ops.push(format!("load-configuration json:merge:{}", h(p)));
    }
    for u in &uv {
        let x = h(u);
        ops.push(format!(
            "edit-config candidate merge stop-on-error test-then-set u:{x}"
        ));
        ops.push(format!("delete-config u:{x}"));
    }
    // every raw-fragment slot x every fragment
    for f in &fv {
        let x = h(f);
        ops.push(format!("get s:{x}"));
        ops.push(format!("get-config candidate s:{x}"));
        ops.push(format!(
            "edit-config candidate merge stop-on-error test-then-set c:{x}"
        ));
        ops.push(format!("copy-config candidate c:{x}"));
        ops.push(format!("validate c:{x}"));
        for a in ["merge", "override", "update", "replace"] {
            ops.push(format!("load-configuration xml:{a}:{x}"));
        }
    }
    // streamed fragments: the delimiter (inside a comment, so the fragment is well-formed) and a
    // non-XML character, with every block size that cuts the delimiter at each of its five inner
    // positions, and some that do not; the fragment without either, for comparison
    for body in [
        "<configuration><!-- ]]>]]> --><a/></configuration>",
        "<configuration><a/><!--x]]>]]>--></configuration>",
        "<configuration><a>]]&gt;]]&gt;</a></configuration>",
        "<configuration><a/></configuration>",
    ] {
        for k in [1usize, 2, 3, 4, 5, 6, 7, 16, 19, 20, 21, 22, 23, 24, 8192] {
            ops.push(format!("load-configuration xmlchunks:merge:{}:{k}", h(body)));
        }
        let big = format!("<configuration><!--{}--><!-- ]]>]]> --></configuration>", "p".repeat(8192 - 22));
        for k in [8188usize, 8189, 8190, 8191, 8192, 8193, 8194, 4096] {
            ops.push(format!("load-configuration xmlchunks:replace:{}:{k}", h(&big)));
        }
    }
    // payload serialisers that fail part-way (with nothing written, inside a start tag, between elements)
    for part in ["", "<configuration><policy-options><policy-statement><name>", "<configuration><a/>", "<configuration", "text"] {
        for a in ["merge", "override", "update", "replace"] {
            ops.push(format!("load-configuration xmlfail:{a}:{}", h(part)));
        }
    }
    let mut cases: Vec<String> = ops
        .iter()
        .enumerate()
        .map(|(i, op)| format!("{};{op}", if i % 7 == 3 { 9 + i % 3 } else { i % 3 }))
        .collect();
    cases.push("hello".into());
    // agent payloads
    let names: Vec<String> = vec![
        "fltr-foo".into(),
        "".into(),
        "a<b>&c".into(),
        "\"q\" 'r'".into(),
        "]]>]]>".into(),
        ">]]>".into(),
        "\u{e9}\u{2713}".into(),
        "n\tm".into(),
        "x".repeat(300),
    ];
    let exprs = [
        "{ 192.0.2.0/24^+, 2001:db8::/32^48-64 }",
        "<^AS65000 .* AS65001$>",
        "AS-FOO AND NOT {10.0.0.0/8^+}",
        "AS65000 OR (RS-BAR AND <AS1 AS2+>)",
        "ANY",
    ];
    let r4 = [
        "192.0.2.0/24,24,32",
        "198.51.100.0/24,25,25",
        "10.0.0.0/8,8,8",
    ];
    let r6 = ["2001:db8::/32,48,64", "2001:db8:1::/48,48,48"];
    let sets4 = [
        ".".to_string(),
        r4[0].to_string(),
        format!("{}+{}", r4[0], r4[1]),
        format!("{}+{}+{}", r4[0], r4[1], r4[2]),
    ];
    let sets6 = [
        ".".to_string(),
        r6[0].to_string(),
        format!("{}+{}", r6[0], r6[1]),
    ];
    for (i, n) in names.iter().enumerate() {
        for (j, e) in exprs.iter().enumerate() {
            if !(i < 2 || j == (i % exprs.len()) || opts.thorough()) {
                continue;
            }
            let ev = format!("{}|{}", rng.pick(&sets4), rng.pick(&sets6));
            let inst = format!("{}|{}", rng.pick(&sets4), rng.pick(&sets6));
            cases.push(format!("agent;{};{};~;{ev}", h(n), h(e)));
            cases.push(format!("agent;{};{};{inst};{ev}", h(n), h(e)));
            cases.push(format!("agent;{};{};{inst};~", h(n), h(e)));
        }
    }
    for s4 in &sets4 {
        for t4 in &sets4 {
            cases.push(format!(
                "agent;{};{};{s4}|{};{t4}|{}",
                h("p"),
                h(exprs[0]),
                sets6[1],
                sets6[2]
            ));
        }
    }
    cases
}

type RangeT = (String, u32, u32);

fn parse_range(s: &str) -> Option<RangeT> {
    let p: Vec<&str> = s.split(',').collect();
    if p.len() != 3 {
        return None;
    }
    Some((p[0].to_string(), p[1].parse().ok()?, p[2].parse().ok()?))
}
fn parse_set(s: &str) -> Option<Vec<RangeT>> {
    if s == "." {
        Some(vec![])
    } else {
        s.split('+').map(parse_range).collect()
    }
}
fn parse_sets(s: &str) -> Option<Option<(Vec<RangeT>, Vec<RangeT>)>> {
    if s == "~" {
        return Some(None);
    }
    let (a, b) = s.split_once('|')?;
    Some(Some((parse_set(a)?, parse_set(b)?)))
}
fn range_tok(r: &RangeT) -> String {
    format!("{}_{}_{}", hexs(&r.0), r.1, r.2)
}
fn range_fromstr(r: &RangeT) -> String {
    format!("{},{},{}", r.0, r.1, r.2)
}

fn installed_reply(name_raw: &str, sets: &Option<(Vec<RangeT>, Vec<RangeT>)>) -> String {
    let mut s = String::from(
        "<rpc-reply xmlns=\"urn:ietf:params:xml:ns:netconf:base:1.0\" message-id=\"1\"><data>\
         <configuration xmlns=\"http://xml.juniper.net/xnm/1.1/xnm\"><policy-options>",
    );
    if let Some((v4, v6)) = sets {
        s.push_str(&format!("<policy-statement><name>{name_raw}</name>"));
        for (fam, rs) in [("inet", v4), ("inet6", v6)] {
            if rs.is_empty() {
                continue;
            }
            s.push_str(&format!(
                "<term><name>{fam}</name><from><family>{fam}</family>"
            ));
            for r in rs {
                s.push_str(&format!(
                    "<route-filter><address>{}</address><choice-ident>prefix-length-range</choice-ident>\
                     <choice-value>/{}-/{}</choice-value></route-filter>",
                    r.0, r.1, r.2
                ));
            }
            s.push_str("</from><then><accept/></then></term>");
        }
        s.push_str("<then><reject/></then></policy-statement>");
    }
    s.push_str("</policy-options></configuration></data></rpc-reply>");
    s
}

/// order `set` as the payload lists it: members seen in `observed` first (in that order)
fn ordered(set: &[RangeT], observed: &[RangeT], rest_first: &[RangeT]) -> Vec<RangeT> {
    let mut out: Vec<RangeT> = observed
        .iter()
        .filter(|r| set.contains(r))
        .cloned()
        .collect();
    for r in rest_first.iter().chain(set.iter()) {
        if set.contains(r) && !out.contains(r) {
            out.push(r.clone());
        }
    }
    out
}

fn observed_filters(term: Option<&Elem>) -> (Vec<RangeT>, Vec<RangeT>) {
    let (mut dels, mut adds) = (vec![], vec![]);
    if let Some(from) = term.and_then(|t| t.child("from")) {
        for rf in from.children("route-filter") {
            let addr = rf.child("address").map(|e| e.text()).unwrap_or_default();
            let plr = rf
                .child("prefix-length-range")
                .map(|e| e.text())
                .unwrap_or_default();
            let (lo, hi) = plr.split_once('-').unwrap_or(("", ""));
            let r = (
                addr,
                lo.trim_start_matches('/').parse().unwrap_or(u32::MAX),
                hi.trim_start_matches('/').parse().unwrap_or(u32::MAX),
            );
            if rf.attr("delete").is_some() {
                dels.push(r);
            } else {
                adds.push(r);
            }
        }
    }
    (dels, adds)
}

fn run_agent(case: &str, cfg: &str, sink: &mut Sink) {
    let p: Vec<&str> = case.split(';').collect();
    let bad = |sink: &mut Sink, why: String| {
        sink.direct(case, "violation harness-error".into());
        sink.notes.push(format!("{case}: {why}"));
    };
    if p.len() != 5 {
        return bad(sink, "bad descriptor".into());
    }
    let (Ok(name), Ok(expr), Some(inst), Some(ev)) =
        (hs(p[1]), hs(p[2]), parse_sets(p[3]), parse_sets(p[4]))
    else {
        return bad(sink, "bad descriptor".into());
    };
    let display = match expr.parse::<rpsl::expr::MpFilterExpr>() {
        Ok(e) => e.to_string(),
        Err(e) => return bad(sink, format!("expression does not parse: {e}")),
    };
    // the reader resolves the references in <name> (since the `fix:` commit for policy names), so
    // the installed policy is known under the same name the evaluated map uses
    let name_raw = name.replace('&', "&amp;").replace('<', "&lt;");
    let name_used = name.clone();
    if inst.is_some() && (name_used.trim() != name_used || name_used.is_empty()) {
        sink.count("agent.skipped-installed-name-with-edge-whitespace");
        return;
    }
    if name_used != name {
        sink.count("agent.installed-name-kept-unexpanded-by-reader");
    }
    let evaluated: Vec<(String, String, Option<(Vec<String>, Vec<String>)>)> = match &ev {
        None => vec![],
        Some((v4, v6)) => vec![(
            name_used.clone(),
            expr.clone(),
            Some((
                v4.iter().map(range_fromstr).collect(),
                v6.iter().map(range_fromstr).collect(),
            )),
        )],
    };
    let reply = installed_reply(&name_raw, &inst);
    let payloads = match std::panic::catch_unwind(|| agent::verif::plan(&reply, &evaluated)) {
        Ok(Ok(p)) => p,
        Ok(Err(e)) => return bad(sink, format!("plan: {e}")),
        Err(_) => return bad(sink, "plan panicked".into()),
    };
    let want_n = usize::from(inst.is_some() || ev.is_some());
    if payloads.len() != want_n {
        return bad(
            sink,
            format!("{} payloads, expected {want_n}", payloads.len()),
        );
    }
    let Some(payload) = payloads.first() else {
        sink.count("agent.no-update");
        return;
    };
    // strip the timestamp
    const LEAD: &str = "junos:comment=\"Last updated at ";
    let payload = match payload.find(LEAD) {
        Some(i) => {
            let j = i + LEAD.len();
            format!("{}NOW{}", &payload[..j], &payload[j + 20..])
        }
        None => payload.clone(),
    };
    let tree = xmlstrict::parse_document(&payload);
    let mut exps = vec![ex(
        "policy-options/policy-statement/name",
        name_used.clone(),
        Kind::Text,
    )];
    let model_upd = match &ev {
        None => {
            exps.push(ex(
                "policy-options/policy-statement@delete",
                "delete",
                Kind::Attr,
            ));
            sink.count("agent.delete");
            format!("del {}", hexs(&name_used))
        }
        Some((n4, n6)) => {
            exps.push(ex(
                "policy-options/policy-statement@junos:comment",
                format!("Last updated at NOW from mp-filter expression {display}"),
                Kind::Attr,
            ));
            sink.count(if inst.is_some() {
                "agent.update"
            } else {
                "agent.create"
            });
            let stmt = tree
                .as_ref()
                .ok()
                .and_then(|t| t.path("policy-options/policy-statement"));
            let terms: Vec<&Elem> = stmt
                .map(|s| s.children("term").collect())
                .unwrap_or_default();
            let mut toks = vec![];
            for (k, new) in [n4, n6].into_iter().enumerate() {
                // a family with nothing installed and nothing to install has no term at all: find the
                // term by its <name>, not by position
                let fam = if k == 0 { "inet" } else { "inet6" };
                let term = terms
                    .iter()
                    .copied()
                    .find(|t| t.child("name").map(|e| e.text()).as_deref() == Some(fam));
                let (dels, adds) = observed_filters(term);
                let old = inst.as_ref().map(|(o4, o6)| if k == 0 { o4 } else { o6 });
                match old {
                    None => {
                        toks.push("~".to_string());
                        toks.push(list(
                            &ordered(new, &adds, &[])
                                .iter()
                                .map(range_tok)
                                .collect::<Vec<_>>(),
                        ));
                    }
                    Some(old) => {
                        let common: Vec<RangeT> =
                            old.iter().filter(|r| new.contains(r)).cloned().collect();
                        toks.push(list(
                            &ordered(old, &dels, &common)
                                .iter()
                                .map(range_tok)
                                .collect::<Vec<_>>(),
                        ));
                        toks.push(list(
                            &ordered(new, &adds, &common)
                                .iter()
                                .map(range_tok)
                                .collect::<Vec<_>>(),
                        ));
                    }
                }
            }
            format!(
                "upd {} {} {} {}",
                hexs(&name_used),
                hexs("NOW"),
                hexs(&display),
                toks.join(" ")
            )
        }
    };
    sink.corr(
        case,
        format!("ser payload {cfg} {model_upd}"),
        hexs(&payload),
    );
    // the payload inside a real <load-configuration> request (the agent uses Xml + Merge)
    let toks_owned = [
        "load-configuration".to_string(),
        format!("xml:merge:{}", hexs(&payload)),
    ];
    let toks: Vec<&str> = toks_owned.iter().map(|s| s.as_str()).collect();
    match block_on(exec(0, &toks)) {
        Ok((Ok(w), id)) => {
            sink.corr(
                case,
                format!("ser loadupd {cfg} {id} merge {model_upd}"),
                hex(&w),
            );
            sink.spec(case, format!("ser specframe {} marker-inside", hex(&w)));
            let exps2: Vec<Expect> = exps
                .iter()
                .map(|e| Expect {
                    path: format!("load-configuration/configuration/{}", e.path),
                    ..e.clone()
                })
                .collect();
            let v = judge(&w, "rpc", &exps2, sink, case);
            sink.direct(case, v.map_or("ok".into(), |c| format!("violation {c}")));
        }
        Ok((Err(e), id)) => {
            sink.corr(
                case,
                format!("ser loadupd {cfg} {id} merge {model_upd}"),
                "refused".into(),
            );
            sink.count("refused");
            sink.notes.push(format!("{case}: refused: {e}"));
        }
        Err(e) => bad(sink, e),
    }
}

fn run_hello(case: &str, cfg: &str, sink: &mut Sink) {
    let sent = block_on(async {
        let (_s, peer) = new_session().await?;
        Ok::<_, String>(peer.sent())
    });
    let w = match sent {
        Ok(s) if s.len() == 1 => s[0].to_vec(),
        other => {
            sink.direct(case, "violation harness-error".into());
            sink.notes.push(format!("hello: {other:?}"));
            return;
        }
    };
    sink.spec(case, format!("ser specframe {} marker-inside", hex(&w)));
    let body = String::from_utf8_lossy(&w[..w.len().saturating_sub(MARKER.len())]).to_string();
    let mut caps: Vec<String> = vec![];
    let verdict = match xmlstrict::parse_document(&body) {
        Err(_) => Some("not-well-formed".to_string()),
        Ok(root) => {
            if let Some(c) = root.child("capabilities") {
                caps = c.children("capability").map(|e| e.text()).collect();
            }
            // the advertised set is C01's business; here: base:1.0 is there and every entry reads back as a base URI
            if root.name != "hello"
                || !caps.iter().any(|c| c == "urn:ietf:params:netconf:base:1.0")
                || !caps
                    .iter()
                    .all(|c| c.starts_with("urn:ietf:params:netconf:base:1."))
            {
                Some("value-not-recovered".into())
            } else if count_marker(&w) != vec![w.len() - MARKER.len()] {
                Some("marker-inside".into())
            } else {
                None
            }
        }
    };
    sink.corr(
        case,
        format!(
            "ser hello {cfg} {}",
            list(&caps.iter().map(|c| hexs(c)).collect::<Vec<_>>())
        ),
        hex(&w),
    );
    sink.direct(
        case,
        verdict.map_or("ok".into(), |c| format!("violation {c}")),
    );
    sink.count("op.hello");
}

fn run_request(case: &str, cfg: &str, sink: &mut Sink) {
    let Some((pre, op)) = case.split_once(';') else {
        sink.direct(case, "violation harness-error".into());
        return;
    };
    let pre: usize = pre.parse().unwrap_or(0);
    let toks: Vec<&str> = op.split(' ').collect();
    // `xmlchunks:<a>:<hex>:<k>` is the op `xml:<a>:<hex>` as far as the wire, the model and the
    // expectations are concerned: only the real call differs (a serialiser that writes in blocks)
    let op_model: String = op
        .split(' ')
        .map(|t| match t.strip_prefix("xmlchunks:") {
            Some(rest) => format!("xml:{}", rest.rsplit_once(':').map(|x| x.0).unwrap_or(rest)),
            None => t.to_string(),
        })
        .collect::<Vec<_>>()
        .join(" ");
    let toks_model: Vec<&str> = op_model.split(' ').collect();
    let exps = match expects(&toks_model) {
        Ok(e) => e,
        Err(e) => {
            sink.direct(case, "violation harness-error".into());
            sink.notes.push(format!("{case}: {e}"));
            return;
        }
    };
    sink.count(&format!("op.{}", toks[0]));
    if op.contains("xmlfail:") {
        // the payload serialiser reports an error after writing part of its output: nothing may be sent
        let verdict = match block_on(exec(pre, &toks)) {
            Err(e) => {
                sink.notes.push(format!("{}: {e}", &case[..case.len().min(120)]));
                "violation harness-error".to_string()
            }
            Ok((Err(_), _)) => "ok".to_string(),
            Ok((Ok(w), _)) => {
                sink.sample(format!("{case} -> SENT {}", String::from_utf8_lossy(&w[..w.len().min(160)])));
                "violation message-sent-although-payload-serialiser-failed".to_string()
            }
        };
        sink.direct(case, verdict);
        return;
    }
    match block_on(exec(pre, &toks)) {
        Err(e) => {
            sink.direct(case, "violation harness-error".into());
            sink.notes
                .push(format!("{}: {e}", &case[..case.len().min(120)]));
        }
        Ok((Err(e), id)) => {
            sink.corr(case, format!("ser wire {cfg} {id} {op_model}"), "refused".into());
            sink.count("refused");
            sink.sample(format!("{} -> refused: {e}", &case[..case.len().min(100)]));
            // a refusal never violates the property: nothing is sent
            sink.direct(case, "ok".into());
        }
        Ok((Ok(w), id)) => {
            sink.corr(case, format!("ser wire {cfg} {id} {op_model}"), hex(&w));
            let (in_domain, cls) = domain(&exps);
            if in_domain {
                sink.spec(case, format!("ser specframe {} {cls}", hex(&w)));
            }
            let mut exps = exps;
            exps.push(ex("@message-id", id.to_string(), Kind::Attr));
            for e in &exps {
                sink.count(&format!("leaf.{:?}", e.kind));
            }
            let v = judge(&w, "rpc", &exps, sink, case);
            if let Some(c) = &v {
                sink.count(&format!("violation.{c}"));
            }
            if w.len() < 200 {
                sink.sample(format!("{case} -> {}", String::from_utf8_lossy(&w)));
            }
            sink.direct(case, v.map_or("ok".into(), |c| format!("violation {c}")));
        }
    }
}

pub fn main(opts: &Opts) {
    if let Err(e) = xmlstrict::selftest() {
        eprintln!("{e}");
        std::process::exit(3);
    }
    let mut rng = Rng::new(opts.seed);
    let mut sink = Sink::new();
    let t0 = std::time::Instant::now();
    // the model variant is fixed by the registration (`cfg=c1011` = the code as it is in /repo now);
    // a probe result that differs is reported as a correspondence break, it does not re-target the model
    let probed = probe();
    let cfg = opts
        .extra
        .iter()
        .find_map(|e| e.strip_prefix("cfg=").map(|s| s.to_string()))
        .unwrap_or_else(|| probed.clone());
    sink.corr(
        "variant-probe",
        format!("ser variant {cfg}"),
        probed.clone(),
    );
    sink.notes.push(format!(
        "implementation variant probed as {cfg} (c<text/JSON payload escaped><TAB/LF/CR written as references><marker guard in to_xml><XML Char guard in to_xml>); \
         c0000 = Cfg.pinned, c1111 = Cfg.fixed"
    ));
    let mut cases = vec![];
    if let Some(p) = &opts.replay {
        for l in std::fs::read_to_string(p).unwrap().lines() {
            if let Some(d) = l.strip_prefix("case\t") {
                cases.push(d.split('\t').next().unwrap().to_string());
            }
        }
    } else {
        cases = gen_cases(opts, &mut rng);
    }
    for c in &cases {
        progress(c);
        if c == "hello" {
            run_hello(c, &cfg, &mut sink);
        } else if c.starts_with("agent;") {
            run_agent(c, &cfg, &mut sink);
        } else {
            run_request(c, &cfg, &mut sink);
        }
    }
    progress_idle();
    sink.add("cases", cases.len() as u64);
    sink.add("wall_ms", t0.elapsed().as_millis() as u64);
    sink.notes.push(
        "domain: all strings as values (a value XML 1.0 cannot carry must be refused); fragments are well-formed \
         `content`; ill-formed fragments are exercised for correspondence only (out-of-domain.* counters)"
            .into(),
    );
    sink.write(opts, "ser");
}
