//! C19 correspondence: the real daemon loop (`Loop::start`, reached through
//! `agent::verif::run_loop`) against the loop model (lean/Bgpfu/Model/Daemon.lean).
//!
//! A case is a *script*: the period, how long each run takes before it fails (the transport
//! factory sleeps that long in virtual time and then returns `Err`, so the run fails at "connect"),
//! which signals are raised at which virtual times, and the horizon up to which the loop is
//! observed.  The loop runs on a current-thread runtime with tokio's paused clock, so virtual time
//! is exact; the observation is the list of virtual timestamps (ms since the loop was started) at
//! which connection attempts were made, and the time at which `Loop::start` returned.
//!
//! Signal handlers are process-global, so cases run strictly one after the other on this thread.
//! tokio installs its OS-level handler for a signal the first time a listener is registered and
//! never removes it; `warm_up()` registers listeners for SIGHUP/SIGINT/SIGTERM once before any
//! signal is raised, so a raised signal can never take the default action (kill the process).
//! A signal is only *meaningful* while the loop has its listeners registered; the driver therefore
//! waits for the first connection attempt (which happens after registration) before raising any.
//!
//! Ties are excluded by construction rather than modelled (`select!` picks at random among ready
//! arms): run durations are multiples of 1000 ms, every signal time has its own non-zero residue
//! mod 1000 (and not 500, the horizon's), so no signal coincides with a deadline, a run end or the
//! horizon; a case in which two different kinds of signal are latched during one run, or an exit
//! signal arrives in the same instant as a SIGHUP-triggered run is started, is counted as `racy`
//! and gets no rows.
//!
//! Histories containing *successful* runs need `Updater::run` to complete, which uses
//! `block_in_place` (multi-thread runtime ⇒ no paused clock): they run in REAL time against the
//! in-memory fake Junos and the fake IRRd (`run_case_realtime`), with observed times rounded to a
//! 250 ms grid; three short ones in the quick tier, a failure→success one (66 s) in the thorough tier.
use std::{
    num::NonZeroU64,
    sync::{
        atomic::{AtomicBool, AtomicUsize, Ordering},
        Arc, Mutex,
    },
    time::Duration,
};

use tokio::time::Instant;

use crate::{memtransport::MemTransport, util::*};

/// the model's `Daemon.minBackoff` (ms); also checked against modeld itself by the `const` row
const MODEL_MIN_BACKOFF_MS: u64 = 60_000;
const MAX_ATTEMPTS: usize = 6000;
const TASK_RS: &str = "/repo/junos-agent/src/task.rs";
const CLI_RS: &str = "/repo/junos-agent/src/cli.rs";

#[derive(Clone, Debug, PartialEq)]
pub struct Case {
    pub period_s: u64,
    /// (duration ms, outcome) of the 1st, 2nd, … run; runs beyond the list fail at once
    pub runs: Vec<(u64, bool)>,
    /// (virtual ms, 'H' | 'I' | 'T'), sorted by time
    pub sigs: Vec<(u64, char)>,
    pub horizon: u64,
    /// indices of runs that fail by PANICKING (in the connector, i.e. in the top-level part of the
    /// run) rather than by returning an error: for the loop that is a failed run like any other
    pub panics: Vec<usize>,
}

impl Case {
    fn runs_tok(&self) -> String {
        list(
            &self
                .runs
                .iter()
                .map(|(d, ok)| format!("{d}{}", if *ok { 't' } else { 'f' }))
                .collect::<Vec<_>>(),
        )
    }
    fn sigs_tok(&self) -> String {
        list(
            &self
                .sigs
                .iter()
                .map(|(t, k)| format!("{k}{t}"))
                .collect::<Vec<_>>(),
        )
    }
    pub fn descr(&self) -> String {
        let mut d = format!(
            "p={};h={};r={};s={}",
            self.period_s,
            self.horizon,
            self.runs_tok(),
            self.sigs_tok()
        );
        if !self.panics.is_empty() {
            d.push_str(&format!(
                ";x={}",
                list(&self.panics.iter().map(|i| i.to_string()).collect::<Vec<_>>())
            ));
        }
        d
    }
    pub fn parse(s: &str) -> Option<Case> {
        let mut period_s = None;
        let mut horizon = None;
        let mut runs = None;
        let mut sigs = None;
        let mut panics = vec![];
        for f in s.split(';') {
            let (k, v) = f.split_once('=')?;
            match k {
                "p" => period_s = v.parse().ok(),
                "h" => horizon = v.parse().ok(),
                "r" => {
                    let mut l = vec![];
                    if v != "." {
                        for x in v.split(',') {
                            let ok = match x.chars().last()? {
                                't' => true,
                                'f' => false,
                                _ => return None,
                            };
                            l.push((x[..x.len() - 1].parse().ok()?, ok));
                        }
                    }
                    runs = Some(l);
                }
                "s" => {
                    let mut l = vec![];
                    if v != "." {
                        for x in v.split(',') {
                            let k = x.chars().next()?;
                            if !"HIT".contains(k) {
                                return None;
                            }
                            l.push((x[1..].parse().ok()?, k));
                        }
                    }
                    sigs = Some(l);
                }
                "x" => {
                    if v != "." {
                        for x in v.split(',') {
                            panics.push(x.parse().ok()?);
                        }
                    }
                }
                _ => return None,
            }
        }
        let c = Case {
            period_s: period_s?,
            runs: runs?,
            sigs: sigs?,
            horizon: horizon?,
            panics,
        };
        if c.period_s == 0 || c.sigs.windows(2).any(|w| w[0].0 > w[1].0) {
            return None;
        }
        Some(c)
    }
    fn model_args(&self) -> String {
        format!(
            "{} {} {} {}",
            self.period_s * 1000,
            self.horizon,
            self.runs_tok(),
            self.sigs_tok()
        )
    }
}

#[derive(Clone, Debug, Default)]
pub struct Obs {
    pub starts: Vec<u64>,
    pub ends: Vec<u64>,
    pub exit: Option<u64>,
    pub exit_err: bool,
    pub runaway: bool,
    pub panicked: bool,
}

impl Obs {
    fn line(&self) -> String {
        format!(
            "starts={} exit={}",
            list(
                &self
                    .starts
                    .iter()
                    .map(|t| t.to_string())
                    .collect::<Vec<_>>()
            ),
            self.exit.map_or("-".to_string(), |t| t.to_string())
        )
    }
}

fn signo(k: char) -> i32 {
    match k {
        'H' => libc::SIGHUP,
        'I' => libc::SIGINT,
        _ => libc::SIGTERM,
    }
}

/// Make tokio install its process-wide handlers for the three signals (they stay installed).
pub fn warm_up() {
    use tokio::signal::unix::{signal, SignalKind};
    let rt = tokio::runtime::Builder::new_current_thread()
        .enable_all()
        .build()
        .unwrap();
    rt.block_on(async {
        let mut hup = signal(SignalKind::hangup()).unwrap();
        let _int = signal(SignalKind::interrupt()).unwrap();
        let _term = signal(SignalKind::terminate()).unwrap();
        // prove that a raised signal is caught, with the least dangerous of the three… which is
        // still fatal by default, hence after registration only
        unsafe { libc::raise(libc::SIGHUP) };
        tokio::time::timeout(Duration::from_secs(5), hup.recv())
            .await
            .expect("SIGHUP not delivered to tokio listener");
    });
}

/// Virtual-time run of one script against the real `Loop::start`. All outcomes must be failures.
pub fn run_case(c: &Case) -> Obs {
    assert!(
        c.runs.iter().all(|r| !r.1),
        "successful runs need run_case_realtime (TODO(C19-success))"
    );
    let rt = tokio::runtime::Builder::new_current_thread()
        .enable_all()
        .start_paused(true)
        .build()
        .unwrap();
    let c = c.clone();
    let r = std::panic::catch_unwind(std::panic::AssertUnwindSafe(|| {
        rt.block_on(async move {
            let t0 = Instant::now();
            let log: Arc<Mutex<(Vec<u64>, Vec<u64>)>> = Default::default();
            let n = Arc::new(AtomicUsize::new(0));
            let runaway = Arc::new(AtomicBool::new(false));
            let durs: Arc<Vec<u64>> = Arc::new(c.runs.iter().map(|r| r.0).collect());
            let panics: Arc<Vec<usize>> = Arc::new(c.panics.clone());
            let (log2, n2, runaway2) = (log.clone(), n.clone(), runaway.clone());
            let conn = agent::verif::connector::<MemTransport, _>(move || {
                let (log, n, runaway, durs) =
                    (log2.clone(), n2.clone(), runaway2.clone(), durs.clone());
                let panics = panics.clone();
                Box::pin(async move {
                    let i = n.fetch_add(1, Ordering::SeqCst);
                    log.lock()
                        .unwrap()
                        .0
                        .push((Instant::now() - t0).as_millis() as u64);
                    if i >= MAX_ATTEMPTS {
                        // back-to-back runs would never let virtual time advance: park this run
                        runaway.store(true, Ordering::SeqCst);
                        std::future::pending::<()>().await;
                    }
                    let d = durs.get(i).copied().unwrap_or(0);
                    if d > 0 {
                        tokio::time::sleep(Duration::from_millis(d)).await;
                    }
                    log.lock()
                        .unwrap()
                        .1
                        .push((Instant::now() - t0).as_millis() as u64);
                    if panics.contains(&i) {
                        panic!("scripted panic in run #{i}");
                    }
                    Err(anyhow::anyhow!("scripted connect failure #{i}"))
                })
            });
            let period = NonZeroU64::new(c.period_s).unwrap();
            let h = tokio::spawn(async move {
                let r = agent::verif::run_loop(conn, "127.0.0.1", 1, "verif", period).await;
                (r.is_ok(), (Instant::now() - t0).as_millis() as u64)
            });
            // the loop registers its signal listeners before the first `select!`; the first tick is
            // immediate, so the first attempt tells us the listeners exist
            for _ in 0..64 {
                if n.load(Ordering::SeqCst) > 0 || h.is_finished() {
                    break;
                }
                tokio::task::yield_now().await;
            }
            assert!(
                n.load(Ordering::SeqCst) > 0 || h.is_finished(),
                "loop made no first attempt"
            );
            for (t, k) in &c.sigs {
                if *t > c.horizon {
                    break;
                }
                tokio::time::sleep_until(t0 + Duration::from_millis(*t)).await;
                if h.is_finished() {
                    break;
                }
                unsafe { libc::raise(signo(*k)) };
            }
            tokio::time::sleep_until(t0 + Duration::from_millis(c.horizon)).await;
            for _ in 0..8 {
                tokio::task::yield_now().await;
            }
            let mut o = Obs::default();
            if h.is_finished() {
                match h.await {
                    Ok((ok, t)) => {
                        o.exit = Some(t);
                        o.exit_err = !ok;
                    }
                    Err(_) => o.panicked = true,
                }
            } else {
                h.abort();
                let _ = h.await;
            }
            let g = log.lock().unwrap();
            o.starts = g.0.iter().copied().filter(|t| *t <= c.horizon).collect();
            o.ends = g.1.iter().copied().filter(|t| *t <= c.horizon).collect();
            o.runaway = runaway.load(Ordering::SeqCst);
            o
        })
    }));
    r.unwrap_or_else(|_| Obs {
        panicked: true,
        ..Default::default()
    })
}

/// Real-time run of a script that contains SUCCESSFUL runs: `Updater::run` needs the multi-thread
/// runtime (`block_in_place`), so tokio's paused clock is not available. The target is the in-memory
/// fake Junos (a successful run takes a few ms) plus the fake IRRd; a scripted *failing* run fails at
/// connect. Observed times are rounded to `RT_GRID` ms (scripts only use multiples of 500 ms; with at
/// most a handful of runs the accumulated run time stays far below half the grid).
pub const RT_GRID: u64 = 250;

pub fn run_case_realtime(c: &Case) -> Option<Obs> {
    use crate::{fakeirrd::FakeIrrd, fakejunos, memtransport as mt};
    let rt = tokio::runtime::Builder::new_multi_thread()
        .worker_threads(4)
        .enable_all()
        .build()
        .unwrap();
    let irrd = FakeIrrd::start(std::collections::HashMap::new());
    let irrd_port = irrd.port;
    let c = c.clone();
    let round = |t: u64| ((t + RT_GRID / 2) / RT_GRID) * RT_GRID;
    let o = rt.block_on(async move {
        let t0 = std::time::Instant::now();
        let log: Arc<Mutex<(Vec<u64>, Vec<u64>)>> = Default::default();
        let n = Arc::new(AtomicUsize::new(0));
        let outcomes: Arc<Vec<bool>> = Arc::new(c.runs.iter().map(|r| r.1).collect());
        let durs: Arc<Vec<u64>> = Arc::new(c.runs.iter().map(|r| r.0).collect());
        let (log2, n2) = (log.clone(), n.clone());
        let conn = agent::verif::connector::<MemTransport, _>(move || {
            let (log, n, outcomes, durs) =
                (log2.clone(), n2.clone(), outcomes.clone(), durs.clone());
            Box::pin(async move {
                let i = n.fetch_add(1, Ordering::SeqCst);
                log.lock().unwrap().0.push(t0.elapsed().as_millis() as u64);
                // a slow run: the router takes `d` ms to accept the connection
                let d = durs.get(i).copied().unwrap_or(0);
                if d > 0 {
                    tokio::time::sleep(Duration::from_millis(d)).await;
                }
                if outcomes.get(i).copied().unwrap_or(false) {
                    let (t, peer) = mt::new();
                    let script = fakejunos::Script {
                        running: fakejunos::running_with(1),
                        ephemeral: fakejunos::empty_config(),
                        fault: None,
                    };
                    tokio::spawn(fakejunos::serve(peer, script, Default::default()));
                    Ok(t)
                } else {
                    Err(anyhow::anyhow!("scripted connect failure #{i}"))
                }
            })
        });
        let period = NonZeroU64::new(c.period_s).unwrap();
        let h = tokio::spawn(async move {
            let r = agent::verif::run_loop(conn, "127.0.0.1", irrd_port, "verif", period).await;
            (r.is_ok(), t0.elapsed().as_millis() as u64)
        });
        // wait for the first attempt: the signal listeners are registered before it
        for _ in 0..2000 {
            if n.load(Ordering::SeqCst) > 0 || h.is_finished() {
                break;
            }
            tokio::time::sleep(Duration::from_millis(1)).await;
        }
        for (t, k) in &c.sigs {
            if *t > c.horizon {
                break;
            }
            let now = t0.elapsed().as_millis() as u64;
            if *t > now {
                tokio::time::sleep(Duration::from_millis(*t - now)).await;
            }
            if h.is_finished() {
                break;
            }
            unsafe { libc::raise(signo(*k)) };
        }
        let now = t0.elapsed().as_millis() as u64;
        if c.horizon > now {
            tokio::time::sleep(Duration::from_millis(c.horizon - now)).await;
        }
        let mut o = Obs::default();
        if h.is_finished() {
            match h.await {
                Ok((ok, t)) => {
                    o.exit = Some(t);
                    o.exit_err = !ok;
                }
                Err(_) => o.panicked = true,
            }
        } else {
            h.abort();
            let _ = h.await;
        }
        let g = log.lock().unwrap();
        o.starts = g.0.iter().copied().filter(|t| *t <= c.horizon).collect();
        o.ends = o.starts.clone();
        o
    });
    drop(irrd);
    let mut o = o;
    o.starts = o.starts.iter().map(|t| round(*t)).collect();
    o.ends = o.starts.clone();
    o.exit = o.exit.map(round);
    Some(o)
}

/// real-time scripts (all times multiples of 500 ms; run durations are ~0 on the grid)
fn realtime_cases(thorough: bool) -> Vec<Case> {
    let mk = |p: u64, runs: &[bool], sigs: &[(u64, char)], h: u64| Case {
        period_s: p,
        runs: runs.iter().map(|ok| (0, *ok)).collect(),
        sigs: sigs.to_vec(),
        horizon: h,
        panics: vec![],
    };
    let slow = |p: u64, runs: &[(u64, bool)], h: u64| Case {
        period_s: p,
        runs: runs.to_vec(),
        sigs: vec![],
        horizon: h,
        panics: vec![],
    };
    let mut v = vec![
        // success restores the normal period: runs at 0, p, 2p, …
        mk(1, &[true, true, true, true], &[], 3500),
        // a successful run that lasts longer than the period: the next run starts one period after
        // its END (0, 1500 + 1000, …), never back to back
        slow(1, &[(1500, true), (0, true), (0, true)], 3750),
        // … and one that lasts a fraction of the period: the pause is the period, not period − duration
        slow(2, &[(500, true), (0, true)], 3750),
        // SIGHUP while waiting after a success: immediate run, then the period again
        mk(2, &[true, true, true], &[(1000, 'H')], 3500),
        // SIGTERM while waiting after a success: clean exit, no further run
        mk(1, &[true, true], &[(1500, 'T')], 2500),
    ];
    if thorough {
        // failure, then success: first retry after 60 s, then the period; and the back-off starts over
        v.push(mk(2, &[false, true, true, false], &[], 66_500));
    }
    v
}

/// Is the script free of the ties that the real `select!` resolves at random?
fn racy(c: &Case, o: &Obs) -> bool {
    // a signal at the very instant of a run start / run end / the horizon
    for (t, _) in &c.sigs {
        if o.starts.contains(t) && !c.sigs.iter().any(|(u, k)| u == t && *k == 'H') {
            return true;
        }
        if o.starts
            .iter()
            .zip(o.ends.iter())
            .any(|(s, e)| s < t && e == t)
            || *t == c.horizon
        {
            return true;
        }
    }
    // two signals at the same instant
    if c.sigs.windows(2).any(|w| w[0].0 == w[1].0) {
        return true;
    }
    // two different kinds latched during the same run (window [start, end])
    for (i, s) in o.starts.iter().enumerate() {
        let e = o.ends.get(i).copied().unwrap_or(u64::MAX);
        let mut kinds: Vec<char> = c
            .sigs
            .iter()
            .filter(|(t, _)| s < t && *t <= e)
            .map(|x| x.1)
            .collect();
        kinds.dedup();
        kinds.sort();
        kinds.dedup();
        if kinds.len() > 1 {
            return true;
        }
    }
    false
}

fn residue_ok(t: u64, used: &[(u64, char)]) -> bool {
    let r = t % 1000;
    r != 0 && r != 500 && !used.iter().any(|(u, _)| u % 1000 == r)
}

fn horizon_for(period_s: u64, k: u64) -> u64 {
    k * period_s.max(60) * 1000 + 500
}

const PERIODS: &[u64] = &[
    1, 2, 10, 30, 59, 60, 61, 90, 119, 120, 121, 300, 3600, 86400,
];

fn dur_patterns(rng: &mut Rng, thorough: bool) -> Vec<Vec<(u64, bool)>> {
    let mut v: Vec<Vec<(u64, bool)>> = vec![
        vec![],                                   // every run fails at once
        (0..12).map(|_| (1000, false)).collect(), // 1 s each
        vec![
            (5000, false),
            (0, false),
            (70000, false),
            (1000, false),
            (0, false),
            (130000, false),
            (2000, false),
        ],
    ];
    for _ in 0..if thorough { 6 } else { 1 } {
        v.push(
            (0..10)
                .map(|_| {
                    (
                        *rng.pick(&[0u64, 0, 1000, 3000, 30000, 61000, 200000]),
                        false,
                    )
                })
                .collect(),
        );
    }
    v
}

fn gen_cases(opts: &Opts, rng: &mut Rng, sink: &mut Sink) -> Vec<Case> {
    let thorough = opts.thorough();
    let mut cases = vec![];
    let pats = dur_patterns(rng, thorough);
    // long streaks of failures (80 retries in a row at the cap): whatever is computed from the number
    // of consecutive failures has to survive it
    for &p in &[1u64, 60, 61, 300, 3600] {
        cases.push(Case {
            period_s: p,
            runs: vec![],
            sigs: vec![],
            horizon: horizon_for(p, 80),
            panics: vec![],
        });
    }
    // a run that fails by panicking is a failed run: retried after the back-off, signals still work
    for &p in &[1u64, 60, 300, 3600] {
        for panics in [vec![0], vec![1], vec![0, 1, 2], vec![2, 5]] {
            cases.push(Case {
                period_s: p,
                runs: vec![(0, false), (2000, false), (0, false)],
                sigs: vec![],
                horizon: horizon_for(p, 7),
                panics: panics.clone(),
            });
            let t = 60_000 + 137 + 1000 * panics[0] as u64;
            cases.push(Case {
                period_s: p,
                runs: vec![],
                sigs: vec![(t, 'H'), (t + 200_000 + 126, 'T')],
                horizon: horizon_for(p, 7),
                panics,
            });
        }
    }
    for &p in PERIODS {
        // the shortest history that shows three consecutive retries
        cases.push(Case {
            period_s: p,
            runs: vec![],
            sigs: vec![],
            horizon: (60 + 2 * p.max(60).min(240)) * 1000 + 500,
            panics: vec![],
        });
        if p < 60 {
            cases.push(Case {
                period_s: p,
                runs: vec![],
                sigs: vec![],
                horizon: (60 + 2 * p) * 1000 + 500,
                panics: vec![],
            });
        }
        for (pi, runs) in pats.iter().enumerate() {
            // (a) failures only, three horizons
            let ks: &[u64] = if pi == 0 { &[1, 3, 9] } else { &[6] };
            for &k in ks {
                cases.push(Case {
                    period_s: p,
                    runs: runs.clone(),
                    sigs: vec![],
                    horizon: horizon_for(p, k),
                    panics: vec![],
                });
            }
            // (b) one signal placed relative to the timeline the implementation itself produces
            //     without signals: 1 ms after a run ended, 1 ms before the next one would start,
            //     in the middle of the wait, in the middle of the run
            let base = Case {
                period_s: p,
                runs: runs.clone(),
                sigs: vec![],
                horizon: horizon_for(p, 6),
                panics: vec![],
            };
            let o = run_case(&base);
            sink.count("probe_runs");
            let nwaits = o.starts.len().saturating_sub(1);
            let mut idx: Vec<usize> = vec![0, 1, 2];
            if nwaits > 3 {
                idx.push(nwaits - 1);
            }
            for &i in idx.iter().filter(|i| **i < nwaits) {
                let (s, e, s2) = (o.starts[i], o.ends[i], o.starts[i + 1]);
                let mut places = vec![e + 1, s2 - 1, e + (s2 - e) / 2 / 1000 * 1000 + 137];
                if e > s {
                    places.push(s + (e - s) / 2 / 1000 * 1000 + 263);
                    places.push(s + 1);
                }
                for t in places {
                    if !(t > s && t < s2 && residue_ok(t, &[])) {
                        continue;
                    }
                    for k in ['H', 'I', 'T'] {
                        cases.push(Case {
                            period_s: p,
                            runs: runs.clone(),
                            sigs: vec![(t, k)],
                            horizon: base.horizon,
                            panics: vec![],
                        });
                    }
                    // a SIGHUP there, and an exit signal later / a second SIGHUP
                    if pi != 1 || thorough {
                        let t2 = t + 1000 * (1 + rng.below(200) as u64) + 1 + rng.below(498) as u64;
                        if residue_ok(t2, &[(t, 'H')]) && t2 < base.horizon {
                            let k2 = *rng.pick(&['H', 'I', 'T']);
                            cases.push(Case {
                                period_s: p,
                                runs: runs.clone(),
                                sigs: vec![(t, 'H'), (t2, k2)],
                                horizon: base.horizon,
                                panics: vec![],
                            });
                        }
                    }
                }
            }
        }
    }
    // (c) random scripts: several signals anywhere up to the horizon
    let nrand = if thorough { 4000 } else { 600 };
    for _ in 0..nrand {
        let p = if rng.chance(1, 4) {
            1 + rng.below(400) as u64
        } else {
            *rng.pick(PERIODS)
        };
        let runs = if rng.chance(1, 3) {
            vec![]
        } else {
            (0..rng.below(12))
                .map(|_| {
                    (
                        *rng.pick(&[0u64, 0, 1000, 2000, 10000, 59000, 60000, 61000, 150000]),
                        false,
                    )
                })
                .collect()
        };
        let horizon = horizon_for(p, 1 + rng.below(8) as u64);
        let mut sigs: Vec<(u64, char)> = vec![];
        let nsig = rng.below(5);
        let span = if rng.chance(1, 2) {
            horizon
        } else {
            horizon.min(400_000)
        };
        for _ in 0..nsig {
            let t = 1 + rng.next() % span;
            if residue_ok(t, &sigs) {
                let k = if rng.chance(3, 4) {
                    'H'
                } else if rng.chance(1, 2) {
                    'I'
                } else {
                    'T'
                };
                sigs.push((t, k));
            }
        }
        sigs.sort();
        // some of the failures are panics in the top-level part of the run
        let panics: Vec<usize> = if rng.chance(1, 3) {
            (0..8).filter(|_| rng.chance(1, 3)).collect()
        } else {
            vec![]
        };
        cases.push(Case {
            period_s: p,
            runs,
            sigs,
            horizon,
            panics,
        });
    }
    cases
}

fn read_min_backoff_ms() -> Option<u64> {
    let src = std::fs::read_to_string(TASK_RS).ok()?;
    // const MIN_BACKOFF: Duration = Duration::from_secs(60);
    let i = src.find("const MIN_BACKOFF")?;
    let rest = &src[i..src[i..].find(';')? + i];
    let (unit, mul) = if let Some(j) = rest.find("from_secs(") {
        (j + "from_secs(".len(), 1000)
    } else if let Some(j) = rest.find("from_millis(") {
        (j + "from_millis(".len(), 1)
    } else {
        return None;
    };
    let num: String = rest[unit..]
        .chars()
        .take_while(|c| c.is_ascii_digit() || *c == '_')
        .filter(|c| *c != '_')
        .collect();
    num.parse::<u64>().ok().map(|n| n * mul)
}

/// daemon mode ⇔ frequency ≠ 0: `Loop::period` can only come from a `NonZeroU64`
fn one_shot_guard() -> bool {
    let task = std::fs::read_to_string(TASK_RS).unwrap_or_default();
    let cli = std::fs::read_to_string(CLI_RS).unwrap_or_default();
    let squash = |s: &str| s.split_whitespace().collect::<String>();
    squash(&task).contains("fninit_loop(self,frequency:NonZeroU64)->Loop<T>")
        && squash(&task).contains("period:Duration::from_secs(frequency.into())")
        && squash(&cli).contains("freq.try_into().map_or(Self::OneShot,Self::Daemon)")
        && squash(&cli).contains("Daemon(NonZeroU64)")
}

pub fn main(opts: &Opts) {
    let cfg = opts
        .extra
        .iter()
        .find_map(|e| e.strip_prefix("cfg="))
        .unwrap_or("pinned")
        .to_string();
    assert!(
        cfg == "pinned" || cfg == "fixed",
        "cfg= must be pinned or fixed"
    );
    let mut rng = Rng::new(opts.seed);
    let mut sink = Sink::new();
    let t0 = std::time::Instant::now();
    warm_up();

    let mut cases = vec![];
    if let Some(p) = &opts.replay {
        for l in std::fs::read_to_string(p).unwrap().lines() {
            if let Some(d) = l.strip_prefix("case\t") {
                if let Some(c) = Case::parse(d.split('\t').next().unwrap()) {
                    cases.push(c);
                }
            }
        }
    } else {
        if opts.extra.iter().any(|e| e == "only-streaks") {
            // C07: a peer that hangs up on every connect, 80 times in a row: the retry delay must stay
            // positive (no busy loop), the loop must stay alive
            for &p in &[1u64, 60, 61, 300, 3600] {
                cases.push(Case { period_s: p, runs: vec![], sigs: vec![], horizon: horizon_for(p, 80), panics: vec![] });
            }
        } else {
            cases = gen_cases(opts, &mut rng, &mut sink);
            cases.extend(realtime_cases(opts.thorough()));
        }
        let mut seen = std::collections::HashSet::new();
        cases.retain(|c| seen.insert(c.descr()));
    }

    // constants read from the source
    match read_min_backoff_ms() {
        Some(ms) => {
            sink.corr(
                "const:MIN_BACKOFF",
                "daemon const".into(),
                format!("minBackoff={ms}"),
            );
            sink.direct(
                "const:MIN_BACKOFF",
                if ms == MODEL_MIN_BACKOFF_MS {
                    "ok".into()
                } else {
                    "violation min-backoff-changed".into()
                },
            );
        }
        None => sink.direct(
            "const:MIN_BACKOFF",
            "violation min-backoff-unreadable".into(),
        ),
    }
    sink.direct(
        "const:one-shot",
        if one_shot_guard() {
            "ok".into()
        } else {
            "violation zero-period-reachable".into()
        },
    );

    for c in &cases {
        let d = c.descr();
        progress(&d);
        let o = if c.runs.iter().any(|r| r.1) {
            match run_case_realtime(c) {
                Some(o) => {
                    sink.count("realtime.success-history");
                    o
                }
                None => continue,
            }
        } else {
            run_case(c)
        };
        if o.panicked {
            sink.direct(&d, "violation loop-panicked".into());
            continue;
        }
        if o.runaway {
            sink.direct(&d, "violation no-delay".into());
            continue;
        }
        if racy(c, &o) {
            sink.count("skipped.racy");
            continue;
        }
        if o.exit_err {
            sink.direct(&d, "violation exit-with-error".into());
        }
        progress_idle();
        sink.corr(&d, format!("daemon run {cfg} {}", c.model_args()), o.line());
        sink.spec(
            &d,
            format!(
                "daemon spec {} {} {}",
                c.model_args(),
                list(&o.starts.iter().map(|t| t.to_string()).collect::<Vec<_>>()),
                o.exit.map_or("-".to_string(), |t| t.to_string())
            ),
        );
        sink.count(&format!(
            "period.{}",
            if c.period_s < 60 {
                "lt60"
            } else if c.period_s == 60 {
                "eq60"
            } else {
                "gt60"
            }
        ));
        sink.count(&format!("signals.{}", c.sigs.len().min(4)));
        for k in ['H', 'I', 'T'] {
            if c.sigs.iter().any(|s| s.1 == k) {
                sink.count(&format!("with.{k}"));
            }
        }
        if c.sigs.iter().any(|(t, _)| {
            o.starts
                .iter()
                .zip(o.ends.iter())
                .any(|(s, e)| s < t && t <= e)
        }) {
            sink.count("signal_during_run");
        }
        sink.count(if o.exit.is_some() {
            "observed.exit"
        } else {
            "observed.running"
        });
        sink.add("attempts", o.starts.len() as u64);
        if c.sigs.len() >= 1 && (3..=9).contains(&o.starts.len()) && c.period_s != 1 {
            sink.sample(format!("{d} -> {}", o.line()));
        }
    }
    sink.notes.push(format!("model cfg token: {cfg}; success histories: not run (TODO(C19-success): needs fake Junos + fake IRRd)"));
    sink.add("wall_ms", t0.elapsed().as_millis() as u64);
    sink.write(opts, "daemon");
}
