//! In-memory `Transport` for driving the real `Session` (hook H1) and the agent facade (H3).
//!
//! * `Peer::sent()` — everything the client wrote, message by message (what is "on the wire");
//! * `Peer::deliver(bytes)` — make one `recv()` result available to the client (the in-memory
//!   transport hands out whole messages, the framing layer is C06's business);
//! * `Peer::close()` — the transport fails from now on (`recv` → Err once the queue is drained, `send` → Err);
//! * `Peer::gate(false)` — `send` blocks until the gate is opened again (back-pressure window).
use std::{
    collections::VecDeque,
    sync::{Arc, Mutex},
};

use async_trait::async_trait;
use bytes::Bytes;
use netconf::{
    transport::{RecvHandle, SendHandle, Transport},
    Error,
};
use tokio::sync::Notify;

#[derive(Debug, Default)]
struct Shared {
    inbox: VecDeque<Bytes>, // server → client
    sent: Vec<Bytes>,       // client → server
    closed: bool,
    gate_closed: bool,
    /// the next `send` hands its bytes to the peer and then reports an I/O error (e.g. `write_all`
    /// succeeded and `flush` failed): the server has the request although the client saw `Err`
    fail_next_send: bool,
}

#[derive(Debug, Clone)]
pub struct Peer {
    sh: Arc<Mutex<Shared>>,
    rx_notify: Arc<Notify>,
    gate_notify: Arc<Notify>,
    sent_notify: Arc<Notify>,
}

#[derive(Debug)]
pub struct MemTransport {
    peer: Peer,
}

#[derive(Debug)]
pub struct MemSender {
    peer: Peer,
}

#[derive(Debug)]
pub struct MemReceiver {
    peer: Peer,
}

pub fn new() -> (MemTransport, Peer) {
    let peer = Peer {
        sh: Arc::new(Mutex::new(Shared::default())),
        rx_notify: Arc::new(Notify::new()),
        gate_notify: Arc::new(Notify::new()),
        sent_notify: Arc::new(Notify::new()),
    };
    (MemTransport { peer: peer.clone() }, peer)
}

impl Peer {
    pub fn deliver<B: Into<Bytes>>(&self, b: B) {
        self.sh.lock().unwrap().inbox.push_back(b.into());
        self.rx_notify.notify_waiters();
        self.rx_notify.notify_one();
    }
    pub fn close(&self) {
        self.sh.lock().unwrap().closed = true;
        self.rx_notify.notify_waiters();
        self.rx_notify.notify_one();
        self.gate_notify.notify_waiters();
        self.gate_notify.notify_one();
    }
    pub fn gate(&self, open: bool) {
        self.sh.lock().unwrap().gate_closed = !open;
        if open {
            self.gate_notify.notify_waiters();
            self.gate_notify.notify_one();
        }
    }
    pub fn fail_next_send(&self) {
        self.sh.lock().unwrap().fail_next_send = true;
    }
    pub fn sent(&self) -> Vec<Bytes> {
        self.sh.lock().unwrap().sent.clone()
    }
    /// the i-th message the client wrote (empty if there is none)
    pub fn sent_at(&self, i: usize) -> Bytes {
        self.sh.lock().unwrap().sent.get(i).cloned().unwrap_or_default()
    }
    pub fn sent_count(&self) -> usize {
        self.sh.lock().unwrap().sent.len()
    }
    pub fn inbox_len(&self) -> usize {
        self.sh.lock().unwrap().inbox.len()
    }
    /// wait until the client has written at least `n` messages
    pub async fn wait_sent(&self, n: usize) -> Vec<Bytes> {
        loop {
            let notified = self.sent_notify.notified();
            {
                let g = self.sh.lock().unwrap();
                if g.sent.len() >= n || g.closed {
                    return g.sent.clone();
                }
            }
            notified.await;
        }
    }
}

impl Transport for MemTransport {
    type SendHandle = MemSender;
    type RecvHandle = MemReceiver;
    fn split(self) -> (MemSender, MemReceiver) {
        (
            MemSender {
                peer: self.peer.clone(),
            },
            MemReceiver { peer: self.peer },
        )
    }
}

fn closed_err() -> Error {
    Error::Transport(std::io::Error::from(std::io::ErrorKind::UnexpectedEof))
}

#[async_trait]
impl SendHandle for MemSender {
    async fn send(&mut self, data: Bytes) -> Result<(), Error> {
        loop {
            let notified = self.peer.gate_notify.notified();
            {
                let mut g = self.peer.sh.lock().unwrap();
                if g.closed {
                    return Err(closed_err());
                }
                if !g.gate_closed {
                    g.sent.push(data);
                    let fail = std::mem::take(&mut g.fail_next_send);
                    drop(g);
                    self.peer.sent_notify.notify_waiters();
                    self.peer.sent_notify.notify_one();
                    if fail {
                        return Err(Error::Transport(std::io::Error::from(std::io::ErrorKind::BrokenPipe)));
                    }
                    return Ok(());
                }
            }
            notified.await;
        }
    }
}

#[async_trait]
impl RecvHandle for MemReceiver {
    async fn recv(&mut self) -> Result<Bytes, Error> {
        loop {
            let notified = self.peer.rx_notify.notified();
            {
                let mut g = self.peer.sh.lock().unwrap();
                if let Some(b) = g.inbox.pop_front() {
                    return Ok(b);
                }
                if g.closed {
                    return Err(closed_err());
                }
            }
            notified.await;
        }
    }
}

pub const BASE_NS: &str = "urn:ietf:params:xml:ns:netconf:base:1.0";

/// A server `<hello>` advertising the given capability URIs.
pub fn hello(caps: &[&str], session_id: u32) -> String {
    let mut s = format!("<hello xmlns=\"{BASE_NS}\"><capabilities>");
    for c in caps {
        s.push_str("<capability>");
        s.push_str(&c.replace('&', "&amp;").replace('<', "&lt;"));
        s.push_str("</capability>");
    }
    s.push_str(&format!(
        "</capabilities><session-id>{session_id}</session-id></hello>]]>]]>"
    ));
    s
}

pub const CAP_BASE10: &str = "urn:ietf:params:netconf:base:1.0";
pub const CAP_BASE11: &str = "urn:ietf:params:netconf:base:1.1";
pub const CAP_JUNOS: &str = "http://xml.juniper.net/netconf/junos/1.0";

/// Establish a real `Session` over a fresh in-memory transport whose peer has already sent `hello`.
pub async fn session_with_hello(
    hello_msg: &str,
) -> (Result<netconf::Session<MemTransport>, Error>, Peer) {
    let (t, peer) = new();
    peer.deliver(hello_msg.to_string());
    let s = netconf::Session::verif_new(t).await;
    (s, peer)
}

/// extract the `message-id` attribute value from a request as written by the client
pub fn message_id_of(req: &[u8]) -> Option<String> {
    let s = std::str::from_utf8(req).ok()?;
    let i = s.find("message-id=\"")? + "message-id=\"".len();
    let j = s[i..].find('"')? + i;
    Some(s[i..j].to_string())
}
