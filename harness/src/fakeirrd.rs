//! Fake IRRd on loopback speaking the query protocol as irrc 0.1 uses it.
//!
//! The fake only knows the wire protocol: `!!` (no answer), `!n<id>` / `!t<secs>` → `C`, `!q` → close,
//! any other line → the bytes found in `table` for exactly that line.  The table is computed by the
//! Lean model (`irr serve`) from the database of the case, so every response body comes from
//! `Model/Irr.serve`.  Fault injection replaces the answer to a query by `D` / `E` / `F <msg>`,
//! selected by the index of the query within the current evaluation (`rel`, reset by the harness
//! before each evaluation and at each new connection) or by the query text.  Every (query, answer)
//! pair is logged in order.
use std::{
    collections::HashMap,
    io::{BufRead, BufReader, Write},
    net::{TcpListener, TcpStream},
    sync::{
        atomic::{AtomicBool, Ordering},
        Arc, Mutex,
    },
};

#[derive(Clone, Debug, PartialEq)]
pub enum Sel {
    Idx(usize),
    Query(String),
    /// the FIRST time this query is asked in the evaluation only (a transient fault)
    QueryOnce(String),
}

/// fault kind `Z`: the answer is the normal one, but it comes after this many milliseconds
pub static SLOW_MS: std::sync::atomic::AtomicU64 = std::sync::atomic::AtomicU64::new(3000);

#[derive(Default)]
pub struct FakeState {
    pub table: HashMap<String, Vec<u8>>,
    pub faults: Vec<(Sel, char)>,
    pub rel: usize,
    pub log: Vec<(String, Vec<u8>)>,
    pub unexpected: Vec<String>,
    pub connections: usize,
    /// fault kind `X`: from that query on the server answers everything with a line that is not an
    /// IRRd response at all (a rate limiter's banner)
    pub bad: bool,
    /// `QueryOnce` selectors that have fired
    pub fired: Vec<String>,
}

impl FakeState {
    /// start of a new evaluation: install its fault selectors, restart the relative query index
    pub fn begin(&mut self, faults: Vec<(Sel, char)>) {
        self.faults = faults;
        self.rel = 0;
        self.bad = false;
        self.fired.clear();
    }
    fn answer(&mut self, line: &str) -> Vec<u8> {
        let i = self.rel;
        self.rel += 1;
        let fired = self.fired.clone();
        let fault = self.faults.iter().find(|(s, _)| match s {
            Sel::Idx(j) => *j == i,
            Sel::Query(q) => q == line,
            Sel::QueryOnce(q) => q == line && !fired.contains(q),
        });
        let fault = fault.cloned();
        if let Some((Sel::QueryOnce(q), _)) = &fault {
            self.fired.push(q.clone());
        }
        let fault = fault.as_ref();
        if matches!(fault, Some((_, 'X'))) {
            self.bad = true;
        }
        if matches!(fault, Some((_, 'Z'))) {
            // slow, not faulty (the lock is held while sleeping: one evaluation at a time anyway)
            std::thread::sleep(std::time::Duration::from_millis(SLOW_MS.load(std::sync::atomic::Ordering::Relaxed)));
        }
        let fault = fault.filter(|(_, k)| *k != 'Z');
        if self.bad {
            let resp = b"%ERROR:201: access denied\n".to_vec();
            self.log.push((line.to_string(), resp.clone()));
            return resp;
        }
        let resp = match fault {
            Some((_, 'D')) => b"D\n".to_vec(),
            Some((_, 'E')) => b"E\n".to_vec(),
            // a long message with multi-byte characters (both byte parities): whoever shortens or
            // slices the error text must do it on a character boundary
            Some((_, _)) => {
                let pad = if i % 2 == 0 { "" } else { "x" };
                format!("F {pad}{} injected fault\n", "\u{e9}\u{20ac}".repeat(900)).into_bytes()
            }
            None => match self.table.get(line) {
                Some(r) => r.clone(),
                None => {
                    self.unexpected.push(line.to_string());
                    b"F unknown query\n".to_vec()
                }
            },
        };
        self.log.push((line.to_string(), resp.clone()));
        resp
    }
}

pub struct FakeIrrd {
    pub port: u16,
    pub state: Arc<Mutex<FakeState>>,
    stop: Arc<AtomicBool>,
}

fn serve_conn(stream: TcpStream, state: Arc<Mutex<FakeState>>) {
    let _ = stream.set_nodelay(true);
    let mut w = match stream.try_clone() {
        Ok(w) => w,
        Err(_) => return,
    };
    let mut r = BufReader::new(stream);
    let mut line = String::new();
    loop {
        line.clear();
        match r.read_line(&mut line) {
            Ok(0) | Err(_) => return,
            Ok(_) => {}
        }
        let l = line.trim_end_matches(['\r', '\n']);
        if l == "!!" {
            continue;
        }
        if l == "!q" {
            return;
        }
        let resp = if l.starts_with("!n") || l.starts_with("!t") {
            b"C\n".to_vec()
        } else {
            state.lock().unwrap().answer(l)
        };
        if w.write_all(&resp).is_err() || w.flush().is_err() {
            return;
        }
    }
}

impl FakeIrrd {
    pub fn start(table: HashMap<String, Vec<u8>>) -> FakeIrrd {
        let listener = TcpListener::bind("127.0.0.1:0").expect("bind");
        let port = listener.local_addr().unwrap().port();
        let state = Arc::new(Mutex::new(FakeState {
            table,
            ..Default::default()
        }));
        let stop = Arc::new(AtomicBool::new(false));
        let (st, sp) = (state.clone(), stop.clone());
        std::thread::spawn(move || {
            for conn in listener.incoming() {
                if sp.load(Ordering::SeqCst) {
                    break;
                }
                if let Ok(stream) = conn {
                    {
                        let mut g = st.lock().unwrap();
                        g.connections += 1;
                        g.rel = 0;
                    }
                    let st2 = st.clone();
                    std::thread::spawn(move || serve_conn(stream, st2));
                }
            }
        });
        FakeIrrd { port, state, stop }
    }

    /// a port on which nothing listens (connection refused)
    pub fn refusing_port() -> u16 {
        let l = TcpListener::bind("127.0.0.1:0").expect("bind");
        l.local_addr().unwrap().port()
    }

    pub fn begin(&self, faults: Vec<(Sel, char)>) -> usize {
        let mut g = self.state.lock().unwrap();
        g.begin(faults);
        g.log.len()
    }

    pub fn log_from(&self, start: usize) -> Vec<(String, Vec<u8>)> {
        self.state.lock().unwrap().log[start..].to_vec()
    }

    pub fn unexpected(&self) -> Vec<String> {
        self.state.lock().unwrap().unexpected.clone()
    }
}

impl Drop for FakeIrrd {
    fn drop(&mut self) {
        self.stop.store(true, Ordering::SeqCst);
        let _ = TcpStream::connect(("127.0.0.1", self.port));
    }
}
