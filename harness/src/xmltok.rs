//! Tokenise a message with quick-xml exactly as the readers do (`NsReader`, `trim_text(true)`,
//! `read_resolved_event`) and encode the event list for `modeld` (see lean/Bgpfu/Drive/Xml.lean).
use quick_xml::{
    events::{BytesStart, Event},
    name::ResolveResult,
    NsReader,
};

use crate::util::hex;

fn hs(b: &[u8]) -> String {
    hex(b)
}

fn ns_code(r: &ResolveResult) -> String {
    match r {
        ResolveResult::Bound(ns) => format!("b{}", hex(ns.as_ref())),
        ResolveResult::Unbound => "u".into(),
        ResolveResult::Unknown(_) => "k".into(),
    }
}

enum Raw {
    Start {
        enc: (String, String, String, String),
        raw: Vec<u8>,
        empty: bool,
    },
    End {
        raw: Vec<u8>,
    },
    Other(String),
}

fn attrs_code(reader: &NsReader<&[u8]>, tag: &BytesStart<'_>) -> String {
    let mut items = vec![];
    for a in tag.attributes().with_checks(false) {
        match a {
            Err(_) => {
                items.push("!".to_string());
                break; // the iterator is fused after an error for our purposes: readers stop with `?`
            }
            Ok(a) => {
                let (res, local) = reader.resolve_attribute(a.key);
                let val = match a.unescape_value() {
                    Ok(v) => format!("s{}", hs(v.as_bytes())),
                    Err(_) => "n".into(),
                };
                items.push(format!(
                    "{}/{}/{}/{}",
                    hs(a.key.as_ref()),
                    ns_code(&res),
                    hs(local.as_ref()),
                    val
                ));
            }
        }
    }
    if items.is_empty() {
        ".".into()
    } else {
        items.join(";")
    }
}

/// Event list encoding of `text`. Tokenisation continues after an error (at most 3 errors) because
/// parse phase 1 ignores the result of `read_to_end`.
pub fn tokenize(text: &str) -> String {
    let mut reader = NsReader::from_str(text);
    let _ = reader.trim_text(true);
    let mut evs: Vec<Raw> = vec![];
    let mut pos_after: Vec<usize> = vec![];
    let mut errors = 0;
    loop {
        let r = reader.read_resolved_event();
        match r {
            Err(_) => {
                evs.push(Raw::Other("X".into()));
                pos_after.push(reader.buffer_position());
                errors += 1;
                if errors >= 3 {
                    break;
                }
            }
            Ok((res, ev)) => {
                let item = match &ev {
                    Event::Start(t) | Event::Empty(t) => Raw::Start {
                        enc: (
                            ns_code(&res),
                            hs(t.local_name().as_ref()),
                            hs(t.name().as_ref()),
                            attrs_code(&reader, t),
                        ),
                        raw: t.name().as_ref().to_vec(),
                        empty: matches!(ev, Event::Empty(_)),
                    },
                    Event::End(t) => Raw::End {
                        raw: t.name().as_ref().to_vec(),
                    },
                    Event::Text(t) => Raw::Other(format!("T|{}", hs(t.as_ref()))),
                    Event::CData(_) => Raw::Other("C".into()),
                    Event::Comment(_) => Raw::Other("K".into()),
                    Event::Decl(_) => Raw::Other("D".into()),
                    Event::PI(_) => Raw::Other("P".into()),
                    Event::DocType(_) => Raw::Other("Y".into()),
                    Event::Eof => Raw::Other("Z".into()),
                };
                let eof = matches!(ev, Event::Eof);
                evs.push(item);
                pos_after.push(reader.buffer_position());
                if eof {
                    break;
                }
            }
        }
        if evs.len() > 100_000 {
            break;
        }
    }
    // spans: what `read_text` would return right after each start tag
    let mut out = Vec::with_capacity(evs.len());
    for i in 0..evs.len() {
        match &evs[i] {
            Raw::Start { enc, raw, empty } => {
                let mut span = "n".to_string();
                if !*empty {
                    let mut depth = 0usize;
                    let mut j = i + 1;
                    while j < evs.len() {
                        match &evs[j] {
                            Raw::Start {
                                raw: r2,
                                empty: false,
                                ..
                            } if r2 == raw => depth += 1,
                            Raw::End { raw: r2 } if r2 == raw => {
                                if depth == 0 {
                                    let a = pos_after[i];
                                    let b = pos_after[j - 1];
                                    if a <= b
                                        && b <= text.len()
                                        && text.is_char_boundary(a)
                                        && text.is_char_boundary(b)
                                    {
                                        span = format!("s{}", hs(text[a..b].as_bytes()));
                                    }
                                    break;
                                }
                                depth -= 1;
                            }
                            Raw::Other(s) if s == "X" || s == "Z" => break,
                            _ => {}
                        }
                        j += 1;
                    }
                }
                out.push(format!(
                    "{}|{}|{}|{}|{}|{}",
                    if *empty { "M" } else { "S" },
                    enc.0,
                    enc.1,
                    enc.2,
                    span,
                    enc.3
                ));
            }
            Raw::End { raw } => out.push(format!("E|{}", hs(raw))),
            Raw::Other(s) => out.push(s.clone()),
        }
    }
    if out.is_empty() {
        ".".into()
    } else {
        out.join(",")
    }
}

/// Distinct `read_text` spans of all start tags of `text` (inputs of the URI oracle etc.).
pub fn spans(text: &str) -> Vec<String> {
    let enc = tokenize(text);
    let mut out: Vec<String> = vec![];
    if enc == "." {
        return out;
    }
    for ev in enc.split(',') {
        let f: Vec<&str> = ev.split('|').collect();
        if f.len() == 6 && f[0] == "S" {
            if let Some(h) = f[4].strip_prefix('s') {
                if let Some(b) = crate::util::unhex(h) {
                    if let Ok(s) = String::from_utf8(b) {
                        // the readers parse the trimmed text of token-valued leaves
                        let t = s.trim().to_string();
                        if !out.contains(&s) {
                            out.push(s);
                        }
                        if !out.contains(&t) {
                            out.push(t);
                        }
                    }
                }
            }
        }
    }
    out
}

fn opt(s: Option<&str>) -> String {
    match s {
        None => "n".into(),
        Some(v) => format!("s{}", crate::util::hexs(v)),
    }
}

/// URI oracle line for `modeld`: `hex:scheme/auth/path/query/frag` or `hex:!` per span, `;`-separated.
pub fn uri_oracle(spans: &[String]) -> String {
    use iri_string::types::UriStr;
    let mut items = vec![];
    for s in spans {
        match UriStr::new(s) {
            Err(_) => items.push(format!("{}:!", crate::util::hexs(s))),
            Ok(u) => {
                let qun = u
                    .query_str()
                    .and_then(|q| quick_xml::escape::unescape(q).ok().map(|c| c.to_string()));
                items.push(format!(
                    "{}:{}/{}/{}/{}/{}/{}",
                    crate::util::hexs(s),
                    crate::util::hexs(u.scheme_str()),
                    opt(u.authority_str()),
                    crate::util::hexs(u.path_str()),
                    opt(u.query_str()),
                    opt(u.fragment().map(|f| f.as_str())),
                    opt(qun.as_deref())
                ))
            }
        }
    }
    if items.is_empty() {
        ".".into()
    } else {
        items.join(";")
    }
}
