//! C06 / C07 correspondence: the real transports' receive paths against the framing model.
//! The peer controls the segmentation of the byte stream; the harness calls `recv()` on the real
//! `RecvHandle` until it blocks (watchdog), fails, or spins (thread CPU time over the window).
use std::time::Duration;

use netconf::transport::{JunosLocal, RecvHandle, Transport};

use crate::util::*;

pub const MARKER: &[u8] = b"]]>]]>";

/// pause between two chunks written by the scripted peers (ms)
pub static GAP_MS: std::sync::atomic::AtomicU64 = std::sync::atomic::AtomicU64::new(2);
/// cancel mode (C18): every `recv()` future is dropped after this many ms without a result and a new
/// one is created, so that futures are abandoned while suspended in the middle of a message; 0 = off
pub static CANCEL_SLICE_MS: std::sync::atomic::AtomicU64 = std::sync::atomic::AtomicU64::new(0);

pub fn gap_ms() -> u64 {
    GAP_MS.load(std::sync::atomic::Ordering::Relaxed)
}

#[derive(Clone, Debug, PartialEq)]
pub enum End {
    Quiet, // peer stays connected and silent
    Eof,   // peer closes cleanly
    Abort, // peer dies / resets
    /// SSH only: the peer sends CHANNEL_EOF but neither CHANNEL_CLOSE nor a TCP close (e.g. an sshd
    /// whose subsystem process exited while a child still holds its descriptors)
    EofHold,
}

#[derive(Clone, Debug)]
pub struct Case {
    pub transport: String,
    pub chunks: Vec<Vec<u8>>,
    pub end: End,
}

/// filler for very large messages: no `>` at all, so never a delimiter
pub fn pattern(n: usize) -> Vec<u8> {
    (0..n).map(|i| if i % 97 == 96 { b']' } else { b'a' + (i % 23) as u8 }).collect()
}

/// a chunk in a descriptor: hex, or `P<k>.<hex>` = `pattern(k)` followed by the hex bytes
fn enc_chunk(c: &[u8]) -> String {
    if c.len() > 100_000 {
        let p = pattern(c.len());
        let k = c.iter().zip(p.iter()).take_while(|(a, b)| a == b).count();
        if k > 100_000 {
            return format!("P{k}.{}", hex(&c[k..]));
        }
    }
    hex(c)
}
fn dec_chunk(s: &str) -> Option<Vec<u8>> {
    match s.strip_prefix('P') {
        Some(r) => {
            let (k, h) = r.split_once('.')?;
            let mut v = pattern(k.parse().ok()?);
            v.extend(if h.is_empty() || h == "-" { vec![] } else { unhex(h)? });
            Some(v)
        }
        None => unhex(s),
    }
}

impl Case {
    pub fn descr(&self) -> String {
        format!(
            "{};{};{}",
            self.transport,
            if self.chunks.is_empty() { ".".to_string() } else { self.chunks.iter().map(|c| enc_chunk(c)).collect::<Vec<_>>().join(",") },
            match self.end {
                End::Quiet => "quiet",
                End::Eof => "eof",
                End::Abort => "abort",
                End::EofHold => "eofhold",
            }
        )
    }
    pub fn parse(s: &str) -> Option<Case> {
        let p: Vec<&str> = s.split(';').collect();
        if p.len() != 3 {
            return None;
        }
        let chunks = if p[1] == "." {
            vec![]
        } else {
            p[1].split(',').map(dec_chunk).collect::<Option<Vec<_>>>()?
        };
        let end = match p[2] {
            "quiet" => End::Quiet,
            "eof" => End::Eof,
            "abort" => End::Abort,
            "eofhold" => End::EofHold,
            _ => return None,
        };
        Some(Case {
            transport: p[0].into(),
            chunks,
            end,
        })
    }
    pub fn stream(&self) -> Vec<u8> {
        self.chunks.concat()
    }
}

#[derive(Debug, Clone)]
pub struct Obs {
    pub msgs: Vec<Vec<u8>>,
    pub end: &'static str,   // pending | err | spin
    pub again: &'static str, // - | pending | err | spin
    pub note: String,
}

fn find(h: &[u8], n: &[u8]) -> Option<usize> {
    h.windows(n.len()).position(|w| w == n)
}

pub fn well_framed(body: &[u8]) -> bool {
    let mut v = body.to_vec();
    v.extend_from_slice(MARKER);
    find(&v, MARKER) == Some(body.len())
}

/// `rx.recv()` with a deadline; in cancel mode the future is dropped and re-created every slice
async fn recv_within<R: RecvHandle>(
    rx: &mut R,
    window: Duration,
) -> Result<Result<bytes::Bytes, netconf::Error>, ()> {
    let slice = CANCEL_SLICE_MS.load(std::sync::atomic::Ordering::Relaxed);
    if slice == 0 {
        return tokio::time::timeout(window, rx.recv())
            .await
            .map_err(|_| ());
    }
    let t0 = std::time::Instant::now();
    loop {
        if let Ok(r) = tokio::time::timeout(Duration::from_millis(slice), rx.recv()).await {
            return Ok(r);
        }
        CANCELLED.fetch_add(1, std::sync::atomic::Ordering::Relaxed);
        if t0.elapsed() > window {
            return Err(());
        }
    }
}
pub static CANCELLED: std::sync::atomic::AtomicU64 = std::sync::atomic::AtomicU64::new(0);

async fn observe<R: RecvHandle>(rx: &mut R, window: Duration, max_msgs: usize) -> Obs {
    let mut msgs = vec![];
    let mut end = "pending";
    let mut again = "-";
    let mut note = String::new();
    loop {
        let c0 = thread_cpu();
        match recv_within(rx, window).await {
            Ok(Ok(b)) => {
                msgs.push(b.to_vec());
                if msgs.len() > max_msgs {
                    note = "more messages than the stream can contain".into();
                    break;
                }
            }
            Ok(Err(e)) => {
                end = "err";
                note = format!("{e}");
                let c0 = thread_cpu();
                again = match tokio::time::timeout(window, rx.recv()).await {
                    Ok(Ok(_)) => "msg",
                    Ok(Err(_)) => "err",
                    Err(_) => {
                        if thread_cpu() - c0 > window.as_secs_f64() * 0.5 {
                            "spin"
                        } else {
                            "pending"
                        }
                    }
                };
                break;
            }
            Err(_) => {
                end = if thread_cpu() - c0 > window.as_secs_f64() * 0.5 {
                    "spin"
                } else {
                    "pending"
                };
                break;
            }
        }
    }
    Obs {
        msgs,
        end,
        again,
        note,
    }
}

fn cli_script(case: &Case, gap_ms: u64) -> Vec<String> {
    let mut v = vec!["fakecli".to_string()];
    for c in &case.chunks {
        // a very large chunk does not fit into one argument: `p:<k>` queues pattern(k), the following
        // `w:` writes queue + bytes with one write_all
        let e = enc_chunk(c);
        match e.strip_prefix('P').and_then(|r| r.split_once('.')) {
            Some((k, h)) => {
                v.push(format!("p:{k}"));
                v.push(format!("w:{}", if h.is_empty() { "-" } else { h }));
            }
            None => v.push(format!("w:{}", hex(c))),
        }
        v.push(format!("s:{gap_ms}"));
    }
    match case.end {
        End::Quiet => v.push("hang".into()),
        End::Eof => v.push("eof".into()),
        // the peer closes its output and stays alive, its stderr and stdin still open (a child that
        // leaves a descendant behind, or that only shuts its stdout): end of stream all the same
        End::EofHold => {
            v.push("closeout".into());
            v.push("hang".into());
        }
        End::Abort => v.push("abort".into()),
    }
    v
}

pub fn run_case(case: &Case, window: Duration) -> Obs {
    let rt = tokio::runtime::Builder::new_current_thread()
        .enable_all()
        .build()
        .unwrap();
    let max_msgs = case.stream().len() / MARKER.len() + 1;
    rt.block_on(async {
        match case.transport.as_str() {
            "cli" => {
                let exe = std::env::current_exe().unwrap();
                let script = cli_script(case, gap_ms());
                let args: Vec<&str> = script.iter().map(|s| s.as_str()).collect();
                let t = match JunosLocal::verif_connect(exe.to_str().unwrap(), &args).await {
                    Ok(t) => t,
                    Err(e) => {
                        return Obs {
                            msgs: vec![],
                            end: "err",
                            again: "-",
                            note: format!("connect: {e}"),
                        }
                    }
                };
                let (_tx, mut rx) = t.split();
                observe(&mut rx, window, max_msgs).await
            }
            "tls" => crate::tlsserver::run_case(case, window, max_msgs).await,
            "ssh" => crate::sshserver::run_case(case, window, max_msgs).await,
            other => Obs {
                msgs: vec![],
                end: "err",
                again: "-",
                note: format!("unknown transport {other}"),
            },
        }
    })
}

pub async fn observe_dyn<R: RecvHandle>(rx: &mut R, window: Duration, max_msgs: usize) -> Obs {
    observe(rx, window, max_msgs).await
}

fn bodies() -> Vec<Vec<u8>> {
    let v: Vec<&[u8]> = vec![
        b"<a/>",
        b"",
        b"<hello xmlns=\"urn:ietf:params:xml:ns:netconf:base:1.0\"><x>]]></x></hello>",
        b"<r>]]>]] >]]</r>",
        b"<![CDATA[ ]]>]]]]><q/>",
        b"]]>]]x",
        b"<rpc-reply message-id=\"1\"><ok/></rpc-reply>\n",
        b"]",
        b"<b>]]&gt;]]&gt;</b>",
        // bodies that end in a proper prefix of the marker: the delimiter follows a partial match
        b"x]]>]]",
        b"]]>]",
        b"<c/>]]>",
        b"]]",
        b"y]]>]]]",
        // multi-byte characters (2, 3 and 4 bytes): a packet / record / read boundary may fall inside one
        "<n>Z\u{fc}rich \u{20ac} \u{1f600}</n>".as_bytes(),
    ];
    v.into_iter()
        .map(|b| b.to_vec())
        .filter(|b| well_framed(b))
        .collect()
}

fn wire(ms: &[Vec<u8>]) -> Vec<u8> {
    let mut s = vec![];
    for m in ms {
        s.extend_from_slice(m);
        s.extend_from_slice(MARKER);
    }
    s
}

fn cut(stream: &[u8], cuts: &[usize]) -> Vec<Vec<u8>> {
    let mut cs: Vec<usize> = cuts
        .iter()
        .copied()
        .filter(|&c| c > 0 && c < stream.len())
        .collect();
    cs.sort();
    cs.dedup();
    let mut out = vec![];
    let mut prev = 0;
    for c in cs {
        out.push(stream[prev..c].to_vec());
        prev = c;
    }
    out.push(stream[prev..].to_vec());
    out.into_iter().filter(|c| !c.is_empty()).collect()
}

pub fn gen_cases(transport: &str, opts: &Opts, rng: &mut Rng) -> Vec<Case> {
    let pool = bodies();
    let mut cases = vec![];
    let thorough = opts.thorough();
    // message sequences of length 1..3
    let mut seqs: Vec<Vec<Vec<u8>>> = vec![];
    for b in &pool {
        seqs.push(vec![b.clone()]);
    }
    for _ in 0..(if thorough { 30 } else { 8 }) {
        let n = 2 + rng.below(2);
        seqs.push((0..n).map(|_| rng.pick(&pool).clone()).collect());
    }
    for (si, ms) in seqs.iter().enumerate() {
        let s = wire(ms);
        // delimiter positions
        let mut ends = vec![];
        let mut off = 0;
        for m in ms {
            off += m.len() + MARKER.len();
            ends.push(off);
        }
        // (a) whole stream in one unit (k messages in one chunk)
        cases.push(Case {
            transport: transport.into(),
            chunks: vec![s.clone()],
            end: End::Quiet,
        });
        // (b) every single cut position inside and around each delimiter (the five interior ones in particular)
        for &e in &ends {
            let lo = e.saturating_sub(MARKER.len() + 1);
            for c in lo..=(e + 1).min(s.len()) {
                if si < 4 || thorough || rng.chance(1, 2) {
                    cases.push(Case {
                        transport: transport.into(),
                        chunks: cut(&s, &[c]),
                        end: End::Quiet,
                    });
                }
            }
        }
        // (c) pairs of cuts inside delimiters / random multi-cuts
        let n_multi = if thorough { 12 } else { 3 };
        for _ in 0..n_multi {
            let k = 2 + rng.below(5);
            let mut cuts = vec![];
            for _ in 0..k {
                if rng.chance(2, 3) {
                    let e = *rng.pick(&ends);
                    cuts.push(e.saturating_sub(rng.below(MARKER.len() + 1)));
                } else {
                    cuts.push(rng.below(s.len() + 1));
                }
            }
            cases.push(Case {
                transport: transport.into(),
                chunks: cut(&s, &cuts),
                end: End::Quiet,
            });
        }
        // (b') a body with bytes ≥ 0x80: EVERY cut position (the framing layer is byte-oriented; a
        //      boundary inside a multi-byte character must make no difference)
        if s.iter().any(|b| *b >= 0x80) && s.len() <= 200 {
            for c in 1..s.len() {
                cases.push(Case {
                    transport: transport.into(),
                    chunks: cut(&s, &[c]),
                    end: End::Quiet,
                });
            }
        }
        // (d) byte-by-byte for short streams
        if s.len() <= 24 {
            cases.push(Case {
                transport: transport.into(),
                chunks: s.iter().map(|b| vec![*b]).collect(),
                end: End::Quiet,
            });
        }
        // (e) C07: peer closes / aborts at chosen points: idle (after a whole message), mid-message,
        //     mid-delimiter, before anything
        let mut close_points = vec![0usize, s.len()];
        close_points.push(ends[0].saturating_sub(3));
        close_points.push(ends[0].saturating_sub(MARKER.len() + 1).max(0));
        if ms.len() > 1 {
            close_points.push(ends[0]);
            close_points.push(ends[ends.len() - 1] - 1);
        }
        if si < 6 || thorough {
            for &cp in &close_points {
                let ends: Vec<End> = if transport == "ssh" || transport == "cli" {
                    vec![End::Eof, End::Abort, End::EofHold]
                } else {
                    vec![End::Eof, End::Abort]
                };
                for end in ends {
                    let pre = &s[..cp];
                    let cuts: Vec<usize> = if pre.len() > 3 {
                        vec![rng.below(pre.len())]
                    } else {
                        vec![]
                    };
                    let chunks = if pre.is_empty() {
                        vec![]
                    } else {
                        cut(pre, &cuts)
                    };
                    cases.push(Case {
                        transport: transport.into(),
                        chunks,
                        end,
                    });
                }
            }
        }
    }
    // (h) many complete messages in one write (more than any queue between the transport task and
    //     its consumer holds), then silence
    for n in [33usize, 40, 100, 300] {
        let ms: Vec<Vec<u8>> = (0..n).map(|i| format!("<m{i}/>").into_bytes()).collect();
        cases.push(Case { transport: transport.into(), chunks: vec![wire(&ms)], end: End::Quiet });
    }
    // (g) very large messages (1 MiB + 10 bytes, 2.2 MB) immediately followed by a small one in the
    //     same write: whatever is done differently above some size must not lose the bytes read past
    //     the delimiter
    for n in [1_048_586usize, 2_200_000] {
        let mut s = pattern(n);
        s.extend_from_slice(b"z]]>]]><a/>]]>]]>");
        cases.push(Case { transport: transport.into(), chunks: vec![s.clone()], end: End::Quiet });
        let mut t = pattern(n);
        t.extend_from_slice(b"z]]>]]><rpc-reply message-id=\"2\"><ok/></rpc-reply>]]>]]><b/>]]>]]>");
        cases.push(Case { transport: transport.into(), chunks: vec![t], end: End::Quiet });
    }
    // (f) large messages: the delimiter straddles the sizes at which buffers / records / packets end
    //     (BufReader 8 KiB, TLS record 16 KiB, SSH packet 32 KiB, pipe 64 KiB)
    let sizes: Vec<usize> = if transport == "cli" {
        vec![4096, 8192, 16384, 32768]
    } else {
        vec![4096, 8192, 16384, 16385, 32768, 65536, 70000]
    };
    for &l in &sizes {
        for shift in [0usize, 3] {
            // the delimiter of the first message begins `shift` bytes before offset l
            let n = l - shift;
            let mut body: Vec<u8> = (0..n)
                .map(|i| {
                    if i % 97 == 96 {
                        b']'
                    } else {
                        b'a' + (i % 23) as u8
                    }
                })
                .collect();
            if let Some(x) = body.last_mut() {
                *x = b'z';
            }
            let s = wire(&[body, b"<a/>".to_vec()]);
            cases.push(Case {
                transport: transport.into(),
                chunks: vec![s.clone()],
                end: End::Quiet,
            });
            cases.push(Case {
                transport: transport.into(),
                chunks: cut(&s, &[l]),
                end: End::Quiet,
            });
            if shift == 3 && (thorough || l <= 16385) {
                cases.push(Case {
                    transport: transport.into(),
                    chunks: cut(&s, &[l]),
                    end: End::Eof,
                });
                cases.push(Case {
                    transport: transport.into(),
                    chunks: cut(&s[..l], &[l / 2]),
                    end: End::Eof,
                });
            }
        }
    }
    cases
}

pub fn main(opts: &Opts) {
    let mut rng = Rng::new(opts.seed);
    let mut sink = Sink::new();
    let mut transports: Vec<String> = opts
        .extra
        .iter()
        .filter(|e| ["cli", "tls", "ssh"].contains(&e.as_str()))
        .cloned()
        .collect();
    if transports.is_empty() {
        transports = vec!["cli".into(), "tls".into(), "ssh".into()];
    }
    let window = Duration::from_millis(if opts.thorough() { 1500 } else { 400 });
    let mut cases = vec![];
    if let Some(p) = &opts.replay {
        for l in std::fs::read_to_string(p).unwrap().lines() {
            if let Some(d) = l.strip_prefix("case\t") {
                if let Some(c) = Case::parse(d.split('\t').next().unwrap()) {
                    cases.push(c);
                }
            }
        }
    } else {
        for t in &transports {
            let mut r = Rng::new(rng.next());
            cases.extend(gen_cases(t, opts, &mut r));
        }
    }
    if opts.replay.is_none() {
        if opts.extra.iter().any(|e| e == "only-open") {
            cases.retain(|c| c.end == End::Quiet);
        }
        if opts.extra.iter().any(|e| e == "only-close") {
            cases.retain(|c| c.end != End::Quiet);
        }
        if opts.extra.iter().any(|e| e == "only-huge") {
            // C14: a reply larger than any plausible limit, directly followed by the next reply
            cases.retain(|c| c.stream().len() > 500_000);
        }
        if opts.extra.iter().any(|e| e == "only-cancel") {
            // C18 at the transport: reply futures are abandoned while suspended in the middle of a message
            cases.retain(|c| c.end == End::Quiet && c.chunks.len() >= 2 && c.stream().len() < 4096);
        }
    }
    if cases.iter().any(|c| c.transport == "tls") {
        crate::tlsserver::init();
    }
    let cancel_mode =
        opts.extra.iter().any(|e| e == "only-cancel") || std::env::var("VH_FRAME_CANCEL").is_ok();
    if cancel_mode {
        GAP_MS.store(12, std::sync::atomic::Ordering::Relaxed);
        CANCEL_SLICE_MS.store(3, std::sync::atomic::Ordering::Relaxed);
    }
    let jobs: Vec<Case> = cases.clone();
    let t0 = std::time::Instant::now();
    // thread-level watchdog: a receive loop that spins inside one poll never returns to the runtime, so
    // the async timeout in `observe` cannot fire; such a case is reported as `spin`, its thread abandoned
    let limit = std::cmp::max(Duration::from_secs(15), window * 10);
    let obs = run_pool_watchdog_opt(jobs, 16, limit, 8, move |c| run_case(&c, window));
    let mut skipped = 0u64;
    let obs: Vec<Option<Obs>> = obs
        .into_iter()
        .map(|r| match r {
            Ok(o) => Some(o),
            Err(Stuck::Timeout) => Some(Obs {
                msgs: vec![],
                end: "spin",
                again: "-",
                note: format!(
                    "recv() did not return to the runtime within {}s (thread watchdog)",
                    limit.as_secs()
                ),
            }),
            Err(Stuck::Skipped) => {
                skipped += 1;
                None
            }
        })
        .collect();
    sink.add("skipped_after_8_spinning_threads", skipped);
    for (c, o) in cases.iter().zip(obs) {
        let Some(o) = o else { continue };
        let d = c.descr();
        if c.stream().len() > 500_000 {
            // very large messages: the verdict is computed here (greedy split of the stream), the rows
            // would otherwise carry megabytes of hex
            let s = c.stream();
            let mut want: Vec<Vec<u8>> = vec![];
            let mut from = 0;
            while let Some(i) = find(&s[from..], MARKER) {
                want.push(s[from..from + i + MARKER.len()].to_vec());
                from += i + MARKER.len();
            }
            let verdict = if o.msgs == want && o.end == "pending" {
                "ok".to_string()
            } else if o.msgs.len() < want.len() && o.msgs[..] == want[..o.msgs.len()] {
                format!("violation undelivered-message-{}-of-{}", o.msgs.len(), want.len())
            } else {
                format!("violation wrong-split-end-{}", o.end)
            };
            sink.direct(&d, verdict);
            sink.count(&format!("transport.{}", c.transport));
            sink.count("very-large-message");
            continue;
        }
        let state = match c.end {
            End::Quiet => "open",
            End::Eof | End::EofHold => "closed",
            End::Abort => "aborted",
        };
        // after an abortive close the bytes the client saw are not determined by the script
        let complete = c.end != End::Abort
            || o.msgs.concat().len() + crate::frame::MARKER.len() > c.stream().len();
        let is_ssh = c.transport == "ssh";
        let impl_obs = format!("msgs={} end={} again={}", hexlist(&o.msgs), o.end, o.again);
        if is_ssh {
            let mut evs: Vec<String> = c.chunks.iter().map(|b| format!("d{}", hex(b))).collect();
            match c.end {
                End::Quiet => {}
                End::Eof | End::EofHold => evs.push("e".into()),
                End::Abort => evs.push("c".into()),
            }
            if complete {
                sink.corr(
                    &d,
                    format!("frame pumpobs fixed {}", list(&evs)),
                    impl_obs.clone(),
                );
            }
        } else {
            let mut rs: Vec<String> = c.chunks.iter().map(|b| format!("d{}", hex(b))).collect();
            match c.end {
                End::Quiet => {}
                End::Eof | End::EofHold => rs.push("e".into()),
                End::Abort => rs.push("x".into()),
            }
            if complete {
                sink.corr(
                    &d,
                    format!("frame recvobs fixed {}", list(&rs)),
                    impl_obs.clone(),
                );
            }
        }
        sink.spec(
            &d,
            format!(
                "frame spec {} {} {} {} {}",
                hex(&c.stream()),
                state,
                hexlist(&o.msgs),
                o.end,
                o.again
            ),
        );
        sink.count(&format!("transport.{}", c.transport));
        sink.count(&format!("end.{:?}", c.end));
        sink.count(&format!("chunks.{}", c.chunks.len().min(8)));
        sink.count(&format!("observed.{}", o.end));
        sink.sample(format!("{d} -> {impl_obs}"));
        if !o.note.is_empty() && o.end == "err" {
            sink.count("with_error_text");
        }
    }
    if cancel_mode {
        sink.add(
            "recv_futures_dropped_unfinished",
            CANCELLED.load(std::sync::atomic::Ordering::Relaxed),
        );
        sink.notes.push("cancel mode: every recv() future is dropped after 3 ms without a result and re-created; the peers pause 12 ms between chunks".into());
    }
    sink.add("wall_ms", t0.elapsed().as_millis() as u64);
    sink.write(opts, "frame");
}
