//! C14 for inputs whose SIZE is in their nesting depth: well-formed replies with elements nested
//! tens of thousands to a million levels deep, through the real readers. A reader that recurses on
//! server-supplied structure dies with a stack overflow — no panic to catch, the process is gone — so
//! every case runs in a child process of its own (`vh deepone <kind> <depth>`, the reader on a thread
//! with the 2 MiB stack of a tokio worker) and the parent judges the exit status.
use std::{
    process::{Command, Stdio},
    time::{Duration, Instant},
};

use crate::{memtransport as mt, reply, util::*};

const KINDS: [&str; 7] = [
    "cands-unannotated",
    "cands-annotated",
    "cands-then",
    "installed",
    "reply-data",
    "reply-errinfo",
    "hello",
];

fn nest(name: &str, depth: usize, leaf: &str) -> String {
    let mut s = String::with_capacity(depth * (2 * name.len() + 5) + leaf.len());
    for _ in 0..depth {
        s.push('<');
        s.push_str(name);
        s.push('>');
    }
    s.push_str(leaf);
    for _ in 0..depth {
        s.push_str("</");
        s.push_str(name);
        s.push('>');
    }
    s
}

fn doc(kind: &str, depth: usize) -> String {
    const X: &str = "http://xml.juniper.net/xnm/1.1/xnm";
    const J: &str = "xmlns:jcmd=\"http://yang.juniper.net/junos/jcmd\" jcmd:comment=\"/* bgpfu-fltr: AS65000 */\"";
    let conf = |stmts: &str| {
        format!(
            "<rpc-reply xmlns=\"{}\" message-id=\"1\"><data><configuration xmlns=\"{X}\"><policy-options>{stmts}</policy-options></configuration></data></rpc-reply>",
            mt::BASE_NS
        )
    };
    match kind {
        "cands-unannotated" => conf(&format!(
            "<policy-statement><name>a</name>{}</policy-statement><policy-statement {J}><name>b</name><then><reject/></then></policy-statement>",
            nest("term", depth, "<name>t</name>")
        )),
        "cands-annotated" => conf(&format!(
            "<policy-statement {J}><name>a</name>{}<then><reject/></then></policy-statement>",
            nest("x", depth, "y")
        )),
        "cands-then" => conf(&format!(
            "<policy-statement {J}><name>a</name><then>{}<reject/></then></policy-statement>",
            nest("metric", depth, "1")
        )),
        "installed" => conf(&format!(
            "<policy-statement><name>a</name><term><name>inet</name><from><family>inet</family>{}</from><then><accept/></then></term><then><reject/></then></policy-statement>",
            nest("x", depth, "y")
        )),
        "reply-data" => format!(
            "<rpc-reply xmlns=\"{}\" message-id=\"ID\"><data>{}</data></rpc-reply>]]>]]>",
            mt::BASE_NS,
            nest("a", depth, "1")
        ),
        "reply-errinfo" => format!(
            "<rpc-reply xmlns=\"{}\" message-id=\"ID\"><rpc-error><error-type>protocol</error-type><error-tag>operation-failed</error-tag><error-severity>error</error-severity><error-info>{}</error-info></rpc-error></rpc-reply>]]>]]>",
            mt::BASE_NS,
            nest("bad-element", depth, "x")
        ),
        _ => format!(
            "<hello xmlns=\"{}\"><capabilities><capability>{}</capability>{}</capabilities><session-id>4</session-id></hello>]]>]]>",
            mt::BASE_NS,
            mt::CAP_BASE10,
            nest("capability", depth, "urn:x:y")
        ),
    }
}

/// child: run one reader on one document; print its outcome class
pub fn one(kind: &str, depth: usize) {
    let kind = kind.to_string();
    let h = std::thread::Builder::new()
        .stack_size(2 << 20)
        .spawn(move || {
            let text = doc(&kind, depth);
            let r = std::panic::catch_unwind(std::panic::AssertUnwindSafe(|| match kind.as_str() {
                "cands-unannotated" | "cands-annotated" | "cands-then" => match agent::verif::read_candidates(&text) {
                    Ok(v) => format!("ok:{}", v.len()),
                    Err(_) => "err".to_string(),
                },
                "installed" => match agent::verif::read_installed(&text) {
                    Ok(v) => format!("ok:{}", v.len()),
                    Err(_) => "err".to_string(),
                },
                "reply-data" | "reply-errinfo" => {
                    let rt = tokio::runtime::Builder::new_current_thread().enable_all().build().unwrap();
                    let t = text.clone();
                    let out = rt.block_on(reply::outcome("data", move |id| t.replace("message-id=\"ID\"", &format!("message-id=\"{id}\""))));
                    out.split(':').next().unwrap_or("").to_string()
                }
                _ => {
                    let rt = tokio::runtime::Builder::new_current_thread().enable_all().build().unwrap();
                    let (out, _) = rt.block_on(crate::hello::establish(&text));
                    out.split(' ').next().unwrap_or("").to_string()
                }
            }));
            r.unwrap_or_else(|_| "panic".to_string())
        })
        .unwrap();
    let out = h.join().unwrap_or_else(|_| "thread-died".to_string());
    println!("OUTCOME {out}");
}

pub fn main(opts: &Opts) {
    let mut sink = Sink::new();
    let mut cases: Vec<(String, usize)> = vec![];
    if let Some(p) = &opts.replay {
        for l in std::fs::read_to_string(p).unwrap_or_default().lines() {
            if let Some(d) = l.strip_prefix("case\t") {
                let d = d.split('\t').next().unwrap_or("");
                let f: Vec<&str> = d.split(';').collect();
                if f.len() == 3 {
                    if let Ok(n) = f[2].parse() {
                        cases.push((f[1].to_string(), n));
                    }
                }
            }
        }
    } else {
        let depths: &[usize] = if opts.thorough() { &[1_000, 10_000, 100_000, 1_000_000] } else { &[1_000, 20_000, 200_000] };
        for k in KINDS {
            for &d in depths {
                cases.push((k.to_string(), d));
            }
        }
    }
    let exe = std::env::current_exe().unwrap();
    let jobs: Vec<(String, usize)> = cases.clone();
    let results = run_pool(jobs, 8, move |(kind, depth): (String, usize)| {
        let t0 = Instant::now();
        let child = Command::new(&exe)
            .args(["deepone", &kind, &depth.to_string()])
            .stdin(Stdio::null())
            .stdout(Stdio::piped())
            .stderr(Stdio::null())
            .spawn();
        let Ok(mut child) = child else {
            return "spawn-failed".to_string();
        };
        loop {
            if let Ok(Some(_)) = child.try_wait() {
                break;
            }
            if t0.elapsed() > Duration::from_secs(120) {
                let _ = child.kill();
                let _ = child.wait();
                return "timeout".to_string();
            }
            std::thread::sleep(Duration::from_millis(5));
        }
        let o = child.wait_with_output().unwrap();
        let text = String::from_utf8_lossy(&o.stdout).to_string();
        match (o.status.code(), text.lines().find_map(|l| l.strip_prefix("OUTCOME "))) {
            (Some(0), Some(out)) => out.to_string(),
            (code, _) => format!("killed:{}", code.map(|c| c.to_string()).unwrap_or_else(|| "signal".into())),
        }
    });
    for ((kind, depth), out) in cases.iter().zip(results) {
        let case = format!("deep;{kind};{depth}");
        let verdict = if out.starts_with("killed") {
            "violation process-dies-on-deeply-nested-input".to_string()
        } else if out == "timeout" {
            "violation reader-does-not-return-on-deeply-nested-input".to_string()
        } else if out == "panic" || out == "thread-died" || out == "spawn-failed" {
            format!("violation {out}-on-deeply-nested-input")
        } else {
            "ok".to_string()
        };
        sink.count(&format!("outcome.{}", out.split(':').next().unwrap_or("")));
        sink.sample(format!("{case} -> {out}"));
        sink.direct(&case, verdict);
    }
    sink.write(opts, "deep");
}
