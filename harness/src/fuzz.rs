//! C14: mutated / arbitrary bytes as hello or reply through the real Session (hook H1).
//! Outcome ∈ {value, err, panic, timeout}; for valid UTF-8 inputs the outcome is also compared
//! with the reader model run on quick-xml's events of the same text.
use std::{panic::AssertUnwindSafe, time::Duration};

use netconf::message::rpc::operation::{Builder, Get};

use crate::{hello, memtransport as mt, reply, util::*, xmltok};

fn mutate(base: &[u8], rng: &mut Rng) -> Vec<u8> {
    let mut v = base.to_vec();
    let n = 1 + rng.below(3);
    for _ in 0..n {
        if v.is_empty() {
            v.extend_from_slice(b"<");
            continue;
        }
        match rng.below(12) {
            0 => {
                let p = rng.below(v.len() + 1);
                v.truncate(p);
            }
            1 => {
                let a = rng.below(v.len());
                let b = (a + 1 + rng.below(20)).min(v.len());
                v.drain(a..b);
            }
            2 => {
                let a = rng.below(v.len());
                let b = (a + 1 + rng.below(40)).min(v.len());
                let seg = v[a..b].to_vec();
                let p = rng.below(v.len() + 1);
                for (i, x) in seg.into_iter().enumerate() {
                    v.insert(p + i, x);
                }
            }
            3 => {
                let p = rng.below(v.len());
                v[p] ^= 1 << rng.below(8);
            }
            4 => {
                let p = rng.below(v.len() + 1);
                let ins: &[u8] = *rng.pick(&[
                    &b"<"[..],
                    b">",
                    b"&",
                    b"]]>",
                    b"]]>]]>",
                    b"\xff",
                    b"\xc3",
                    b"<!--",
                    b"<![CDATA[",
                    b"<?xml?>",
                    b"&#0;",
                    b"\"",
                    b"'",
                    b"</rpc-reply>",
                    b"<rpc-reply>",
                ]);
                for (i, x) in ins.iter().enumerate() {
                    v.insert(p + i, *x);
                }
            }
            5 => {
                // huge number in place of the first digit run
                if let Some(a) = v.iter().position(|c| c.is_ascii_digit()) {
                    let b = v[a..]
                        .iter()
                        .position(|c| !c.is_ascii_digit())
                        .map(|x| a + x)
                        .unwrap_or(v.len());
                    let big = *rng.pick(&[
                        &b"99999999999999999999999999999999999999"[..],
                        b"18446744073709551616",
                        b"-1",
                        b"4294967296",
                        b"0",
                        b"1e9",
                        b" 7 ",
                    ]);
                    v.splice(a..b, big.iter().copied());
                }
            }
            6 => {
                // wrong namespace
                let s = String::from_utf8_lossy(&v).replace(
                    "urn:ietf:params:xml:ns:netconf:base:1.0",
                    "urn:example:other",
                );
                v = s.into_bytes();
            }
            7 => {
                // duplicate an element
                let s = String::from_utf8_lossy(&v).to_string();
                if let (Some(a), Some(b)) = (s.find("<rpc-error>"), s.find("</rpc-error>")) {
                    if a < b {
                        let seg = s[a..b + 12].to_string();
                        let mut t = s.clone();
                        t.insert_str(a, &seg);
                        v = t.into_bytes();
                    }
                } else if let Some(a) = s.find("<ok/>") {
                    let mut t = s.clone();
                    t.insert_str(a, "<ok/>");
                    v = t.into_bytes();
                }
            }
            8 => {
                // deep nesting
                let d = 50 + rng.below(400);
                let mut t = Vec::new();
                for _ in 0..d {
                    t.extend_from_slice(b"<a>");
                }
                let p = rng.below(v.len() + 1);
                for (i, x) in t.into_iter().enumerate() {
                    v.insert(p + i, x);
                }
            }
            9 => {
                v.reverse();
            }
            10 => {
                let p = rng.below(v.len());
                let b = [0u8, 9, 10, 13, 0x7f, 0xfe, b'<', b'>'];
                v[p] = *rng.pick(&b);
            }
            _ => {
                // splice with another message
                let other = b"<hello xmlns=\"urn:ietf:params:xml:ns:netconf:base:1.0\"><capabilities/></hello>";
                let p = rng.below(v.len() + 1);
                let q = rng.below(other.len());
                v.truncate(p);
                v.extend_from_slice(&other[q..]);
            }
        }
    }
    v
}

/// Long but VALID messages: a comment after the root start tag pads the message so that a multi-byte
/// UTF-8 character starts just before, on, or straddles byte offset `B` for the sizes at which code
/// tends to cut text (buffers, log excerpts): a byte-indexed slice of the text panics there.
fn long_variants(seed: &str, big: bool) -> Vec<Vec<u8>> {
    let mut out = vec![];
    let Some(gt) = seed.find('>') else { return out };
    let head = &seed[..gt + 1];
    let tail = &seed[gt + 1..];
    let mut bounds: Vec<usize> = vec![64, 100, 128, 255, 256, 500, 512, 1000, 1024, 2048, 4096];
    if big {
        bounds.extend([8192, 10_000, 16_384, 32_768, 65_536]);
    }
    for &b in &bounds {
        let pre = head.len() + 4; // `<!--`
        if b < pre + 4 {
            continue;
        }
        for ch in ["\u{e9}", "\u{20ac}", "\u{1f600}"] {
            let w = ch.len();
            // the character starts at b-w+1 … b-1 (straddling b), and at b (aligned: control)
            for start in (b + 1 - w)..=b {
                let pad = start - pre;
                let mut v = Vec::with_capacity(seed.len() + pad + 16);
                v.extend_from_slice(head.as_bytes());
                v.extend_from_slice(b"<!--");
                v.extend(std::iter::repeat(b'a').take(pad));
                v.extend_from_slice(ch.as_bytes());
                v.extend_from_slice(b" -->");
                v.extend_from_slice(tail.as_bytes());
                out.push(v);
            }
        }
    }
    out
}

/// Every text node of a valid message replaced, one at a time, by texts a lenient tokenizer lets
/// through but a reader that resolves references chokes on (stray `&`, undefined / unterminated /
/// out-of-range references), and by markup-like text. Random byte mutations almost always break the
/// structure first; these keep it intact.
fn text_variants(seed: &str) -> Vec<Vec<u8>> {
    const NASTY_BYTES: [&[u8]; 4] = [b"r\xe9seau", b"\xff", b"\xc3", b"\xed\xa0\x80"];
    const NASTY: [&str; 16] = [
        "a&b",
        "&nbsp;",
        "&#0;",
        "&#99999999999;",
        "&amp",
        "&;",
        "&#x;",
        "&#xD800;",
        "&#-1;",
        "[name=\"R&D-IMPORT\"]",
        "&amp;&lt;&gt;&apos;&quot;",
        "&#38;#38;",
        "<![CDATA[x&y]]>",
        "",
        " ",
        "\u{feff}x",
    ];
    let b = seed.as_bytes();
    let mut out = vec![];
    if let Some(gt) = seed.find('>') {
        for c in [&b"<!-- r\xe9seau -->"[..], b"<!-- \xff\xfe -->", b"<!-- R&D lab, rack 4 &nbsp; -->", b"<!-- a -- b -->"] {
            let mut v = b[..gt + 1].to_vec();
            v.extend_from_slice(c);
            v.extend_from_slice(&b[gt + 1..]);
            out.push(v);
            let mut v = c.to_vec();
            v.extend_from_slice(b);
            out.push(v);
            if let Some(m) = seed.rfind("]]>]]>") {
                let mut v = b[..m].to_vec();
                v.extend_from_slice(c);
                v.extend_from_slice(&b[m..]);
                out.push(v);
            }
        }
    }
    let mut i = 0;
    while i < b.len() {
        if b[i] == b'>' && i + 1 < b.len() && b[i + 1] != b'<' && b[i + 1] != b']' {
            let start = i + 1;
            let end = start + b[start..].iter().position(|c| *c == b'<').unwrap_or(b.len() - start);
            for t in NASTY {
                let mut v = b[..start].to_vec();
                v.extend_from_slice(t.as_bytes());
                v.extend_from_slice(&b[end..]);
                out.push(v);
            }
            for t in NASTY_BYTES {
                let mut v = b[..start].to_vec();
                v.extend_from_slice(t);
                v.extend_from_slice(&b[end..]);
                out.push(v);
            }
            i = end;
        } else {
            i += 1;
        }
    }
    out
}

fn seeds_reply(kind: &str) -> Vec<String> {
    use reply::Child::*;
    let e = |sev: &'static str| Err {
        ty: "protocol",
        tag: "operation-failed",
        sev,
        extra: 15,
    };
    let docs: Vec<Vec<reply::Child>> = match kind {
        "empty" => vec![vec![Ok], vec![e("error"), e("warning")], vec![Comment, Ok]],
        "data" => vec![
            vec![Data("<configuration><a>1</a></configuration>")],
            vec![e("error")],
        ],
        "bare" => vec![vec![], vec![e("error")]],
        _ => vec![
            vec![Results(vec![Ok])],
            vec![Results(vec![e("warning"), Ok])],
            vec![Results(vec![e("error"), Count(1)])],
        ],
    };
    docs.iter().map(|d| reply::doc_xml("1", d)).collect()
}

/// single request of reply kind `kind` answered with raw bytes
async fn outcome_bytes(kind: &str, bytes: Vec<u8>) -> String {
    // the reply grammar helper patches the message-id into the document; here the id is always "1"
    // (first request of a fresh session), so the raw bytes can be injected unchanged
    let b2 = bytes.clone();
    reply::outcome_raw(kind, move |_id| b2.clone()).await
}

pub fn main(opts: &Opts) {
    let mut rng = Rng::new(opts.seed);
    let mut sink = Sink::new();
    let n = if opts.thorough() { 40_000 } else { 1_200 };
    // ---- scenario A: one request, mutated reply -------------------------------------------------
    let mut jobs: Vec<(String, Vec<u8>)> = vec![];
    for kind in reply::KINDS {
        let seeds = seeds_reply(kind);
        for s in &seeds {
            // truncation at every byte of every seed (exhaustive), with and without a trailing delimiter
            for p in 0..s.len() {
                jobs.push((kind.to_string(), s.as_bytes()[..p].to_vec()));
                if p % 3 == 0 || s.as_bytes()[p] == b'<' {
                    let mut t = s.as_bytes()[..p].to_vec();
                    t.extend_from_slice(b"]]>]]>");
                    jobs.push((kind.to_string(), t));
                }
            }
        }
        for _ in 0..n {
            let s = rng.pick(&seeds);
            jobs.push((kind.to_string(), mutate(s.as_bytes(), &mut rng)));
        }
        for (i, s) in seeds.iter().enumerate() {
            for v in long_variants(s, i == 0) {
                jobs.push((kind.to_string(), v));
            }
            for v in text_variants(s) {
                jobs.push((kind.to_string(), v));
            }
        }
    }
    let results = run_pool_watchdog(
        jobs.clone(),
        16,
        Duration::from_secs(8),
        "timeout".to_string(),
        |(kind, bytes)| {
            let r = std::panic::catch_unwind(AssertUnwindSafe(|| {
                let rt = tokio::runtime::Builder::new_current_thread()
                    .enable_all()
                    .build()
                    .unwrap();
                rt.block_on(outcome_bytes(&kind, bytes))
            }));
            r.unwrap_or_else(|_| "panic".to_string())
        },
    );
    for ((kind, bytes), out) in jobs.iter().zip(results) {
        let case = format!("reply;{kind};{}", hex(bytes));
        let class = out.split(':').next().unwrap().to_string();
        // a message that is not valid UTF-8 is not a well-formed document: never a value
        let not_text = std::str::from_utf8(bytes).is_err();
        let verdict = match class.as_str() {
            "ok" | "data" | "rpcerr" if not_text => format!("violation {class}-from-a-reply-that-is-not-utf8"),
            "ok" | "data" | "rpcerr" | "err" => "ok".to_string(),
            other => format!("violation {other}-on-garbage-reply"),
        };
        sink.direct(&case, verdict);
        if let Ok(text) = std::str::from_utf8(bytes) {
            sink.corr(
                &case,
                format!("xml reply-for fixed {kind} 1 {}", xmltok::tokenize(text)),
                out.clone(),
            );
            sink.count("reply.utf8");
        } else {
            sink.count("reply.not-utf8");
        }
        sink.count(&format!("reply.outcome.{class}"));
        if sink.samples.len() < 4 && bytes.len() < 120 {
            sink.sample(format!(
                "{kind}: {:?} -> {out}",
                String::from_utf8_lossy(bytes)
            ));
        }
    }
    // ---- scenario A': mutated hello ---------------------------------------------------------------
    let hello_seed = mt::hello(
        &[
            mt::CAP_BASE10,
            mt::CAP_BASE11,
            "urn:ietf:params:netconf:capability:url:1.0?scheme=http,ftp",
            mt::CAP_JUNOS,
        ],
        4242,
    );
    let mut hjobs: Vec<Vec<u8>> = (0..hello_seed.len())
        .map(|p| hello_seed.as_bytes()[..p].to_vec())
        .collect();
    for _ in 0..n {
        hjobs.push(mutate(hello_seed.as_bytes(), &mut rng));
    }
    hjobs.extend(long_variants(&hello_seed, true));
    hjobs.extend(text_variants(&hello_seed));
    let hres = run_pool_watchdog(
        hjobs.clone(),
        16,
        Duration::from_secs(8),
        "timeout".to_string(),
        |bytes| {
            let r = std::panic::catch_unwind(AssertUnwindSafe(|| {
                let rt = tokio::runtime::Builder::new_current_thread()
                    .enable_all()
                    .build()
                    .unwrap();
                rt.block_on(async {
                    let (t, peer) = mt::new();
                    peer.deliver(bytes);
                    match tokio::time::timeout(
                        Duration::from_secs(5),
                        netconf::Session::verif_new(t),
                    )
                    .await
                    {
                        Err(_) => "timeout".to_string(),
                        Ok(r) => hello::show_session(&r),
                    }
                })
            }));
            r.unwrap_or_else(|_| "panic".to_string())
        },
    );
    for (bytes, out) in hjobs.iter().zip(hres) {
        let case = format!("hello;{}", hex(bytes));
        let class = out.split(' ').next().unwrap().to_string();
        sink.direct(
            &case,
            if class == "ok" && std::str::from_utf8(bytes).is_err() {
                "violation session-established-from-a-hello-that-is-not-utf8".into()
            } else if class == "ok" || class == "err" {
                "ok".into()
            } else {
                format!("violation {class}-on-garbage-hello")
            },
        );
        if let Ok(text) = std::str::from_utf8(bytes) {
            let spans = xmltok::spans(text);
            sink.corr(
                &case,
                format!(
                    "xml hello fixed 0 {} {}",
                    xmltok::uri_oracle(&spans),
                    xmltok::tokenize(text)
                ),
                out.clone(),
            );
        }
        sink.count(&format!("hello.outcome.{class}"));
    }
    // ---- scenario B: three outstanding requests, one answered with garbage -------------------------
    let nb = if opts.thorough() { 6000 } else { 300 };
    let mut bjobs = vec![];
    for _ in 0..nb {
        let k = rng.below(3);
        let seed = rng.pick(&seeds_reply("data")).clone();
        let garbage = mutate(seed.as_bytes(), &mut rng);
        let mut order = vec![0usize, 1, 2];
        rng.shuffle(&mut order);
        bjobs.push((k, garbage, order));
    }
    // frame-level anomalies in place of the garbage: every frame is a well-formed reply, but it is a
    // second reply for another outstanding request, a reply for no request at all, or request k's own
    // reply sent twice — every k × every arrival order (exhaustive)
    for kind in [
        "@dup-other",
        "@unknown-id",
        "@dup-self",
        "@dup-other-different",
        "@dup-other-truncated",
        // a reply for NO request whose id is another request's id plus 2^32 / 2^64: ids are compared
        // as the numbers they are, not modulo a machine word
        "@wide-id-32",
        "@wide-id-64",
    ] {
        for k in 0..3usize {
            for order in [
                [0usize, 1, 2],
                [0, 2, 1],
                [1, 0, 2],
                [1, 2, 0],
                [2, 0, 1],
                [2, 1, 0],
            ] {
                bjobs.push((k, kind.as_bytes().to_vec(), order.to_vec()));
            }
        }
    }
    let bres = run_pool_watchdog(
        bjobs.clone(),
        16,
        Duration::from_secs(12),
        vec!["timeout".to_string()],
        |(k, garbage, order)| {
            let r = std::panic::catch_unwind(AssertUnwindSafe(|| {
                let rt = tokio::runtime::Builder::new_current_thread()
                    .enable_all()
                    .build()
                    .unwrap();
                rt.block_on(async {
                    let (s, peer) = mt::session_with_hello(&mt::hello(&[mt::CAP_BASE10], 4)).await;
                    let mut s = s.unwrap();
                    let mut futs = vec![];
                    for _ in 0..3 {
                        futs.push(Box::pin(s.rpc::<Get, _>(|b| b.finish()).await.unwrap()));
                    }
                    let sent = peer.sent();
                    let ids: Vec<String> = sent[1..]
                        .iter()
                        .map(|m| mt::message_id_of(m).unwrap())
                        .collect();
                    for &i in &order {
                        if i == k && garbage.starts_with(b"@") {
                            let other = (k + 1) % 3;
                            match garbage.as_slice() {
                                b"@dup-other" => peer.deliver(reply::doc_xml(
                                    &ids[other],
                                    &[reply::Child::Data(["<a/>", "<b/>", "<c/>"][other])],
                                )),
                                b"@unknown-id" => peer.deliver(reply::doc_xml(
                                    "999999",
                                    &[reply::Child::Data("<z/>")],
                                )),
                                b"@wide-id-32" | b"@wide-id-64" => {
                                    let n: u128 = ids[other].parse().unwrap_or(1);
                                    let wide = if garbage.as_slice() == b"@wide-id-32" { n + (1u128 << 32) } else { n + (1u128 << 64) };
                                    peer.deliver(reply::doc_xml(&wide.to_string(), &[reply::Child::Data("<z/>")]))
                                }
                                // a second message bearing another request's id, with other content:
                                // whoever reads it may fail, the first (genuine) reply must still
                                // reach its owner
                                b"@dup-other-different" => peer.deliver(reply::doc_xml(
                                    &ids[other],
                                    &[reply::Child::Data("<z/>")],
                                )),
                                b"@dup-other-truncated" => {
                                    let full = reply::doc_xml(&ids[other], &[reply::Child::Data("<z/>")]);
                                    let cut = full.find("<data").unwrap_or(full.len() / 2) + 5;
                                    peer.deliver(format!("{}]]>]]>", &full[..cut]));
                                }
                                _ => {
                                    peer.deliver(reply::doc_xml(
                                        &ids[k],
                                        &[reply::Child::Data(["<a/>", "<b/>", "<c/>"][k])],
                                    ));
                                    peer.deliver(reply::doc_xml(
                                        &ids[k],
                                        &[reply::Child::Data(["<a/>", "<b/>", "<c/>"][k])],
                                    ));
                                }
                            }
                        } else if i == k {
                            // keep the garbage addressed to request k if it still carries "message-id=\"1\""
                            let g = String::from_utf8_lossy(&garbage)
                                .replace("message-id=\"1\"", &format!("message-id=\"{}\"", ids[k]));
                            if std::str::from_utf8(&garbage).is_ok() {
                                peer.deliver(g)
                            } else {
                                peer.deliver(garbage.clone())
                            }
                        } else {
                            peer.deliver(reply::doc_xml(
                                &ids[i],
                                &[reply::Child::Data(["<a/>", "<b/>", "<c/>"][i])],
                            ));
                        }
                    }
                    peer.close();
                    let mut outs = vec![];
                    for f in futs.iter_mut() {
                        outs.push(
                            match tokio::time::timeout(Duration::from_secs(5), f).await {
                                Err(_) => "timeout".to_string(),
                                Ok(Ok(v)) => format!("data:{v}"),
                                Ok(Err(_)) => "err".to_string(),
                            },
                        );
                    }
                    outs
                })
            }));
            r.unwrap_or_else(|_| vec!["panic".to_string()])
        },
    );
    for ((k, garbage, order), outs) in bjobs.iter().zip(bres) {
        let case = format!(
            "multi;{k};{};{}",
            hex(garbage),
            order
                .iter()
                .map(|o| o.to_string())
                .collect::<Vec<_>>()
                .join("")
        );
        let mut verdict = "ok".to_string();
        if outs.iter().any(|o| o == "panic") {
            verdict = "violation panic-multi".into();
        } else if outs.iter().any(|o| o == "timeout") {
            verdict = "violation hang-multi".into();
        } else if garbage.starts_with(b"@dup-other-") {
            // two different messages bear the id of request `other`: the first to arrive is its reply
            // (a truncated one makes it fail), the second makes whoever reads it fail; the third
            // request is either that reader or gets exactly its own reply
            let other = (k + 1) % 3;
            let third = 3 - k - other;
            let genuine = |i: usize| format!("data:{}", ["<a/>", "<b/>", "<c/>"][i]);
            let pos = |x: usize| order.iter().position(|o| *o == x).unwrap_or(0);
            let dup_first = pos(*k) < pos(other);
            let want_other: Vec<String> = if !dup_first {
                vec![genuine(other)]
            } else if garbage.as_slice() == b"@dup-other-different" {
                vec!["data:<z/>".to_string()]
            } else {
                vec!["err".to_string()]
            };
            if !want_other.contains(&outs[other]) {
                verdict = "violation first-reply-for-an-id-not-delivered-to-its-owner".into();
            } else if outs[third] != genuine(third) && outs[third] != "err" {
                verdict = "violation wrong-reply-delivered".into();
            }
            sink.count("multi.two-messages-one-id");
        } else {
            // requests other than k: at most one of them (the one that happened to read the garbage) may fail;
            // every other one must get exactly its own reply
            let mut bad = 0;
            for i in 0..3 {
                if i != *k && outs[i] != format!("data:{}", ["<a/>", "<b/>", "<c/>"][i]) {
                    if outs[i] == "err" {
                        bad += 1
                    } else {
                        verdict = "violation wrong-reply-delivered".into();
                    }
                }
            }
            if bad > 1 {
                verdict = "violation several-innocent-requests-failed".into();
            }
            sink.count(&format!("multi.innocent_failed.{bad}"));
        }
        sink.direct(&case, verdict);
    }
    sink.write(opts, "fuzz");
}
