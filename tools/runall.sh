#!/bin/sh
# run every claimed check (quick tier by default) and print one summary line per property
cd "$(dirname "$0")/.."
TIER=${1:-quick}
for p in $(python3 -c "import sys; sys.path.insert(0,'tools'); import props; print(' '.join(sorted(props.PROPS)))"); do
  ./check $p --tier $TIER 2>&1 | tail -1
done
