#!/bin/sh
# tools/try_patch.sh <patch.diff> <Cxx> [<Cyy> …]   — apply a seeded change to /repo, run the given
# checks (quick tier), and ALWAYS undo the change afterwards. Prints one result line per check.
# With TESTS=1 the baseline test-suite is run on the patched tree first.
PATCH=$(readlink -f "$1"); shift
cd "$(dirname "$0")/.."
if [ -n "$(git -C /repo status --porcelain --untracked-files=no)" ]; then echo "/repo is not clean"; exit 2; fi
git -C /repo apply "$PATCH" || { echo "patch does not apply"; exit 2; }
# the evidence files committed under evidence/ must describe runs against /repo itself: keep them
# aside while the patched tree is checked and put them back afterwards
mkdir -p work/evidence.keep && cp -f evidence/*.json work/evidence.keep/ 2>/dev/null
trap 'git -C /repo checkout -- . ; git -C /repo clean -fdq -- netconf junos-agent lib cli >/dev/null 2>&1; cp -f work/evidence.keep/*.json evidence/ 2>/dev/null' EXIT INT TERM
if [ "${TESTS:-0}" = 1 ]; then
  (cd /repo && cargo test --workspace --no-fail-fast --offline 2>&1 | grep -E "^test result" | awk '{p+=$4; f+=$6} END {print "baseline tests on patched tree: passed=" p " failed=" f}')
fi
for p in "$@"; do
  ./check "$p" --tier ${TIER:-quick} 2>&1 | grep -E "^VIOLATION|^KNOWN-FINDING: .*new|-> (ok|VIOLATION)" | cut -c1-240
done
