"""Per-property configuration of ./check: theorem modules, correspondence ops, evidence texts."""

TRUSTED_COMMON = [
    "Lean 4.33 kernel; axioms limited to propext, Classical.choice, Quot.sound (audited per theorem by #print axioms)",
    "the hand-written Lean model is tied to /repo only by the correspondence run (differential testing on generated cases)",
    "harness (vh), line protocol, canonicaliser, modeld's op-line parser",
]

PENDING_REASON = {}

PROPS = {
    "C06": dict(
        thm=["Bgpfu.Thm.C06"],
        ops=[("frame", ["only-open"])],
        level_text="Theorems (no bound on stream length, message count or segmentation): repeated recv() on the TLS/CLI "
                   "receive loop and the SSH pump yield exactly the greedy split of the concatenated stream, for every "
                   "way of cutting it into reads/packets, and never block while a complete delimiter has arrived. "
                   "The model loops are tied to the three real transports by running real child-process, TLS and SSH "
                   "sessions whose peer controls the segmentation.",
        level_note="Theorem is about the Lean loop model (Model/Framing.lean); fidelity to tls.rs / junos_local.rs / ssh.rs is "
                   "sampled by the correspondence run (exhaustive single cuts around delimiters + random multi-cuts). "
                   "OS/TLS/SSH delivery of writes as reads is trusted; the theorem makes the verdict independent of it.",
        rule="real transports (child-process CLI, loopback TLS, loopback SSH) fed by a peer that controls the "
             "segmentation: per message sequence every single cut inside/around each delimiter, all-in-one, "
             "byte-by-byte, random multi-cuts, and close/abort points; a case is distinct by (transport, chunk list, end)",
        trusted=["tokio read_buf / russh channel events deliver the peer's writes as the reads the model is given "
                 "(theorem makes the result independent of the segmentation actually seen)"],
        assumptions=["messages are well framed (first delimiter in body++delimiter is the appended one)"],
    ),
    "C09": dict(
        thm=["Bgpfu.Thm.C09"],
        # cfg= selects the model variant the implementation is compared with: `pinned` = /repo as it is;
        # add `+get`, `+edit-startup`, `+delete-candidate`, `+cap-unescape` as the corresponding repairs land
        # in /repo (`fixed` = all four)
        ops=[("build", ["cfg=pinned"])],
        level_text="Theorems over every capability set (any list of capabilities, arbitrary URL-scheme lists), every "
                   "operation and every sequence of builder calls: whatever reaches the transport satisfies every entry "
                   "the RFC 6241 section 8 table attaches to the request (sent_implies_permitted, for the repaired builders; "
                   "_partial + three counter-examples for the code as it is); conversely a build whose operation and call "
                   "arguments are permitted and whose mandatory parameters are present succeeds "
                   "(permitted_implies_buildable); a failed build leaves the transport untouched. The builder model is tied "
                   "to /repo by issuing every operation x call combination through real Sessions (one per capability set) "
                   "and comparing Err(kind) / the parsed wire bytes with the model; the RFC table is evaluated on what was "
                   "found on the wire.",
        level_note="The RFC table (Model/Rfc6241.lean) is hand-written from RFC 6241 section 8 / the YANG if-feature statements and is "
                   "trusted as the specification. URI validity and decomposition of capability / URL texts come from the "
                   "real iri-string parse (annotated input); the exact-URI table and the ?scheme= query splitting are "
                   "modelled. String-valued payloads (filter bodies, config) are irrelevant to capability checks and are "
                   "fixed samples. Theorems quantify over all capability lists; the correspondence run samples them.",
        rule="capability sets: all subsets of the 13 known capabilities of size <=2 and >=11, every subset of the 11 "
             "optional ones of size <=2 with base 1.0 / both bases and each of 8 :url query variants, 200 random subsets "
             "(with unknown / near-miss / duplicate / reordered capability URIs), invalid capability text; thorough: all "
             "2^13 subsets. Per established session: every operation x every combination of its builder calls and enum "
             "values (edit-config: full target x error-option x test-option product, content/URL x target, 40 random "
             "shuffled full combinations; thorough: full 5-way product), 8 URL texts, repeated/overriding calls; a case "
             "is distinct by (capability list, operation, call list)",
        trusted=["RFC 6241 section 8 table as transcribed in Model/Rfc6241.lean",
                 "iri-string's URI validation/decomposition (annotated input to the model)",
                 "harness-side quick-xml parse of the wire bytes into the canonical request"],
        assumptions=["a session exists (common base version); otherwise nothing can be sent at all"],
    ),
    "C07": dict(
        thm=["Bgpfu.Thm.C07"],
        ops=[("frame", ["only-close"])],
        level_text="Theorems: for every buffer content and every sequence of read results the receive loop never spins and "
                   "can only stay blocked while the stream is open; EOF / I/O error at any point yields an error, again on "
                   "every later call; the SSH pump exits on channel EOF and on channel closure and never spins. Real "
                   "transports are closed/aborted at scripted points with a watchdog and thread-CPU measurement.",
        level_note="Bounded time is proved as bounded loop iterations (one per read event); wall-clock bound and absence of CPU "
                   "spin are observed (watchdog), not proved. Session-level propagation to reply futures is covered by the "
                   "session model once C05 is claimed.",
        rule="as C06, restricted interest: cases whose peer closes (EOF) or aborts at idle / mid-message / "
             "mid-delimiter / before any byte; watchdog + thread CPU time distinguish blocked from spinning",
        trusted=["a 0-byte read_buf means EOF and EOF is sticky", "wall-clock bound observed by watchdog only"],
    ),
}
