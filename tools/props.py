"""Per-property configuration of ./check: theorem modules, correspondence ops, evidence texts."""

TRUSTED_COMMON = [
    "Lean 4.33 kernel; axioms limited to propext, Classical.choice, Quot.sound (audited per theorem by #print axioms)",
    "the hand-written Lean model is tied to /repo only by the correspondence run (differential testing on generated cases)",
    "harness (vh), line protocol, canonicaliser, modeld's op-line parser",
]

PENDING_REASON = {}

PROPS = {
    "C06": dict(
        thm=["Bgpfu.Thm.C06"],
        ops=[("frame", ["only-open"])],
        level_text="Theorems (no bound on stream length, message count or segmentation): repeated recv() on the TLS/CLI "
                   "receive loop and the SSH pump yield exactly the greedy split of the concatenated stream, for every "
                   "way of cutting it into reads/packets, and never block while a complete delimiter has arrived. "
                   "The model loops are tied to the three real transports by running real child-process, TLS and SSH "
                   "sessions whose peer controls the segmentation.",
        level_note="Theorem is about the Lean loop model (Model/Framing.lean); fidelity to tls.rs / junos_local.rs / ssh.rs is "
                   "sampled by the correspondence run (exhaustive single cuts around delimiters + random multi-cuts). "
                   "OS/TLS/SSH delivery of writes as reads is trusted; the theorem makes the verdict independent of it.",
        rule="real transports (child-process CLI, loopback TLS, loopback SSH) fed by a peer that controls the "
             "segmentation: per message sequence every single cut inside/around each delimiter, all-in-one, "
             "byte-by-byte, random multi-cuts, and close/abort points; a case is distinct by (transport, chunk list, end)",
        trusted=["tokio read_buf / russh channel events deliver the peer's writes as the reads the model is given "
                 "(theorem makes the result independent of the segmentation actually seen)"],
        assumptions=["messages are well framed (first delimiter in body++delimiter is the appended one)"],
    ),
    "C07": dict(
        thm=["Bgpfu.Thm.C07"],
        ops=[("frame", ["only-close"])],
        level_text="Theorems: for every buffer content and every sequence of read results the receive loop never spins and "
                   "can only stay blocked while the stream is open; EOF / I/O error at any point yields an error, again on "
                   "every later call; the SSH pump exits on channel EOF and on channel closure and never spins. Real "
                   "transports are closed/aborted at scripted points with a watchdog and thread-CPU measurement.",
        level_note="Bounded time is proved as bounded loop iterations (one per read event); wall-clock bound and absence of CPU "
                   "spin are observed (watchdog), not proved. Session-level propagation to reply futures is covered by the "
                   "session model once C05 is claimed.",
        rule="as C06, restricted interest: cases whose peer closes (EOF) or aborts at idle / mid-message / "
             "mid-delimiter / before any byte; watchdog + thread CPU time distinguish blocked from spinning",
        trusted=["a 0-byte read_buf means EOF and EOF is sticky", "wall-clock bound observed by watchdog only"],
    ),
    "C20": dict(
        thm=["Bgpfu.Thm.C20"],
        pre_lean="python3 tools/logtable.py",
        ops=[("logs", [])],
        timeout=900,
        technique="Lean 4 non-interference theorem over a table that a translator (tools/logtable.py) regenerates from the "
                  "Rust sources on every run (every tracing::instrument attribute, tracing event macro and error-text "
                  "constructor with the formatter class of each recorded field) + dynamic scan of everything the real "
                  "library/agent write to a capturing subscriber / stderr / log file",
        level_text="Theorem log_noninterference: for all values of the SSH password and of the TLS client key the logging "
                   "sites of netconf and junos-agent write the same text, at every verbosity and under every filter "
                   "(log_noninterference_at_level, log_noninterference_filtered). Proved for ALL tables without a "
                   "secret-printing formatter (induction) and instantiated by deciding that side condition in the kernel on "
                   "the table regenerated from /repo; noninterference_iff_allSafe shows the side condition is exact, so one "
                   "leaking site makes the theorem fail. The table is tied to the code by the translator (fails closed) and "
                   "by checking the runtime metadata (file, line, level, field names) of every callsite seen in real SSH / "
                   "TLS / local-CLI sessions against it.",
        level_note="The theorem is about the source-derived table: it covers every logging and error-text site of the two "
                   "crates, not what dependencies (russh, rustls, tokio) log themselves and not the translator's "
                   "classification rules (formatter evidence for dependency types is re-read from the vendored sources on "
                   "every run; data flow is explicit-flow, name-based, intraprocedural plus function-result summaries). "
                   "Those gaps are covered by a test only: real connection attempts (accepted/rejected passwords, four "
                   "private-key formats, wrong CA / name / key, mis-wired and damaged PEM files given to the real agent "
                   "binary) under a TRACE subscriber and several EnvFilter directives, whose complete output is searched for "
                   "each secret in clear, Debug-escaped, hex, base64 and byte-list form.",
        rule="a case is one real connection attempt or agent run: (transport ssh|tls|cli, outcome variant, secret value, "
             "EnvFilter directive) or (agent, PEM scenario, key format, one-shot|daemon, verbosity); plus one row per distinct "
             "callsite (kind, file, line, level, field names) observed at run time, one row for the table's side condition "
             "and two source-count rows",
        trusted=["tools/logtable.py: lexer, attribute/macro parser, explicit-flow taint rules and the list of secret-carrying "
                 "types (Password, PrivateKeyDer & variants, rustls_pemfile::Item as values; ClientConfig, TlsStream as handles)",
                 "rustc/tracing-attributes semantics of #[instrument] (records every non-skipped parameter with Debug) as "
                 "mirrored by the translator; checked per callsite against runtime metadata only for the sites the runs reach",
                 "the dynamic scan sees only the encodings it searches for (clear, Debug/escape_default, hex, base64 std/url, "
                 "byte list; whole secret, PEM body lines and 16-byte windows of the private part of the key)"],
        assumptions=["error values logged by the agent consist of the error texts constructed in the two crates (table entries "
                     "of kind errtext) and of dependency error texts (scan only)",
                     "methods of rustls ClientConfig / TlsStream and of the russh session handle do not return the secret "
                     "they were built from (results of calls on these handles are not followed by the translator)"],
    ),
}
