"""Per-property configuration of ./check: theorem modules, correspondence ops, evidence texts."""

TRUSTED_COMMON = [
    "Lean 4.33 kernel; axioms limited to propext, Classical.choice, Quot.sound (audited per theorem by #print axioms)",
    "the hand-written Lean model is tied to /repo only by the correspondence run (differential testing on generated cases)",
    "harness (vh), line protocol, canonicaliser, modeld's op-line parser",
]

PENDING_REASON = {}

PROPS = {
    "C06": dict(
        thm=["Bgpfu.Thm.C06"],
        ops=[("frame", ["only-open"])],
        level_text="Theorems (no bound on stream length, message count or segmentation): repeated recv() on the TLS/CLI "
                   "receive loop and the SSH pump yield exactly the greedy split of the concatenated stream, for every "
                   "way of cutting it into reads/packets, and never block while a complete delimiter has arrived. "
                   "The model loops are tied to the three real transports by running real child-process, TLS and SSH "
                   "sessions whose peer controls the segmentation.",
        level_note="Theorem is about the Lean loop model (Model/Framing.lean); fidelity to tls.rs / junos_local.rs / ssh.rs is "
                   "sampled by the correspondence run (exhaustive single cuts around delimiters + random multi-cuts). "
                   "OS/TLS/SSH delivery of writes as reads is trusted; the theorem makes the verdict independent of it.",
        rule="real transports (child-process CLI, loopback TLS, loopback SSH) fed by a peer that controls the "
             "segmentation: per message sequence every single cut inside/around each delimiter, all-in-one, "
             "byte-by-byte, random multi-cuts, and close/abort points; a case is distinct by (transport, chunk list, end)",
        trusted=["tokio read_buf / russh channel events deliver the peer's writes as the reads the model is given "
                 "(theorem makes the result independent of the segmentation actually seen)"],
        assumptions=["messages are well framed (first delimiter in body++delimiter is the appended one)"],
    ),
    "C07": dict(
        thm=["Bgpfu.Thm.C07"],
        ops=[("frame", ["only-close"])],
        level_text="Theorems: for every buffer content and every sequence of read results the receive loop never spins and "
                   "can only stay blocked while the stream is open; EOF / I/O error at any point yields an error, again on "
                   "every later call; the SSH pump exits on channel EOF and on channel closure and never spins. Real "
                   "transports are closed/aborted at scripted points with a watchdog and thread-CPU measurement.",
        level_note="Bounded time is proved as bounded loop iterations (one per read event); wall-clock bound and absence of CPU "
                   "spin are observed (watchdog), not proved. Session-level propagation to reply futures is covered by the "
                   "session model once C05 is claimed.",
        rule="as C06, restricted interest: cases whose peer closes (EOF) or aborts at idle / mid-message / "
             "mid-delimiter / before any byte; watchdog + thread CPU time distinguish blocked from spinning",
        trusted=["a 0-byte read_buf means EOF and EOF is sticky", "wall-clock bound observed by watchdog only"],
    ),
    "C10": dict(
        thm=["Bgpfu.Thm.C10"],
        ops=[("ser", [])],
        level_text="Theorems for all byte strings (no bound on lengths or tree size): unescape(escape s) = s; escape never "
                   "emits < > \" ' and & only as one of the five references; a request whose raw leaves are marker-free "
                   "carries the delimiter exactly once, at the end (it is well framed in the sense of C06); well-formed "
                   "fragments give a single well-formed element; every escaped text / attribute leaf is delimited by the "
                   "next < / \" and a conforming parser (line-end + attribute-value normalisation, references) reads back "
                   "the caller's value; a table of which parameter of which operation is raw. Counter-examples (kernel-"
                   "evaluated) for the code as it is: raw text/JSON payloads (D7), TAB/LF/CR in attributes and CR in text "
                   "(D17), a well-formed fragment carrying the delimiter (D18). The writer model is compared byte for byte "
                   "with the real builders + to_xml on ~950 operation x value cases; an independent strict XML 1.0 parser "
                   "is the oracle for well-formedness and value recovery on the real bytes.",
        level_note="Theorems are about the Lean tree/render model (Model/Writers.lean); that the real builders produce "
                   "exactly those bytes is sampled (every operation, every free-text slot x ~35 adversarial values, every "
                   "raw slot x 16 fragments, agent payloads through the plan facade). WFC is the XML subset the writers "
                   "produce (no CDATA/comments/PIs/DOCTYPE, double-quoted attributes, no literal > in character data); "
                   "fragments outside the subset are covered through the parameter F of wf_of_wf_fragments. The Char "
                   "production and namespace constraints are not modelled (the harness parser checks Char; unbound "
                   "prefixes are counted, not judged).",
        rule="every operation reachable through the public builders (19 rpc operations incl. all load-configuration "
             "format x action combinations, client hello, close-session) x adversarial values (XML metacharacters, both "
             "quotes, the delimiter, its pieces, references, CDATA/comment look-alikes, non-ASCII, empty, 4.6 kB, "
             "TAB/LF/CR, random strings over a metacharacter alphabet) in every free-text slot; 16 fragments (well-formed, "
             "well-formed with delimiter, ill-formed) in every raw slot; agent create/update/delete payloads for 9 names x "
             "5 filter expressions x range sets; a case is distinct by (message-id, operation, parameter tuple)",
        trusted=["the harness's strict XML 1.0 parser (harness/src/xmlstrict.rs, self-tested; tied to the Lean parseText / "
                 "parseAttr by `ser parse` correspondence rows on every leaf it extracts)",
                 "chrono / Display formatting of at-time, numbers, prefixes and filter expressions (their results are "
                 "ordinary escaped leaves)"],
        assumptions=["values are strings of XML 1.0 Chars", "caller-supplied fragments are well-formed content",
                     "load-configuration sources ConfigurationRevision / Rollback / Url have no public constructor: "
                     "modelled, not exercised"],
    ),
}
