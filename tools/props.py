"""Per-property configuration of ./check: theorem modules, correspondence ops, evidence texts."""

TRUSTED_COMMON = [
    "Lean 4.33 kernel; axioms limited to propext, Classical.choice, Quot.sound (audited per theorem by #print axioms)",
    "the hand-written Lean model is tied to /repo only by the correspondence run (differential testing on generated cases)",
    "harness (vh), line protocol, canonicaliser, modeld's op-line parser",
]

PENDING_REASON = {}

PROPS = {
    "C06": dict(
        thm=["Bgpfu.Thm.C06"],
        ops=[("frame", ["only-open"])],
        level_text="Theorems (no bound on stream length, message count or segmentation): repeated recv() on the TLS/CLI "
                   "receive loop and the SSH pump yield exactly the greedy split of the concatenated stream, for every "
                   "way of cutting it into reads/packets, and never block while a complete delimiter has arrived. "
                   "The model loops are tied to the three real transports by running real child-process, TLS and SSH "
                   "sessions whose peer controls the segmentation.",
        level_note="Theorem is about the Lean loop model (Model/Framing.lean); fidelity to tls.rs / junos_local.rs / ssh.rs is "
                   "sampled by the correspondence run (exhaustive single cuts around delimiters + random multi-cuts). "
                   "OS/TLS/SSH delivery of writes as reads is trusted; the theorem makes the verdict independent of it.",
        rule="real transports (child-process CLI, loopback TLS, loopback SSH) fed by a peer that controls the "
             "segmentation: per message sequence every single cut inside/around each delimiter, all-in-one, "
             "byte-by-byte, random multi-cuts, and close/abort points; a case is distinct by (transport, chunk list, end)",
        trusted=["tokio read_buf / russh channel events deliver the peer's writes as the reads the model is given "
                 "(theorem makes the result independent of the segmentation actually seen)"],
        assumptions=["messages are well framed (first delimiter in body++delimiter is the appended one)"],
    ),
    "C07": dict(
        thm=["Bgpfu.Thm.C07"],
        ops=[("frame", ["only-close"])],
        level_text="Theorems: for every buffer content and every sequence of read results the receive loop never spins and "
                   "can only stay blocked while the stream is open; EOF / I/O error at any point yields an error, again on "
                   "every later call; the SSH pump exits on channel EOF and on channel closure and never spins. Real "
                   "transports are closed/aborted at scripted points with a watchdog and thread-CPU measurement.",
        level_note="Bounded time is proved as bounded loop iterations (one per read event); wall-clock bound and absence of CPU "
                   "spin are observed (watchdog), not proved. Session-level propagation to reply futures is covered by the "
                   "session model once C05 is claimed.",
        rule="as C06, restricted interest: cases whose peer closes (EOF) or aborts at idle / mid-message / "
             "mid-delimiter / before any byte; watchdog + thread CPU time distinguish blocked from spinning",
        trusted=["a 0-byte read_buf means EOF and EOF is sticky", "wall-clock bound observed by watchdog only"],
    ),
    "C08": dict(
        thm=["Bgpfu.Thm.C08"],
        ops=[("reply", [])],
        level_text="Theorems over ALL documents of the reply grammar (any number/order/severity of rpc-error children, "
                   "<ok/>, <data>, comments, <load-configuration-results> with its own children, arbitrary inert leaf "
                   "content, any qualified names): the event-level reader loops (both parse phases, message-id cross-check, "
                   "into_result) refine a child-level semantics (reply_refines), from which: success implies no rpc-error of "
                   "severity error anywhere the grammar allows one, success implies the positive indication of the reply "
                   "type, and reported errors are exactly the reply's rpc-errors in order. The reader model is tied to the "
                   "real code by injecting generated reply documents as replies to real requests of all four reply kinds.",
        level_note="Theorems are about Model/Readers.lean over quick-xml event lists; tokenisation (quick-xml), namespace "
                   "resolution and read_text spans are observed by the harness and trusted. Documents outside the grammar "
                   "(e.g. two root elements) are covered by the correspondence run only.",
        rule="reply documents from the reply grammar: exhaustive child sequences up to length 4 (thorough 5) over "
             "{ok, rpc-error(error), rpc-error(warning), data/count, comment} per reply kind, plus random documents with "
             "junk elements, <ok></ok>, nested/duplicated results; a case is distinct by (kind, child token sequence)",
        trusted=["quick-xml 0.31 tokenisation, namespace resolution, read_text span computation (harness annotates events)"],
        assumptions=["GoodDoc: message-id parses, leaves hold parseable tokens (after trim), leaf contents contain no element "
                     "with the leaf's own name and no tokenizer error"],
    ),
}
