"""Per-property configuration of ./check: theorem modules, correspondence ops, evidence texts."""

TRUSTED_COMMON = [
    "Lean 4.33 kernel; axioms limited to propext, Classical.choice, Quot.sound (audited per theorem by #print axioms)",
    "the hand-written Lean model is tied to /repo only by the correspondence run (differential testing on generated cases)",
    "harness (vh), line protocol, canonicaliser, modeld's op-line parser",
]


POLICY_TRUSTED = [
    "reference Junos configuration model (Model/Junos.lean: merge semantics of load-configuration with delete attributes, "
    "first-match policy evaluation with protocol default accept) -- my reading of the Junos documentation (DESIGN.md Appendix B)",
    "harness-side rendering of a configuration as a get-config reply (choice-ident/choice-value form; only & < > escaped in text) "
    "and the generic XML-to-element-list conversion of the emitted payloads (quick-xml)",
    "the event-level XML readers are covered by the reader properties (C13/C14/C16); here the reader is modelled on the abstract "
    "configuration structure and tied to the real reader by the `plan read` / read-back rows",
    "rpsl parser verdict (parsed / malformed) and generic-ip text<->value round trip are observed, not modelled",
]
POLICY_RULE = ("op `plan`: real Policies<Installed>::read_xml, Policies<Candidate>::read_xml, compare and write_xml through the "
               "agent::verif facade. Cases: the 6x6 per-family shapes (old in {policy absent, term absent, non-empty} x new in "
               "{empty, non-empty}) x 5 content relations (equal/subset/superset/disjoint/overlapping), 42 foreign (non-agent) "
               "configurations for the reader, every failure kind of a marked statement x 4 installed shapes (40 annotation "
               "breakages), then random histories of 2-6 consecutive runs over a 12-range universe per family with names "
               "incl. XML metacharacters; per step: candidates, read, compare/render vs model (modulo HashMap/HashSet order), "
               "reference-Junos application of the implementation's payloads, read-back through the real reader, second plan "
               "with unchanged inputs; a case is distinct by (initial configuration, sequence of running configurations + IRR results)")

# `variant=` names the model variant the correspondence rows are compared with: `pinned` = the code as it is in
# /repo now (D9, D10, D15-names unrepaired). After the repairs land in /repo switch to `fixed` (or a three-letter
# combination, see Drive/Policy.lean): the theorems are about `Cfg.fixed`.
PENDING_REASON = {}

PROPS = {
    "C01": dict(
        thm=["Bgpfu.Thm.C01"],
        # evlevel=1: per distinct configuration also the event-level rows (harness/src/instev.rs): `instev render`
        # (harness renderer == Lean renderGetConfig, event for event), `instev readev` (real reader == event-level
        # model on the tokenised reply), `instev hyp` (hypotheses of the event-level theorems for the real libraries);
        # op `instev`: reply documents outside the agent's own output through `instev readev`
        ops=[("plan", ["prop=C01", "variant=fixed", "evlevel=1"]), ("instev", []), ("agentrun", ["many"]), ("multirun", [])],
        level_text="Theorems over the model of the diff/patch pipeline and the reference Junos model, no bound on policies, ranges, "
                   "names or runs: every state in the closure of the empty configuration under runs satisfies a decidable "
                   "well-formedness predicate (reachable_agentState); every such state is read back successfully and faithfully "
                   "(readback_total); from every such state, for every evaluated map and EVERY permutation of the emitted update "
                   "list, loading succeeds, every evaluated policy accepts exactly its evaluated IPv4/IPv6 range sets "
                   "(structurally and under first-match route evaluation) and ends in reject, no unmanaged policy is left, "
                   "and the result is again such a state (run_converges, run_accepts_exactly); a further run with unchanged "
                   "inputs is semantically a no-op (run_idempotent); induction over any sequence of runs (runs_history). "
                   "Counter-examples for the pinned writer/readers (readback_pinned_cex, rerun_pinned_cex, raw_names_cex). "
                   "Read-back at event level: the reader is also modelled loop by loop on quick-xml event lists "
                   "(Model/FetchInstalled.lean: Maybe<Installed>, Term, TermFrom, RouteFilter incl. the choice-value loop, "
                   "try_into_ranges, under the generic Policies<T> loops) and renderGetConfig (Spec/InstalledGrammar.lean) gives "
                   "the get-config reply of a configuration as an event list with all read_text spans; for EVERY configuration, "
                   "on its reply document the event-level reader equals the abstract reader -- same policies and range sets or "
                   "both fail, covering term without accept / from / family, name != family, unknown family, duplicate family "
                   "term, malformed range, duplicate policy, policy without reject skipped (readInstalledEv_render; "
                   "readInstalledEv_refines gives the real ReadError classes); hence readback_total and run_converges hold with "
                   "the event-level reader in place of the abstract one (readback_total_ev, run_converges_ev); the model never "
                   "runs out of fuel on ANY event list (readInstalledEv_total). Histories in which the router changes between runs (reboot, operator edits: any external change that leaves an agent state): every run converges for its own inputs (runs_with_external_changes, runs_with_reboots).",
        level_note="The theorems are for Cfg.fixed (a family empty before and after is not written; names unescaped). The "
                   "event-level theorems take the library calls (quick_xml unescape, generic-ip Prefix / PrefixLength from_str) "
                   "as oracles constrained, on the texts of the configuration, to what Policy.readRange assumes of them, and a "
                   "text encoding (UTF-8) constrained to be injective on the compared strings and to commute with trimming on "
                   "the family values; both hypotheses are decidable and evaluated for the real libraries on every generated "
                   "configuration (`instev hyp` rows); unescape_satisfiable discharges the one clause over all texts. The real "
                   "code is tied to the model by the correspondence run; the C01 predicate is additionally evaluated on the "
                   "state produced by the implementation's own payloads (incl. read-back through the real reader and a second "
                   "plan), which is where defects D9 (empty <term>) and D15-names show up as violations.",
        rule=POLICY_RULE + "; with evlevel=1 every distinct configuration generated or reached (first 1000 quick / 5000 thorough) is "
                           "rendered by the harness, tokenised with quick-xml and compared event for event (incl. every read_text span, "
                           "i.e. the whole text) with renderGetConfig, the real read_installed is compared with the event-level model "
                           "on those events, and the theorem hypotheses are evaluated with the real libraries' answers. Op `instev`: 4 "
                           "base replies (dual-stack, two single-family policies, managed + policy without reject, no policy) each with "
                           "ONE mutation -- 19 snippets (comment, whitespace, NBSP, text, CDATA, PI, unknown empty/non-empty element, second "
                           "name / then-accept / then-reject / family / from / address / choice-ident / choice-value) at every tag boundary "
                           "and in front of every end tag, every element deleted / duplicated / cleared / written as empty element, "
                           "69 substring replacements incl. <accept></accept> and <accept /> (family and term-name values padded, escaped, "
                           "changed; choice-ident changed; malformed / out-of-range length ranges and addresses; foreign namespaces; "
                           "attributes; second policy-options / configuration; XML declaration; prefixed rpc-reply), truncation at "
                           "every 7th byte -- plus random pairs of mutations; a case is distinct by the document text",
        trusted=[t for t in POLICY_TRUSTED if not t.startswith("harness-side rendering") and not t.startswith("the event-level XML readers")] + [
            "generic XML-to-element-list conversion of the emitted payloads (quick-xml)",
            "quick-xml tokenisation, namespace resolution and read_text spans of the reply documents are observed by the harness "
            "(xmltok.rs) and handed to the event-level model; the harness renderer of get-config replies is NOT trusted (compared with "
            "renderGetConfig event for event); that Junos emits this document shape (choice-ident/choice-value form) is Appendix B's reading",
        ],
        assumptions=["evaluated ranges satisfy the PrefixRange type invariant (EvValid)",
                     "policy names are unique in a Junos configuration",
                     "commit / rollback behaviour is C04's subject: C01 is about the configuration after all loads"],
    ),
    "C02": dict(
        thm=["Bgpfu.Thm.C02"],
        ops=[("plan", ["prop=C02", "variant=fixed"]), ("e2e", ["c02"])],
        level_text="Theorems (for the repaired and the pinned writer alike): from every agent state, each single emitted update "
                   "loads and leaves a policy whose accepting terms each have one of the two families and a non-empty route-filter "
                   "list inside the evaluated set of that family, ending in an unconditional reject (each_update_safe); the same "
                   "after every prefix of every permutation of the update list, all other policies being untouched "
                   "(every_prefix_safe); such a policy accepts a route only if an evaluated range of the route's family matches "
                   "it (accept_subset); every element written lies on configuration/policy-options/policy-statement (payload_rooted). The event-level installed reader is fail-closed on route-filters it cannot represent: another match type, a flag element or an unknown element fails the read, it is never skipped (routeFilter_other_match_type_fails, routeFilter_flag_element_fails, routeFilter_unknown_element_fails).",
        level_note="Domain: the agent's own ephemeral instance (AgentState); foreign_state_cex shows a readable foreign state "
                   "(accepting term without route-filters) that a run does not repair. raw_names_stale_cex: with raw names "
                   "(D15) stale ranges are never deleted -- reported by the run as class name-mangled.",
        rule=POLICY_RULE + "; the C02 predicate is evaluated after each single payload and after every prefix of the emitted "
                           "order, its reverse and a rotation",
        trusted=POLICY_TRUSTED,
        assumptions=["the reader sees the true policy names (c.unescapeNames)", "protocol default when no term and no default action matches is accept"],
    ),
    "C03": dict(
        thm=["Bgpfu.Thm.C03"],
        ops=[("plan", ["prop=C03", "variant=fixed"]), ("evalseq", ["c03", "fixed"])],
        level_text="Theorems: a candidate whose evaluation failed gets neither update nor delete and its installed policy is "
                   "literally unchanged after the run -- for every variant of the code, every configuration and every order of the "
                   "updates (failed_eval_no_update, failed_eval_untouched); deletes only for installed non-candidates "
                   "(delete_only_unmanaged); with the repaired candidate reader a still-marked statement whose annotation is "
                   "malformed or whose expression cannot be evaluated is untouched, and deletes go only to policies no longer "
                   "marked (malformed_annotation_untouched, unevaluable_annotation_untouched, delete_only_unmarked, "
                   "unobtainable_untouched_run). Counter-example for the pinned reader: malformed_annotation_pinned_cex (D10).",
        level_note="In the theorems a failed evaluation enters as `ranges: None`, which is what eval.rs records for every error. "
                   "That the real evaluator does report the failure for EVERY candidate that needs an unobtainable object (also "
                   "when several policies of one run share it) is the evalseq c03 family: the real Policies<Candidate>::evaluate "
                   "against the fake IRRd (as-set unknown, or answered D/E/F), its output handed to the real compare/updates "
                   "with every candidate installed; the candidates the Lean IRR model cannot evaluate must not be touched by "
                   "any load. Malformed annotations are fed through the real candidate reader.",
        rule=POLICY_RULE,
        trusted=POLICY_TRUSTED,
        assumptions=["statement names are unique in the running configuration"],
    ),
    "C06": dict(
        thm=["Bgpfu.Thm.C06"],
        ops=[("frame", ["only-open"])],
        level_text="Theorems (no bound on stream length, message count or segmentation): repeated recv() on the TLS/CLI "
                   "receive loop and the SSH pump yield exactly the greedy split of the concatenated stream, for every "
                   "way of cutting it into reads/packets, and never block while a complete delimiter has arrived. "
                   "The model loops are tied to the three real transports by running real child-process, TLS and SSH "
                   "sessions whose peer controls the segmentation. "
                   "The SSH pump's bounded queue (capacity 32, back-pressure by awaiting send) has a small-step model "
                   "(pump / queue / consumer, any capacity >= 1, any interleaving): in every reachable state delivered ++ "
                   "queued ++ split-off is a prefix of the unbounded pump's output and the queue is within its capacity, and "
                   "any fair schedule of (pending events + 2 x undelivered messages) rounds delivers every message (those "
                   "before an eof, if there is one); kernel-evaluated counter-example for the variant that leaves the "
                   "enqueue loop when the queue is full (capacity 2, three messages in one packet: the third is stranded "
                   "under every continuation). Channel messages that are not data (exit-status, stderr) are invisible wherever they are interleaved (pump_other_invisible, exit_status_as_eof_cex).",
        level_note="Theorem is about the Lean loop model (Model/Framing.lean); fidelity to tls.rs / junos_local.rs / ssh.rs is "
                   "sampled by the correspondence run (exhaustive single cuts around delimiters + random multi-cuts). "
                   "OS/TLS/SSH delivery of writes as reads is trusted; the theorem makes the verdict independent of it.",
        rule="real transports (child-process CLI, loopback TLS, loopback SSH) fed by a peer that controls the "
             "segmentation: per message sequence every single cut inside/around each delimiter, all-in-one, "
             "byte-by-byte, random multi-cuts, and close/abort points; a case is distinct by (transport, chunk list, end)",
        trusted=["tokio read_buf / russh channel events deliver the peer's writes as the reads the model is given "
                 "(theorem makes the result independent of the segmentation actually seen)"],
        assumptions=["messages are well framed (first delimiter in body++delimiter is the appended one)"],
    ),
    "C09": dict(
        thm=["Bgpfu.Thm.C09"],
        # cfg= selects the model variant the implementation is compared with: `pinned` = /repo as it is;
        # add `+get`, `+edit-startup`, `+delete-candidate`, `+cap-unescape` as the corresponding repairs land
        # in /repo (`fixed` = all four)
        ops=[("build", ["cfg=fixed"])],
        level_text="Theorems over every capability set (any list of capabilities, arbitrary URL-scheme lists), every "
                   "operation and every sequence of builder calls: whatever reaches the transport satisfies every entry "
                   "the RFC 6241 section 8 table attaches to the request (sent_implies_permitted, for the repaired builders; "
                   "_partial + three counter-examples for the code as it is); conversely a build whose operation and call "
                   "arguments are permitted and whose mandatory parameters are present succeeds "
                   "(permitted_implies_buildable); a failed build leaves the transport untouched; capability recognition is "
                   "exact (classify_*_iff: no query, no fragment, exact scheme/path; url_schemes_mem_iff: only parameters "
                   "named `scheme`). The builder model is tied "
                   "to /repo by issuing every operation x call combination through real Sessions (one per capability set) "
                   "and comparing Err(kind) / the parsed wire bytes with the model; the RFC table is evaluated on what was "
                   "found on the wire.",
        level_note="The RFC table (Model/Rfc6241.lean) is hand-written from RFC 6241 section 8 / the YANG if-feature statements and is "
                   "trusted as the specification. URI validity and decomposition of capability / URL texts come from the "
                   "real iri-string parse (annotated input); the exact-URI table and the ?scheme= query splitting are "
                   "modelled. String-valued payloads (filter bodies, config) are irrelevant to capability checks and are "
                   "fixed samples. Theorems quantify over all capability lists; the correspondence run samples them.",
        rule="capability sets: all subsets of the 13 known capabilities of size <=2 and >=11, every subset of the 11 "
             "optional ones of size <=2 with base 1.0 / both bases and each of 8 :url query variants, 200 random subsets "
             "(with unknown / near-miss / duplicate / reordered capability URIs), invalid capability text; thorough: all "
             "2^13 subsets. Per established session: every operation x every combination of its builder calls and enum "
             "values (edit-config: full target x error-option x test-option product, content/URL x target, 40 random "
             "shuffled full combinations; thorough: full 5-way product), 8 URL texts, repeated/overriding calls; a case "
             "is distinct by (capability list, operation, call list)",
        trusted=["RFC 6241 section 8 table as transcribed in Model/Rfc6241.lean",
                 "iri-string's URI validation/decomposition (annotated input to the model)",
                 "harness-side quick-xml parse of the wire bytes into the canonical request"],
        assumptions=["a session exists (common base version); otherwise nothing can be sent at all"],
    ),
    "C11": dict(
        thm=["Bgpfu.Thm.C11"],
        ops=[("evalseq", ["c11"])],
        level_text="Theorems (every database — nested, cyclic, self-referencing sets, v4-only / v6-only / route-less ASes, "
                   "duplicates — every expression and every evaluator state between evaluations): the fake IRRd's recursive "
                   "expansion is the reflexive-transitive membership closure (termination proved); the as-set resolver returns "
                   "the routes of that closure; whenever an evaluation succeeds its result equals, on every prefix of a length the "
                   "family has, an independently written RFC 2622/4012 denotation (AND/OR/NOT, range operators on literals and on "
                   "sets, as-sets, route-sets, aut-nums, filter-set indirection); the IPv4/IPv6 partition handed to the router is "
                   "lossless. The model is tied to the real RpslEvaluator, the bgpfu binary and Policies<Candidate>::evaluate by "
                   "runs against a loopback fake IRRd whose every response body is computed by the Lean model.",
        level_note="Theorems are about the Lean models (Model/Irr.lean, Model/Rpsl.lean) and the Lean specification "
                   "(Model/RpslSpec.lean). The set algebra of generic-ip (any/!/&/|/ranges/as_partitions) and rpsl's parser are "
                   "trusted; outputs are compared with the model by membership on a probe set (every prefix mentioned, parent, "
                   "children, sibling, descendants at every operator bound ±1), not by set equality. Side conditions of "
                   "eval_eq_denote: the upper bound of a ^n-m operator is within the address family (for an operator applied to a "
                   "set: ≤ 32); for the code as it is (Cfg.pinned) no route-set member carries a range operator (D16: such members "
                   "are silently dropped — routeset_range_member_dropped_cex; spec class routeset-range-member-dropped). "
                   "Two further spec classes concern the dependencies in front of / below the evaluator and are not repairable in "
                   "/repo: operator-precedence (the rpsl grammar reads `A AND B OR C` as `A AND (B OR C)` and `NOT A AND B` as "
                   "`NOT (A AND B)`, RFC 2622 §5.4 prescribes NOT > AND > OR; operator_precedence_cex; eval_eq_denote is about the "
                   "tree the parser built) and not-exponential-in-prefix-length (generic-ip 0.1.1 complements a set in time "
                   "exponential in the prefix length: ~0.2 s for a /16, ~40 s for a /24, no result for a /32 — NOT over real IRR "
                   "data does not terminate in practice; therefore NOT is only exercised over prefixes ≤ /12). The agent path is `agent::verif::evaluate` (H3); route-filters installed in the fake "
                   "Junos are covered by the agent-run op of C01.",
        rule="generated databases (≤ 8 sets, ≤ 10 ASes, cyclic / self-referencing membership, unknown member sets, v4-only / "
             "v6-only / route-less ASes, duplicate prefixes, route-sets with prefix, AS and set members, with and without range "
             "operators, filter-sets with one or several objects) × generated expressions (depth ≤ 3); three runners in turn: "
             "RpslEvaluator in-process, bgpfu binary (stdout), H3 evaluate; a case is distinct by (database, expressions, runner)",
        trusted=["generic-ip PrefixSet algebra and range aggregation; rpsl parser (expression text → AST; filter-set object text)",
                 "fake IRRd wire fidelity to IRRd 4 (response framing, D for empty results optional, AS members of route-sets "
                 "resolved server-side)",
                 "probe-set comparison instead of set equality"],
        assumptions=["^n-m upper bounds within the address family (OpsOk / DbOpsOk)",
                     "Cfg.pinned: route-set members are plain prefixes (RsPlain)",
                     "filter-set indirection is acyclic (cyclic filter-sets recurse without bound in the code)"],
    ),
    "C15": dict(
        thm=["Bgpfu.Thm.C15"],
        ops=[("evalseq", ["c15"]), ("agentrun", ["c15"]), ("e2e", ["c15"])],
        level_text="Theorems (evaluator part; every database, every list of candidates in every order, every per-candidate "
                   "fault set): a completed run gives each candidate exactly its solo result (isolation, via C17's connection "
                   "invariant); candidates that fail with an error never abort the run; with the two proposed repairs "
                   "(Cfg.fixed) no expression at all — PeerAS, AS-path regexps, attribute matches included — aborts the run, "
                   "and the evaluator stays usable. For the code as it is (Cfg.pinned) the counter-examples "
                   "peeras_panics_cex / aspath_attr_panic_cex show the abort. Correspondence: mixed policy sets through "
                   "Policies<Candidate>::evaluate (H3) under catch_unwind, and sequences on one RpslEvaluator across panics.",
        level_note="The theorems are about the evaluator model; the end-to-end clause (the other policies ARE updated, the run "
                   "completes) is observed by the agentrun c15 family: the real Updater::run against the fake Junos and the fake "
                   "IRRd with one candidate of each unsupported construct among ordinary ones. "
                   "Evaluation order inside Policies::evaluate is the HashMap's (random per run); the theorem covers all orders, the "
                   "harness observes whichever orders occur. Spec classes: panic-peeras, panic-aspath-regex, panic-attr-match (D11).",
        rule="policy sets of 2–4 members mixing evaluable expressions, unknown as-/route-/filter-sets, PeerAS, `<^AS…>`, "
             "`community(…)`, and IRRd D/E/F answers selected by query; H3 evaluate under catch_unwind, and the same on one "
             "RpslEvaluator in sequence (each item also on a fresh evaluator)",
        trusted=["panic classification by panic message", "HashMap iteration order is not controlled by the harness"],
        assumptions=["no cyclic filter-sets (diverge)"],
    ),
    "C17": dict(
        thm=["Bgpfu.Thm.C17"],
        ops=[("evalseq", ["c17"])],
        level_text="Theorems (every database, expression, fault set, history; both configurations): after every evaluate — "
                   "successful, failed at any query, panicked — the evaluator holds its connection with no outstanding response; "
                   "evaluating after any history equals evaluating on a fresh evaluator (outcome, queries, consumed responses); "
                   "every consumed response is attributed to the query it answers and the consumed pairs are exactly the sent "
                   "pairs in order. Correspondence: histories of 2–8 expressions on one real RpslEvaluator with D/E/F answers "
                   "injected at chosen query indices / for chosen queries, each expression also on a fresh evaluator, the fake's "
                   "(query, answer) log compared with the model's.",
        level_note="The model abstracts irrc's Pipeline to push / pop / drain-on-drop over whole responses (item-level partial "
                   "consumption inside one response, as in the filter-set resolver's find_map, is irrc's Response::drop and is "
                   "exercised only by the correspondence run: filter-sets with several objects). TCP-level faults (connection "
                   "closed mid-response) are out of scope: irrc then busy-loops on 0-byte reads (observed while building the fake; "
                   "not a property of this repository).",
        rule="generated databases as for C11 (no range-operator members) × histories of 2–8 expressions (repeats of earlier "
             "expressions included, unknown names included) × per-expression fault sets (index- and query-selected D/E/F)",
        trusted=["the fake applies faults by the index of the query within the current evaluation; the harness resets the index "
                 "before each evaluate (sound because of conn_invariant: nothing is in flight between evaluations)"],
    ),
    "C07": dict(
        thm=["Bgpfu.Thm.C07", "Bgpfu.Thm.C05"],
        ops=[("frame", ["only-close"]), ("sched", ["only-close"]), ("daemon", ["cfg=fixed", "only-streaks"]), ("e2e", ["c07"])],
        level_text="Theorems: for every buffer content and every sequence of read results the receive loop never spins and "
                   "can only stay blocked while the stream is open; EOF / I/O error at any point yields an error, again on "
                   "every later call; the SSH pump exits on channel EOF and on channel closure and never spins. Real "
                   "transports are closed/aborted at scripted points with a watchdog and thread-CPU measurement.",
        level_note="Bounded time is proved as bounded loop iterations (one per read event); wall-clock bound and absence of CPU "
                   "spin are observed (watchdog), not proved. Session-level propagation to reply futures is covered by the "
                   "session model (Thm/C05 close_fails_all_waiters…, sched only-close schedules).",
        rule="as C06, restricted interest: cases whose peer closes (EOF) or aborts at idle / mid-message / "
             "mid-delimiter / before any byte; watchdog + thread CPU time distinguish blocked from spinning",
        trusted=["a 0-byte read_buf means EOF and EOF is sticky", "wall-clock bound observed by watchdog only"],
    ),
    "C08": dict(
        thm=["Bgpfu.Thm.C08"],
        ops=[("reply", [])],
        level_text="Theorems over ALL documents of the reply grammar (any number/order/severity of rpc-error children, "
                   "<ok/>, <data>, comments, <load-configuration-results> with its own children, arbitrary inert leaf "
                   "content, any qualified names): the event-level reader loops (both parse phases, message-id cross-check, "
                   "into_result) refine a child-level semantics (reply_refines), from which: success implies no rpc-error of "
                   "severity error anywhere the grammar allows one, success implies the positive indication of the reply "
                   "type, and reported errors are exactly the reply's rpc-errors in order. The reader model is tied to the "
                   "real code by injecting generated reply documents as replies to real requests of all four reply kinds. A frame with a second root element is never a success, for every grammar document, reply kind and continuation (second_root_never_success; second_root_masks_error_cex for the behaviour before the repair).",
        level_note="Theorems are about Model/Readers.lean over quick-xml event lists; tokenisation (quick-xml), namespace "
                   "resolution and read_text spans are observed by the harness and trusted. Documents outside the grammar "
                   "(e.g. two root elements) are covered by the correspondence run only.",
        rule="reply documents from the reply grammar: exhaustive child sequences up to length 4 (thorough 5) over "
             "{ok, rpc-error(error), rpc-error(warning), data/count, comment} per reply kind, plus random documents with "
             "junk elements, <ok></ok>, nested/duplicated results; a case is distinct by (kind, child token sequence)",
        trusted=["quick-xml 0.31 tokenisation, namespace resolution, read_text span computation (harness annotates events)"],
        assumptions=["GoodDoc: message-id parses, leaves hold parseable tokens (after trim), leaf contents contain no element "
                     "with the leaf's own name and no tokenizer error"],
    ),
    "C19": dict(
        thm=["Bgpfu.Thm.C19"],
        # cfg=pinned: the model op uses the back-off rule of task.rs as it is in /repo now
        # (min(period, 2b)); switch to cfg=fixed once the D12 repair (min(max(period, MIN), 2b)) is in /repo
        ops=[("daemon", ["cfg=fixed"])],
        level_text="Theorems over every event list (every sequence of run outcomes and durations, every placement of "
                   "SIGHUP/SIGINT/SIGTERM), every period > 0 and every position in the loop's timeline: the retry delay "
                   "after the n-th consecutive failure is backoffAt n (first = 60 s, again after every success); every "
                   "delay lies in [min(60 s, period), max(60 s, period)] and is > 0, a run start is preceded by that delay "
                   "or by a SIGHUP at the same instant; a success is followed by exactly `period`; for the repaired rule "
                   "delays never shrink along consecutive failures, grow strictly below the cap, closed form "
                   "min(max(period,60 s), 60 s*2^n); SIGHUP while waiting starts a run at that instant; SIGINT/SIGTERM "
                   "while waiting end the loop and nothing is observed afterwards. Counter-example theorem for the pinned "
                   "rule (period 10 s: 60 s then 10 s). The real Loop::start is run under tokio's paused clock with a "
                   "failing scripted connector and signals raised with raise(2) at scripted virtual times. A run that panics is a failed run (JobEnd, panic_is_a_failed_run, retry_after_panic).",
        level_note="The theorems are about the Lean loop model (Model/Daemon.lean: one transition per select! arm); fidelity "
                   "to task.rs is sampled by the correspondence run, exact to the millisecond in virtual time. Failure "
                   "histories and signals run under the paused clock; histories with SUCCESSFUL runs (success arm: "
                   "interval.reset(), backoff = MIN_BACKOFF) need block_in_place and therefore run in real time against the "
                   "in-memory fake Junos and the fake IRRd, with times rounded to a 250 ms grid (three short ones in the quick "
                   "tier, a failure->success one of 66 s in the thorough tier). tokio's "
                   "Interval/signal semantics (A1-A5 in the model file) are assumptions; simultaneous readiness of several "
                   "select! arms is excluded from the scripts (random in the real code), not modelled. D12: with period < 60 s "
                   "the unrepaired rule gives 60 s, period, period, ...; the spec op reports class `delay-shrinks` for those "
                   "histories until task.rs is repaired and the op token is switched to cfg=fixed.",
        rule="real Loop::start via agent::verif::run_loop, current-thread runtime with paused clock, connector records "
             "tokio::time::Instant::now() and fails after a scripted virtual duration; periods 1,2,10,30,59,60,61,90,119,"
             "120,121,300,3600,86400 s (+ random 1..400); failure-only histories at three horizons; one signal of each kind "
             "placed 1 ms after a run end / 1 ms before the next start / mid-wait / mid-run / 1 ms after run start for the "
             "1st, 2nd, 3rd and last wait of the implementation's own signal-free timeline; SIGHUP followed by a second "
             "signal; random scripts with up to 4 signals; a case is distinct by (period, horizon, run durations, signals)",
        trusted=["tokio 1.37 time::Interval (first tick immediate; reset/reset_after/reset_immediately relative to now), "
                 "paused-clock auto-advance, signal::unix streams latch a signal until polled",
                 "libc::raise delivers the signal synchronously to tokio's process-wide handler",
                 "MIN_BACKOFF is read from task.rs by text search; frequency 0 never reaches Loop (NonZeroU64), checked by text search"],
        assumptions=["period > 0 (daemon mode: cli.rs maps frequency 0 to one-shot, init_loop takes NonZeroU64)",
                     "timers are prompt (a tick fires at its deadline); real-time latency is outside the model",
                     "no two select! arms become ready at the same instant (the real choice is random)",
                     "successful runs are exercised in real time only (three to five short histories per run; a 66 s one in the thorough tier)"],
    ),
    "C12": dict(
        thm=["Bgpfu.Thm.C12"],
        ops=[("hello", [])],
        level_text="Theorems over all documents of the hello grammar and all URI oracles: Session::new refines a "
                   "child-level semantics (establish_refines); for the canonical hello shape the session is established "
                   "iff every capability is a URI, the session-id is a non-zero u32 and :base:1.0 is shared, and the "
                   "context is the hello's (establish_iff); the version is the highest common one; and for EVERY event "
                   "list an established session uses the framing RFC 6242 4.1 requires (established_is_usable), with "
                   "the pinned snapshot's counter-example (v11_unusable_cex). Tied to the code by feeding generated "
                   "hellos to the real Session::new over the in-memory transport and reading the client's own hello "
                   "off the wire. Exactness: for every URI decomposition a table capability is recognised iff scheme, "
                   "authority and path are exactly the table's and there is no query and no fragment, not even an empty "
                   "one (classify_*_iff, parseCapability_base10_iff), the :url schemes are exactly the values of the "
                   "parameters named `scheme` (mem_urlSchemes_iff), and without a capability text that decomposes to "
                   "exactly :base:1.0 no session is established (established_has_exact_base10, establish_iff_exact). A hello followed by a further root element establishes nothing (second_root_refused, second_root_overwrites_cex).",
        level_note="URI validity/decomposition (iri-string) and tokenisation (quick-xml) are annotated inputs. Usability "
                   "rests on the modelling fact that every transport implements end-of-message framing only (C06 model); "
                   "a chunked-framing server is not exercised.",
        rule="server hellos: base-version subsets x session-id texts (valid, 0, 2^32, negative, signed, padded, empty, "
             "missing, duplicated) x namespace spelling x capability lists (known, unknown, url with schemes, invalid "
             "URI, duplicates) x child order, comments, XML declaration, junk element, missing trailer; distinct by text",
        trusted=["iri-string URI parsing (oracle)", "quick-xml tokenisation"],
    ),
    "C16": dict(
        thm=["Bgpfu.Thm.C16"],
        # cfg=pinned: the correspondence rows are compared with the model of the candidate reader as it is in /repo
        # now; switch to cfg=fixed once the proposed repair of fetch.rs (skip statements with other content, accept
        # <then> once) is in /repo. The theorems are about FCfg.fixed; FCfg.pinned has _partial / _cex.
        ops=[("cands", ["cfg=fixed"]), ("e2e", ["c16"])],
        level_text="Theorems over ALL configurations of the configuration grammar (any number/mix of policy-statements; per "
                   "statement any attribute list -- any order, duplicates incl. the duplicate xmlns:jcmd, unrelated attributes, any "
                   "number of jcmd:active / jcmd:comment attributes with any values -- and any body: names, then elements with "
                   "arbitrary children, other elements, empty elements, text, CDATA, comments in any order; comments between "
                   "all levels; any qualified names) and over ALL parser / unescape oracles: the event-level model of "
                   "Policies<Candidate>::read_xml with the proposed repair returns exactly `select` -- the active, annotated, "
                   "default-reject statements with the unescaped <name> text and the parser's verdict on exactly the annotation "
                   "text, in document order, or the duplicate-name error (candidates_eq_select, names_exprs_exact, "
                   "every_managed_selected); an inactive / unannotated / other-content statement does not influence the result "
                   "at all (inactive_never_selected, unannotated_never_selected, other_content_never_selected); the model never "
                   "runs out of fuel on ANY event list (readCandidates_total). For the code as it is in /repo: the same equality "
                   "under the hypothesis that no annotated active statement has other content "
                   "(candidates_eq_select_pinned_partial) and counter-examples to the full statement "
                   "(other_content_fails_read_cex, then_accept_fails_read_cex, extra_then_selected_cex). Attribute order: for a statement with at most one annotation the selection, and what the reader returns for the whole configuration, is the same for every permutation of its attributes (selected_attr_perm, readCandidates_attr_order).",
        level_note="Theorems are about Model/Fetch.lean over quick-xml event lists; tokenisation, namespace resolution, attribute "
                   "unescaping and read_text spans are observed by the harness and trusted. The rpsl parser and "
                   "quick_xml::escape::unescape enter as oracles (theorems hold for every oracle; the run uses the real "
                   "libraries). The string-level definition of `an annotation of the form bgpfu-fltr: <expression>` "
                   "(trim_matches / trim / strip_prefix on List Char, `annotationRaw`) is shared by model and specification. "
                   "A statement whose expression does not parse is selected as managed-but-unevaluable (FExpr.malformed, the "
                   "C03 repair). The verif facade does not tell Parsed from Malformed; the harness re-parses the Display text.",
        rule="op `cands`: generated get-config replies through agent::verif::read_candidates. Exhaustive: every attribute "
             "sequence of length <= 3 (thorough 4) over {xmlns:jcmd, active=false, active=true, annotation, malformed "
             "annotation, plain comment, x:active=false} on a default-reject statement; every such sequence of length <= 2 x 32 "
             "body shapes (orders, comments, double reject, empty/missing then, term before/after, then accept, reject+other, "
             "extra then, second name, empty element, text, CDATA, nameless, <reject></reject>, <then/>, <name/>, PI, bad entity, "
             "nested element in name) next to a well-formed managed statement; 6x6 duplicate-name pairs (managed / malformed / "
             "unannotated / inactive / no reject / other content), escaped-name pairs; 8 document shapes x comments; every "
             "expression x decoration x prefix form x escaping/quoting style; malformed attribute material at every position. "
             "Random: 1-6 statements with shuffled / duplicated attributes, 9 decorations, 6 prefix forms, 8 parseable and 6 "
             "malformed expressions, 10 names with XML metacharacters, escaping variants (entity / numeric references, "
             "single / double quotes), indentation, comments, document shapes. A case is distinct by its descriptor "
             "(style, shape, statement list). corr rows: all cases; spec rows: cases inside the grammar.",
        trusted=["quick-xml 0.31 tokenisation, namespace resolution, attribute unescaping, read_text spans (harness annotates events)",
                 "rpsl MpFilterExpr::from_str / Display and quick_xml::escape::unescape (oracle tables computed by the harness)"],
        assumptions=["Config.WF: jcmd:active / jcmd:comment attribute values and <name> texts are well-formed character data "
                     "(unescapable); element contents hold no element of the enclosing element's own name (Inert); every "
                     "statement has a <name> (list key); <reject></reject> (start/end form) is not recognised as reject "
                     "(C13 known finding empty-form@reject)"],
    ),
    "C14": dict(
        thm=["Bgpfu.Thm.C14", "Bgpfu.Thm.C05"],
        ops=[("fuzz", []), ("frame", ["only-huge"]), ("deep", [])],
        level_text="Theorems over EVERY event list (well-formed or not, tokenizer errors and EOF anywhere): every reader "
                   "loop consumes at least one event per iteration and never needs more than evs.length+1 iterations "
                   "(readMessage_total, establish_total, reader_loops_bounded), and a message without an rpc-reply root "
                   "never yields a value. Supported by mutation fuzzing through the real Session (truncation at every "
                   "byte, splices, flips, duplicated elements, huge numbers, invalid UTF-8, deep nesting) with "
                   "catch_unwind and watchdogs, compared with the reader model on quick-xml's events.",
        level_note="The theorem covers the readers over tokenizer events; the byte-level robustness of quick-xml itself and "
                   "absence of panics in the real code are only exercised (fuzzing is not a proof). The clause about other "
                   "outstanding requests is proved in the session model (C05) and exercised here by the 3-request scenario.",
        rule="mutants of valid replies (4 reply kinds) and hellos: exhaustive truncation of one seed per kind, random "
             "compositions of 12 mutation operators; 3-request scenario with one reply replaced by garbage in random "
             "delivery order; a case is distinct by its bytes",
        trusted=["quick-xml tokeniser (byte-level robustness only exercised)"],
    ),
    "C13": dict(
        thm=["Bgpfu.Thm.C13"],
        ops=[("meta", [])],
        level_text="Event-level rewrites are decided by theorems: comments between children at every level of the reply "
                   "and hello grammars (incl. inside <capabilities> and <load-configuration-results>) are invariant for all "
                   "grammar documents; an XML declaration is invariant for ALL event lists; whitespace around token-valued "
                   "leaf text is invariant for all strings and paddings (trim_pad_invariant); the empty-element form and "
                   "comments inside leaf text are NOT invariant (counter-example theorems; known findings). The prefix-renaming "
                   "rewrite (prefix vs default namespace, another prefix for the same namespace) is decided by theorems at "
                   "event level: it changes exactly the raw qualified names of Start/Empty/End events (renameEvs f), and for "
                   "every injective f every reader is invariant on ALL event lists, every configuration and every oracle - "
                   "replies (readMessage, both parse phases), hello (establish), the agent's candidate reader "
                   "(readCandidatesDoc / readCandidates) and installed-policies reader (readInstalledDoc / readInstalledEv) "
                   "(reply_/hello_/candidates_/installed_rename_invariant, Lemmas/Rename.lean: one commutation lemma per "
                   "loop; no reader compares a raw element name with a constant). Misc around the root element (XML "
                   "document ::= prolog element Misc*) is decided by theorems too: any number of comments in front of the "
                   "root element and between the root's end tag and EOF leave readMessage / establish unchanged for ALL "
                   "event lists body ++ [Eof], every configuration, reply kind and oracle, hence for every document of the "
                   "reply and hello grammars without any well-formedness hypothesis (reply_/hello_leading_comments_invariant, "
                   "reply_/hello_trailing_comments_invariant, reply_/hello_misc_invariant over replyDocMisc / helloDocMisc; "
                   "Lemmas/Misc.lean: fuel-monotonicity and one commutation lemma per reader loop; a PI there is rejected: "
                   "trailing_pi_cex). The remaining tokenizer-level rewrites "
                   "(inter-element whitespace, attribute order/quoting) are invisible in the event list and are covered by "
                   "the metamorphic run only.",
        level_note="The metamorphic run (real code: original vs one rewrite at one target) is testing; it is what ties the "
                   "theorems' event-level rewrites to text-level rewrites. For the prefix rewrite what remains tested only "
                   "is that quick-xml's namespace resolution maps a prefix rewrite of the source text to exactly such a "
                   "renaming of the event list (same resolved namespace, local name, attributes and span; only raw names "
                   "change, injectively). Inter-element whitespace and attribute order/quoting are covered by the "
                   "metamorphic run only. For the agent's configuration readers (fetch.rs; event-level models of C16/C01) "
                   "only the renaming rewrite is a theorem; their other rewrites are covered by the metamorphic run.",
        rule="8 reply documents (4 kinds), a hello, an installed configuration and a running configuration with annotated "
             "statements, each re-serialised with ONE rewrite at ONE target element: prefix style, whitespace between "
             "elements, attribute quotes/order, XML declaration, comment before root / between children of each element "
             "/ inside each token leaf, padding of each token leaf, empty-element form of each childless element; a case "
             "is distinct by (family, rewrite@target)",
        trusted=["quick-xml tokenisation (absorbs the tokenizer-level rewrites)"],
    ),
    "C10": dict(
        thm=["Bgpfu.Thm.C10"],
        ops=[("ser", ["cfg=c1011"]), ("sendecho", [])],
        level_text="Theorems for all byte strings (no bound on lengths or tree size): unescape(escape s) = s; escape never "
                   "emits < > \" ' and & only as one of the five references; a request whose raw leaves are marker-free "
                   "carries the delimiter exactly once, at the end (it is well framed in the sense of C06); well-formed "
                   "fragments give a single well-formed element; every escaped text / attribute leaf is delimited by the "
                   "next < / \" and a conforming parser (line-end + attribute-value normalisation, references) reads back "
                   "the caller's value; a table of which parameter of which operation is raw. Counter-examples (kernel-"
                   "evaluated) for the code as it is: raw text/JSON payloads (D7), TAB/LF/CR in attributes and CR in text "
                   "(D17), a well-formed fragment carrying the delimiter (D18). The writer model is compared byte for byte "
                   "with the real builders + to_xml on ~950 operation x value cases; an independent strict XML 1.0 parser "
                   "is the oracle for well-formedness and value recovery on the real bytes. "
                   "The senders' write_all is modelled as a loop over partial writes (Model/SendLoop.lean): for every "
                   "message and every sequence of non-failing partial-write sizes everything is written (and under any "
                   "sizes a prefix, with Ok exactly when complete), and composed with C06: any number of serialised "
                   "requests written with any partial-write sizes and read with any segmentation are received exactly, "
                   "in order; counter-example for a single write_buf call with a writer accepting less than the message. The delimiter guard is a function of the message bytes, not of the writes that produced them; a per-write guard is strictly weaker (whole_guard_implies_block_guard, per_block_guard_cex).",
        level_note="Theorems are about the Lean tree/render model (Model/Writers.lean); that the real builders produce "
                   "exactly those bytes is sampled (every operation, every free-text slot x ~35 adversarial values, every "
                   "raw slot x 16 fragments, agent payloads through the plan facade). WFC is the XML subset the writers "
                   "produce (no CDATA/comments/PIs/DOCTYPE, double-quoted attributes, no literal > in character data); "
                   "fragments outside the subset are covered through the parameter F of wf_of_wf_fragments. The Char "
                   "production and namespace constraints are not modelled (the harness parser checks Char; unbound "
                   "prefixes are counted, not judged).",
        rule="every operation reachable through the public builders (19 rpc operations incl. all load-configuration "
             "format x action combinations, client hello, close-session) x adversarial values (XML metacharacters, both "
             "quotes, the delimiter, its pieces, references, CDATA/comment look-alikes, non-ASCII, empty, 4.6 kB, "
             "TAB/LF/CR, random strings over a metacharacter alphabet) in every free-text slot; 16 fragments (well-formed, "
             "well-formed with delimiter, ill-formed) in every raw slot; agent create/update/delete payloads for 9 names x "
             "5 filter expressions x range sets; a case is distinct by (message-id, operation, parameter tuple)",
        trusted=["the harness's strict XML 1.0 parser (harness/src/xmlstrict.rs, self-tested; tied to the Lean parseText / "
                 "parseAttr by `ser parse` correspondence rows on every leaf it extracts)",
                 "chrono / Display formatting of at-time, numbers, prefixes and filter expressions (their results are "
                 "ordinary escaped leaves)"],
        assumptions=["none on text values: a value XML 1.0 cannot carry must be refused (D19)", "caller-supplied fragments are well-formed content",
                     "load-configuration sources ConfigurationRevision / Rollback / Url have no public constructor: "
                     "modelled, not exercised"],
    ),
    "C05": dict(
        thm=["Bgpfu.Thm.C05"],
        ops=[("sched", ["only-nodrop"])],
        level_text="Small-step model of rpc()/recv() at .await granularity (receive mutex with FIFO hand-off, request "
                   "map, transport inbox, gate for send back-pressure). Theorems over every reachable state (arbitrary "
                   "action lists): fresh ids, own reply only, no reply delivered twice, unknown ids never delivered, "
                   "receive lock never leaked, completion under a responsive server. The real Session is polled by hand "
                   "(no-op waker) along generated schedules and compared with the model state by state. Ids of failed "
                   "calls included: every executed send draws exactly nextId+1 whatever its outcome, no other action "
                   "touches the counter, so the ids drawn by all sends are 1..nextId, pairwise distinct "
                   "(send_draws_next_id, nextId_never_decreases, ids_never_reused; rollback_reuses_id_cex for the variant "
                   "that gives the id back).",
        level_note="Sound at .await granularity because all shared session state is behind tokio async mutexes (argued in "
                   "Model/Session.lean, not proved); tokio Mutex FIFO hand-off is an assumption exercised by the run. "
                   "Thread-level preemption inside tokio and waker delivery are not modelled.",
        rule="schedules over {send ok/failing builder, gate, poll i, deliver (own id / unknown id / no id / phase-2 "
             "garbage / duplicate), close, fair rounds}: the C18 drop windows, all reply permutations for 3 and 4 "
             "pipelined requests, random schedules up to 20 actions with up to 5 requests; distinct by action list",
        trusted=["tokio::sync::Mutex is FIFO with hand-off; dropping a queued or handed waiter passes the lock on"],
    ),
    "C18": dict(
        thm=["Bgpfu.Thm.C18"],
        ops=[("sched", ["only-drop"]), ("frame", ["only-cancel"])],
        level_text="Same session model with drop actions at every suspension point of a reply future: the receive lock "
                   "is never left with a dropped future, a drop never loses a reply in the current code, survivors "
                   "complete; counter-example theorem for the pinned snapshot (reply lost in the requests-lock window). "
                   "Below the session: the transport's recv() abandoned in the middle of a message, any number of times, "
                   "followed by a new call yields exactly what one uninterrupted call yields (recv_cancel_safe, "
                   "recv_cancel_safe_many, over the framing model of C06), with the counter-example for a receiver whose "
                   "buffer does not survive the call. The real CLI / TLS / SSH receivers are driven in cancel mode: every "
                   "recv() future is dropped after 3 ms without a result and re-created while the peer pauses 12 ms "
                   "between the pieces of a message; the messages delivered must be those of the framing model.",
        level_note="As C05. Drop points of the session model are its suspension points (queued for rx, handed rx, reading). "
                   "Cancel-safety of RecvHandle::recv is no longer assumed: it is the theorem above for the model and the "
                   "cancel-mode correspondence run for the three real transports.",
        rule="as C05, restricted to schedules containing at least one drop; frame op in cancel mode: model messages = "
             "delivered messages although reply futures are abandoned mid-message",
        trusted=["tokio::time::timeout drops the inner future when it fires"],
    ),
    "C20": dict(
        thm=["Bgpfu.Thm.C20"],
        pre_lean="python3 tools/logtable.py",
        ops=[("logs", [])],
        timeout=900,
        technique="Lean 4 non-interference theorem over a table that a translator (tools/logtable.py) regenerates from the "
                  "Rust sources on every run (every tracing::instrument attribute, tracing event macro and error-text "
                  "constructor with the formatter class of each recorded field) + dynamic scan of everything the real "
                  "library/agent write to a capturing subscriber / stderr / log file",
        level_text="Theorem log_noninterference: for all values of the SSH password and of the TLS client key the logging "
                   "sites of netconf and junos-agent write the same text, at every verbosity and under every filter "
                   "(log_noninterference_at_level, log_noninterference_filtered). Proved for ALL tables without a "
                   "secret-printing formatter (induction) and instantiated by deciding that side condition in the kernel on "
                   "the table regenerated from /repo; noninterference_iff_allSafe shows the side condition is exact, so one "
                   "leaking site makes the theorem fail. The table is tied to the code by the translator (fails closed) and "
                   "by checking the runtime metadata (file, line, level, field names) of every callsite seen in real SSH / "
                   "TLS / local-CLI sessions against it.",
        level_note="The theorem is about the source-derived table: it covers every logging and error-text site of the two "
                   "crates, not what dependencies (russh, rustls, tokio) log themselves and not the translator's "
                   "classification rules (formatter evidence for dependency types is re-read from the vendored sources on "
                   "every run; data flow is explicit-flow, name-based, intraprocedural plus function-result summaries). "
                   "Those gaps are covered by a test only: real connection attempts (accepted/rejected passwords, four "
                   "private-key formats, wrong CA / name / key, mis-wired and damaged PEM files given to the real agent "
                   "binary) under a TRACE subscriber and several EnvFilter directives, whose complete output is searched for "
                   "each secret in clear, Debug-escaped, hex, base64 and byte-list form.",
        rule="a case is one real connection attempt or agent run: (transport ssh|tls|cli, outcome variant, secret value, "
             "EnvFilter directive) or (agent, PEM scenario, key format, one-shot|daemon, verbosity); plus one row per distinct "
             "callsite (kind, file, line, level, field names) observed at run time, one row for the table's side condition "
             "and two source-count rows",
        trusted=["tools/logtable.py: lexer, attribute/macro parser, explicit-flow taint rules and the list of secret-carrying "
                 "types (Password, PrivateKeyDer & variants, rustls_pemfile::Item as values; ClientConfig, TlsStream as handles)",
                 "rustc/tracing-attributes semantics of #[instrument] (records every non-skipped parameter with Debug) as "
                 "mirrored by the translator; checked per callsite against runtime metadata only for the sites the runs reach",
                 "the dynamic scan sees only the encodings it searches for (clear, Debug/escape_default, hex, base64 std/url, "
                 "byte list; whole secret, PEM body lines and 16-byte windows of the private part of the key)"],
        assumptions=["error values logged by the agent consist of the error texts constructed in the two crates (table entries "
                     "of kind errtext) and of dependency error texts (scan only)",
                     "methods of rustls ClientConfig / TlsStream and of the russh session handle do not return the secret "
                     "they were built from (results of calls on these handles are not followed by the translator)"],
    ),
    "C04": dict(
        thm=["Bgpfu.Thm.C04", "Bgpfu.Thm.C04Docs"],
        ops=[("agentrun", []), ("e2e", ["c04"])],
        level_text="The run is modelled as a phase program (send all requests of a phase, then await them in order; any "
                   "error ends the run) against a server with one scripted fault. Theorems for EVERY number of loads, "
                   "every fault position and every fault kind: commit is requested only if open, both fetches and all "
                   "loads were positively acknowledged and the connection was still up; a fault at or before the last "
                   "load means no commit and a failed run; the run succeeds iff every request was positively acknowledged. "
                   "The real Updater::run is executed against an in-memory fake Junos for every position x kind. Composition with the reply reader of C08 (Thm/C04Docs): with reply DOCUMENTS instead of abstract acknowledgements, commit is requested only if every earlier request was answered by a document the reader accepts (any event lists), and a load answered by ANY grammar document carrying an rpc-error of severity error (before or after warnings, with or without <ok/>) means no commit and a failed run (no_commit_after_error_reply).",
        level_note="Model of the control flow of task.rs / netconf/mod.rs at request granularity; tokio task plumbing "
                   "(spawn, try_join!, block_in_place) is exercised, not modelled. For connection-closing faults the number "
                   "of already pipelined requests the server still reads is a race and is not compared.",
        rule="N in {0,1,2,5} (thorough: up to 8) updates x every fault position 1..6+N x {rpc-error, malformed reply, "
             "mis-numbered reply, close before reply, close after reply} (exhaustive), plus the fault-free run; observed: "
             "ordered RPC names received by the fake Junos and the result of run()",
        trusted=["fake Junos replies; the IRR side is a fake IRRd (expressions are literal prefix sets)"],
    ),
}
