"""Per-property configuration of ./check: theorem modules, correspondence ops, evidence texts."""

TRUSTED_COMMON = [
    "Lean 4.33 kernel; axioms limited to propext, Classical.choice, Quot.sound (audited per theorem by #print axioms)",
    "the hand-written Lean model is tied to /repo only by the correspondence run (differential testing on generated cases)",
    "harness (vh), line protocol, canonicaliser, modeld's op-line parser",
]


POLICY_TRUSTED = [
    "reference Junos configuration model (Model/Junos.lean: merge semantics of load-configuration with delete attributes, "
    "first-match policy evaluation with protocol default accept) -- my reading of the Junos documentation (DESIGN.md Appendix B)",
    "harness-side rendering of a configuration as a get-config reply (choice-ident/choice-value form; only & < > escaped in text) "
    "and the generic XML-to-element-list conversion of the emitted payloads (quick-xml)",
    "the event-level XML readers are covered by the reader properties (C13/C14/C16); here the reader is modelled on the abstract "
    "configuration structure and tied to the real reader by the `plan read` / read-back rows",
    "rpsl parser verdict (parsed / malformed) and generic-ip text<->value round trip are observed, not modelled",
]
POLICY_RULE = ("op `plan`: real Policies<Installed>::read_xml, Policies<Candidate>::read_xml, compare and write_xml through the "
               "agent::verif facade. Cases: the 6x6 per-family shapes (old in {policy absent, term absent, non-empty} x new in "
               "{empty, non-empty}) x 5 content relations (equal/subset/superset/disjoint/overlapping), 42 foreign (non-agent) "
               "configurations for the reader, every failure kind of a marked statement x 4 installed shapes (40 annotation "
               "breakages), then random histories of 2-6 consecutive runs over a 12-range universe per family with names "
               "incl. XML metacharacters; per step: candidates, read, compare/render vs model (modulo HashMap/HashSet order), "
               "reference-Junos application of the implementation's payloads, read-back through the real reader, second plan "
               "with unchanged inputs; a case is distinct by (initial configuration, sequence of running configurations + IRR results)")

# `variant=` names the model variant the correspondence rows are compared with: `pinned` = the code as it is in
# /repo now (D9, D10, D15-names unrepaired). After the repairs land in /repo switch to `fixed` (or a three-letter
# combination, see Drive/Policy.lean): the theorems are about `Cfg.fixed`.
PENDING_REASON = {}

PROPS = {
    "C01": dict(
        thm=["Bgpfu.Thm.C01"],
        ops=[("plan", ["prop=C01", "variant=pinned"])],
        level_text="Theorems over the model of the diff/patch pipeline and the reference Junos model, no bound on policies, ranges, "
                   "names or runs: every state in the closure of the empty configuration under runs satisfies a decidable "
                   "well-formedness predicate (reachable_agentState); every such state is read back successfully and faithfully "
                   "(readback_total); from every such state, for every evaluated map and EVERY permutation of the emitted update "
                   "list, loading succeeds, every evaluated policy accepts exactly its evaluated IPv4/IPv6 range sets "
                   "(structurally and under first-match route evaluation) and ends in reject, no unmanaged policy is left, "
                   "and the result is again such a state (run_converges, run_accepts_exactly); a further run with unchanged "
                   "inputs is semantically a no-op (run_idempotent); induction over any sequence of runs (runs_history). "
                   "Counter-examples for the pinned writer/readers (readback_pinned_cex, rerun_pinned_cex, raw_names_cex).",
        level_note="The theorems are for Cfg.fixed (a family empty before and after is not written; names unescaped). The real "
                   "code is tied to the model by the correspondence run; the C01 predicate is additionally evaluated on the "
                   "state produced by the implementation's own payloads (incl. read-back through the real reader and a second "
                   "plan), which is where defects D9 (empty <term>) and D15-names show up as violations.",
        rule=POLICY_RULE,
        trusted=POLICY_TRUSTED,
        assumptions=["evaluated ranges satisfy the PrefixRange type invariant (EvValid)",
                     "policy names are unique in a Junos configuration",
                     "commit / rollback behaviour is C04's subject: C01 is about the configuration after all loads"],
    ),
    "C02": dict(
        thm=["Bgpfu.Thm.C02"],
        ops=[("plan", ["prop=C02", "variant=pinned"])],
        level_text="Theorems (for the repaired and the pinned writer alike): from every agent state, each single emitted update "
                   "loads and leaves a policy whose accepting terms each have one of the two families and a non-empty route-filter "
                   "list inside the evaluated set of that family, ending in an unconditional reject (each_update_safe); the same "
                   "after every prefix of every permutation of the update list, all other policies being untouched "
                   "(every_prefix_safe); such a policy accepts a route only if an evaluated range of the route's family matches "
                   "it (accept_subset); every element written lies on configuration/policy-options/policy-statement (payload_rooted).",
        level_note="Domain: the agent's own ephemeral instance (AgentState); foreign_state_cex shows a readable foreign state "
                   "(accepting term without route-filters) that a run does not repair. raw_names_stale_cex: with raw names "
                   "(D15) stale ranges are never deleted -- reported by the run as class name-mangled.",
        rule=POLICY_RULE + "; the C02 predicate is evaluated after each single payload and after every prefix of the emitted "
                           "order, its reverse and a rotation",
        trusted=POLICY_TRUSTED,
        assumptions=["the reader sees the true policy names (c.unescapeNames)", "protocol default when no term and no default action matches is accept"],
    ),
    "C03": dict(
        thm=["Bgpfu.Thm.C03"],
        ops=[("plan", ["prop=C03", "variant=pinned"])],
        level_text="Theorems: a candidate whose evaluation failed gets neither update nor delete and its installed policy is "
                   "literally unchanged after the run -- for every variant of the code, every configuration and every order of the "
                   "updates (failed_eval_no_update, failed_eval_untouched); deletes only for installed non-candidates "
                   "(delete_only_unmanaged); with the repaired candidate reader a still-marked statement whose annotation is "
                   "malformed or whose expression cannot be evaluated is untouched, and deletes go only to policies no longer "
                   "marked (malformed_annotation_untouched, unevaluable_annotation_untouched, delete_only_unmarked, "
                   "unobtainable_untouched_run). Counter-example for the pinned reader: malformed_annotation_pinned_cex (D10).",
        level_note="The resolver clause (unknown as-set => evaluation error, lib/src/query.rs) belongs to the IRR model "
                   "(evalseq op) and is not claimed here: a failed evaluation enters as `ranges: None`, which is what eval.rs "
                   "records for every error. Malformed annotations are fed through the real candidate reader.",
        rule=POLICY_RULE,
        trusted=POLICY_TRUSTED,
        assumptions=["statement names are unique in the running configuration"],
    ),
    "C06": dict(
        thm=["Bgpfu.Thm.C06"],
        ops=[("frame", ["only-open"])],
        level_text="Theorems (no bound on stream length, message count or segmentation): repeated recv() on the TLS/CLI "
                   "receive loop and the SSH pump yield exactly the greedy split of the concatenated stream, for every "
                   "way of cutting it into reads/packets, and never block while a complete delimiter has arrived. "
                   "The model loops are tied to the three real transports by running real child-process, TLS and SSH "
                   "sessions whose peer controls the segmentation.",
        level_note="Theorem is about the Lean loop model (Model/Framing.lean); fidelity to tls.rs / junos_local.rs / ssh.rs is "
                   "sampled by the correspondence run (exhaustive single cuts around delimiters + random multi-cuts). "
                   "OS/TLS/SSH delivery of writes as reads is trusted; the theorem makes the verdict independent of it.",
        rule="real transports (child-process CLI, loopback TLS, loopback SSH) fed by a peer that controls the "
             "segmentation: per message sequence every single cut inside/around each delimiter, all-in-one, "
             "byte-by-byte, random multi-cuts, and close/abort points; a case is distinct by (transport, chunk list, end)",
        trusted=["tokio read_buf / russh channel events deliver the peer's writes as the reads the model is given "
                 "(theorem makes the result independent of the segmentation actually seen)"],
        assumptions=["messages are well framed (first delimiter in body++delimiter is the appended one)"],
    ),
    "C07": dict(
        thm=["Bgpfu.Thm.C07"],
        ops=[("frame", ["only-close"])],
        level_text="Theorems: for every buffer content and every sequence of read results the receive loop never spins and "
                   "can only stay blocked while the stream is open; EOF / I/O error at any point yields an error, again on "
                   "every later call; the SSH pump exits on channel EOF and on channel closure and never spins. Real "
                   "transports are closed/aborted at scripted points with a watchdog and thread-CPU measurement.",
        level_note="Bounded time is proved as bounded loop iterations (one per read event); wall-clock bound and absence of CPU "
                   "spin are observed (watchdog), not proved. Session-level propagation to reply futures is covered by the "
                   "session model once C05 is claimed.",
        rule="as C06, restricted interest: cases whose peer closes (EOF) or aborts at idle / mid-message / "
             "mid-delimiter / before any byte; watchdog + thread CPU time distinguish blocked from spinning",
        trusted=["a 0-byte read_buf means EOF and EOF is sticky", "wall-clock bound observed by watchdog only"],
    ),
}
