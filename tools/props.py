"""Per-property configuration of ./check: theorem modules, correspondence ops, evidence texts."""

TRUSTED_COMMON = [
    "Lean 4.33 kernel; axioms limited to propext, Classical.choice, Quot.sound (audited per theorem by #print axioms)",
    "the hand-written Lean model is tied to /repo only by the correspondence run (differential testing on generated cases)",
    "harness (vh), line protocol, canonicaliser, modeld's op-line parser",
]

PENDING_REASON = {}

PROPS = {
    "C06": dict(
        thm=["Bgpfu.Thm.C06"],
        ops=[("frame", ["only-open"])],
        level_text="Theorems (no bound on stream length, message count or segmentation): repeated recv() on the TLS/CLI "
                   "receive loop and the SSH pump yield exactly the greedy split of the concatenated stream, for every "
                   "way of cutting it into reads/packets, and never block while a complete delimiter has arrived. "
                   "The model loops are tied to the three real transports by running real child-process, TLS and SSH "
                   "sessions whose peer controls the segmentation.",
        level_note="Theorem is about the Lean loop model (Model/Framing.lean); fidelity to tls.rs / junos_local.rs / ssh.rs is "
                   "sampled by the correspondence run (exhaustive single cuts around delimiters + random multi-cuts). "
                   "OS/TLS/SSH delivery of writes as reads is trusted; the theorem makes the verdict independent of it.",
        rule="real transports (child-process CLI, loopback TLS, loopback SSH) fed by a peer that controls the "
             "segmentation: per message sequence every single cut inside/around each delimiter, all-in-one, "
             "byte-by-byte, random multi-cuts, and close/abort points; a case is distinct by (transport, chunk list, end)",
        trusted=["tokio read_buf / russh channel events deliver the peer's writes as the reads the model is given "
                 "(theorem makes the result independent of the segmentation actually seen)"],
        assumptions=["messages are well framed (first delimiter in body++delimiter is the appended one)"],
    ),
    "C11": dict(
        thm=["Bgpfu.Thm.C11"],
        ops=[("evalseq", ["c11"])],
        level_text="Theorems (every database — nested, cyclic, self-referencing sets, v4-only / v6-only / route-less ASes, "
                   "duplicates — every expression and every evaluator state between evaluations): the fake IRRd's recursive "
                   "expansion is the reflexive-transitive membership closure (termination proved); the as-set resolver returns "
                   "the routes of that closure; whenever an evaluation succeeds its result equals, on every prefix of a length the "
                   "family has, an independently written RFC 2622/4012 denotation (AND/OR/NOT, range operators on literals and on "
                   "sets, as-sets, route-sets, aut-nums, filter-set indirection); the IPv4/IPv6 partition handed to the router is "
                   "lossless. The model is tied to the real RpslEvaluator, the bgpfu binary and Policies<Candidate>::evaluate by "
                   "runs against a loopback fake IRRd whose every response body is computed by the Lean model.",
        level_note="Theorems are about the Lean models (Model/Irr.lean, Model/Rpsl.lean) and the Lean specification "
                   "(Model/RpslSpec.lean). The set algebra of generic-ip (any/!/&/|/ranges/as_partitions) and rpsl's parser are "
                   "trusted; outputs are compared with the model by membership on a probe set (every prefix mentioned, parent, "
                   "children, sibling, descendants at every operator bound ±1), not by set equality. Side conditions of "
                   "eval_eq_denote: the upper bound of a ^n-m operator is within the address family (for an operator applied to a "
                   "set: ≤ 32); for the code as it is (Cfg.pinned) no route-set member carries a range operator (D16: such members "
                   "are silently dropped — routeset_range_member_dropped_cex; spec class routeset-range-member-dropped). "
                   "Two further spec classes concern the dependencies in front of / below the evaluator and are not repairable in "
                   "/repo: operator-precedence (the rpsl grammar reads `A AND B OR C` as `A AND (B OR C)` and `NOT A AND B` as "
                   "`NOT (A AND B)`, RFC 2622 §5.4 prescribes NOT > AND > OR; operator_precedence_cex; eval_eq_denote is about the "
                   "tree the parser built) and not-exponential-in-prefix-length (generic-ip 0.1.1 complements a set in time "
                   "exponential in the prefix length: ~0.2 s for a /16, ~40 s for a /24, no result for a /32 — NOT over real IRR "
                   "data does not terminate in practice; therefore NOT is only exercised over prefixes ≤ /12). The agent path is `agent::verif::evaluate` (H3); route-filters installed in the fake "
                   "Junos are covered by the agent-run op of C01.",
        rule="generated databases (≤ 8 sets, ≤ 10 ASes, cyclic / self-referencing membership, unknown member sets, v4-only / "
             "v6-only / route-less ASes, duplicate prefixes, route-sets with prefix, AS and set members, with and without range "
             "operators, filter-sets with one or several objects) × generated expressions (depth ≤ 3); three runners in turn: "
             "RpslEvaluator in-process, bgpfu binary (stdout), H3 evaluate; a case is distinct by (database, expressions, runner)",
        trusted=["generic-ip PrefixSet algebra and range aggregation; rpsl parser (expression text → AST; filter-set object text)",
                 "fake IRRd wire fidelity to IRRd 4 (response framing, D for empty results optional, AS members of route-sets "
                 "resolved server-side)",
                 "probe-set comparison instead of set equality"],
        assumptions=["^n-m upper bounds within the address family (OpsOk / DbOpsOk)",
                     "Cfg.pinned: route-set members are plain prefixes (RsPlain)",
                     "filter-set indirection is acyclic (cyclic filter-sets recurse without bound in the code)"],
    ),
    "C15": dict(
        thm=["Bgpfu.Thm.C15"],
        ops=[("evalseq", ["c15"])],
        level_text="Theorems (evaluator part; every database, every list of candidates in every order, every per-candidate "
                   "fault set): a completed run gives each candidate exactly its solo result (isolation, via C17's connection "
                   "invariant); candidates that fail with an error never abort the run; with the two proposed repairs "
                   "(Cfg.fixed) no expression at all — PeerAS, AS-path regexps, attribute matches included — aborts the run, "
                   "and the evaluator stays usable. For the code as it is (Cfg.pinned) the counter-examples "
                   "peeras_panics_cex / aspath_attr_panic_cex show the abort. Correspondence: mixed policy sets through "
                   "Policies<Candidate>::evaluate (H3) under catch_unwind, and sequences on one RpslEvaluator across panics.",
        level_note="Evaluator part only: the model's `abort` is the panic of the evaluation task; that handle_task then fails the "
                   "whole run before any load/commit (task.rs:57-82,183-189) is the agent-run model's part — the ops list is to be "
                   "extended with the end-to-end agent run (fake Junos + fake IRRd; which policies were updated, exit status). "
                   "Evaluation order inside Policies::evaluate is the HashMap's (random per run); the theorem covers all orders, the "
                   "harness observes whichever orders occur. Spec classes: panic-peeras, panic-aspath-regex, panic-attr-match (D11).",
        rule="policy sets of 2–4 members mixing evaluable expressions, unknown as-/route-/filter-sets, PeerAS, `<^AS…>`, "
             "`community(…)`, and IRRd D/E/F answers selected by query; H3 evaluate under catch_unwind, and the same on one "
             "RpslEvaluator in sequence (each item also on a fresh evaluator)",
        trusted=["panic classification by panic message", "HashMap iteration order is not controlled by the harness"],
        assumptions=["no cyclic filter-sets (diverge)"],
    ),
    "C17": dict(
        thm=["Bgpfu.Thm.C17"],
        ops=[("evalseq", ["c17"])],
        level_text="Theorems (every database, expression, fault set, history; both configurations): after every evaluate — "
                   "successful, failed at any query, panicked — the evaluator holds its connection with no outstanding response; "
                   "evaluating after any history equals evaluating on a fresh evaluator (outcome, queries, consumed responses); "
                   "every consumed response is attributed to the query it answers and the consumed pairs are exactly the sent "
                   "pairs in order. Correspondence: histories of 2–8 expressions on one real RpslEvaluator with D/E/F answers "
                   "injected at chosen query indices / for chosen queries, each expression also on a fresh evaluator, the fake's "
                   "(query, answer) log compared with the model's.",
        level_note="The model abstracts irrc's Pipeline to push / pop / drain-on-drop over whole responses (item-level partial "
                   "consumption inside one response, as in the filter-set resolver's find_map, is irrc's Response::drop and is "
                   "exercised only by the correspondence run: filter-sets with several objects). TCP-level faults (connection "
                   "closed mid-response) are out of scope: irrc then busy-loops on 0-byte reads (observed while building the fake; "
                   "not a property of this repository).",
        rule="generated databases as for C11 (no range-operator members) × histories of 2–8 expressions (repeats of earlier "
             "expressions included, unknown names included) × per-expression fault sets (index- and query-selected D/E/F)",
        trusted=["the fake applies faults by the index of the query within the current evaluation; the harness resets the index "
                 "before each evaluate (sound because of conn_invariant: nothing is in flight between evaluations)"],
    ),
    "C07": dict(
        thm=["Bgpfu.Thm.C07"],
        ops=[("frame", ["only-close"])],
        level_text="Theorems: for every buffer content and every sequence of read results the receive loop never spins and "
                   "can only stay blocked while the stream is open; EOF / I/O error at any point yields an error, again on "
                   "every later call; the SSH pump exits on channel EOF and on channel closure and never spins. Real "
                   "transports are closed/aborted at scripted points with a watchdog and thread-CPU measurement.",
        level_note="Bounded time is proved as bounded loop iterations (one per read event); wall-clock bound and absence of CPU "
                   "spin are observed (watchdog), not proved. Session-level propagation to reply futures is covered by the "
                   "session model once C05 is claimed.",
        rule="as C06, restricted interest: cases whose peer closes (EOF) or aborts at idle / mid-message / "
             "mid-delimiter / before any byte; watchdog + thread CPU time distinguish blocked from spinning",
        trusted=["a 0-byte read_buf means EOF and EOF is sticky", "wall-clock bound observed by watchdog only"],
    ),
}
