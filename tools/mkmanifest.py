#!/usr/bin/env python3
"""Regenerate /verif/MANIFEST.json from tools/props.py (claimed properties) and the list of all ids."""
import json, os, subprocess, sys
ROOT = os.path.dirname(os.path.dirname(os.path.abspath(__file__)))
sys.path.insert(0, os.path.join(ROOT, "tools"))
from props import PROPS, TRUSTED_COMMON, PENDING_REASON
ids = [json.loads(l)["id"] for l in open(os.path.join(ROOT, "properties.jsonl"))]
hooks = subprocess.run(["git", "-C", "/repo", "log", "--format=%H %s"], stdout=subprocess.PIPE, text=True).stdout.splitlines()
hook_commits = [l.split()[0] for l in hooks if "verif hook" in l]
checks = []
for i in ids:
    if i not in PROPS:
        continue
    c = PROPS[i]
    checks.append({
        "property_id": i,
        "quick_cmd": f"./check {i} --tier quick",
        "thorough_cmd": f"./check {i} --tier thorough",
        "evidence_file": f"/verif/evidence/{i}.json",
        "replay_cmd_template": f"./check {i} --replay {{path}}",
        "engine": "lean4-model+correspondence",
        "level_claimed": {
            "category": "proof",
            "text": c["level_text"],
            "design_ref": c.get("design_ref", "DESIGN.md section 6, " + i),
        },
        "level_note": c["level_note"],
        "technique": c.get("technique", "Lean 4 theorems over a hand-written executable model + differential correspondence run against the real code"),
    })
m = {
    "version": 1,
    "setup_cmd": "./setup.sh",
    "hooks": {
        "guard": "--cfg bgpfu_verif",
        "enable": "harness/.cargo/config.toml sets rustflags = [\"--cfg\", \"bgpfu_verif\"]; the harness crate has path dependencies on /repo/{netconf,junos-agent,lib}, so every `cargo build` in /verif/harness rebuilds them from /repo's working tree with the hooks on",
        "baseline_off_cmd": "cd /repo && cargo test --workspace --no-fail-fast --offline",
        "source_commits": hook_commits,
        "add_only": True,
    },
    "engines": [
        {"name": "lean4-model+correspondence", "path": "/verif/lean, /verif/harness, /verif/check",
         "serves_properties": [c["property_id"] for c in checks],
         "kind_free_text": "Lean 4 project (models, property theorems, modeld line-protocol driver) + Rust harness driving the real code + python verdict/evidence driver"},
    ],
    "checks": checks,
    "not_applicable": [{"property_id": i, "reason": PENDING_REASON.get(i, "not claimed yet: model/theorems/correspondence for this property are not built yet (work in progress, see DESIGN.md section 11)")} for i in ids if i not in PROPS],
    "notes": "All claimed properties are decided by machine-checked Lean 4 theorems about hand-written models; the models are tied to /repo on every run by a correspondence (differential) run. See DESIGN.md.",
}
json.dump(m, open(os.path.join(ROOT, "MANIFEST.json"), "w"), indent=1)
print("claimed:", [c["property_id"] for c in checks])
