#!/bin/sh
# tools/seed_intake.sh <Cxx> <name> '<demo command run in the worktree>' [check ids…]
# Confirms an independently written seeded change in its scratch worktree $MUTBASE/<Cxx> (default /tmp/mut)
# (patch compiles, baseline suite passes with it, demonstration fails with it and passes without),
# runs our checks against it in /repo (apply, check, revert), and files it under seeded/<name>/.
P=$1; NAME=$2; DEMO=$3; shift 3
CHECKS=${*:-$P}
W=${MUTBASE:-/tmp/mut}/$P
ROOT=$(cd "$(dirname "$0")/.." && pwd)
export CARGO_TARGET_DIR=$W/target
cd $W || exit 2
if [ -f $W/out/intake_confirm.txt ]; then
  . $W/out/intake_confirm.txt
else
git checkout -q -- . ; git clean -fdq -- netconf junos-agent lib cli 2>/dev/null
git apply out/demo.diff || { echo "demo.diff does not apply"; exit 2; }
sh -c "$DEMO" > $W/out/intake_demo_without.txt 2>&1; RC_WITHOUT=$?
git apply out/patch.diff || { echo "patch.diff does not apply on top of demo"; exit 2; }
sh -c "$DEMO" > $W/out/intake_demo_with.txt 2>&1; RC_WITH=$?
git checkout -q -- . ; git clean -fdq -- netconf junos-agent lib cli 2>/dev/null
git apply out/patch.diff
cargo test --workspace --no-fail-fast --offline > $W/out/intake_suite.txt 2>&1; RC_SUITE=$?
PASSED=$(grep -E "^test result" $W/out/intake_suite.txt | awk '{p+=$4; f+=$6} END {print p "/" f}')
git checkout -q -- . ; git clean -fdq -- netconf junos-agent lib cli 2>/dev/null
rm -rf $W/target
printf 'RC_WITHOUT=%s\nRC_WITH=%s\nRC_SUITE=%s\nPASSED=%s\n' "$RC_WITHOUT" "$RC_WITH" "$RC_SUITE" "$PASSED" > $W/out/intake_confirm.txt
fi
[ -n "$CONFIRM_ONLY" ] && { echo "$P: demo without change rc=$RC_WITHOUT (want 0); with change rc=$RC_WITH (want !=0); suite rc=$RC_SUITE $PASSED"; exit 0; }
echo "demo without change rc=$RC_WITHOUT (want 0); with change rc=$RC_WITH (want !=0); suite with change rc=$RC_SUITE passed/failed=$PASSED"
cd $ROOT; unset CARGO_TARGET_DIR
RES=$(tools/try_patch.sh $W/out/patch.diff $CHECKS 2>&1)
echo "$RES"
mkdir -p seeded/$NAME
cp $W/out/patch.diff seeded/$NAME/patch.diff
cp $W/out/demo.diff seeded/$NAME/demo.diff
cp $W/out/meta.txt seeded/$NAME/meta.txt
python3 - "$P" "$NAME" "$DEMO" "$RC_WITHOUT" "$RC_WITH" "$RC_SUITE" "$PASSED" "$CHECKS" <<PY
import json,sys
p,name,demo,rcw,rcwith,rcs,passed,checks=sys.argv[1:9]
res='''$RES'''
json.dump({"property":p,"name":name,"demonstration_cmd":demo,
 "confirmed":{"demo_without_change_rc":int(rcw),"demo_with_change_rc":int(rcwith),"baseline_suite_with_change_rc":int(rcs),"baseline_passed_failed":passed},
 "checks_run":checks.split(),"check_output":res.splitlines(),
 "detected": any(l.startswith("VIOLATION") for l in res.splitlines())},
 open(f"seeded/{name}/meta.json","w"),indent=1)
PY
