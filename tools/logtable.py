#!/usr/bin/env python3
"""C20 translator: Rust source of netconf + junos-agent  ->  lean/Bgpfu/Model/LogTableGen.lean

One table entry per
  * `#[tracing::instrument(...)]` function              (kind instrument)
  * `tracing::{trace,debug,info,warn,error}!` call       (kind event)
  * error-/panic-text constructor `format!`, `anyhow!`, `bail!`, `ensure!`, `panic!` and per
    `#[error(...)]` (thiserror) attribute                (kind errtext; such text reaches the log through
                                                          `tracing::error!("{err:#}")` in the agent)
with, for every *recorded field*, its name, declared Rust type (text) and a formatter class
  redacting | opaque | derives_secret | unknown
(see Bgpfu/Model/LogTable.lean for the meaning).  Light-weight parsing, FAIL CLOSED: whatever is not
understood becomes an `unknown` field (the theorem then no longer checks) or a translator error (exit 1).

Secret flow (conservative, name-based):
  * a binding is secret-carrying if its declared type mentions a secret type (Password, PrivateKeyDer,
    PrivatePkcs{1,8}KeyDer, PrivateSec1KeyDer, rustls_pemfile::Item, ClientConfig, TlsStream, or a struct/enum
    of the scanned crates that transitively contains one), or if it is bound (let / match arm / if let /
    closure parameter / for) from an expression that mentions a secret-carrying binding, a file read
    (`read_to_end`, `read_to_string`, `fs::read`) or a call of a function of the scanned crates whose result is
    secret-carrying (fixpoint);
  * a recorded field is classified by its formatter whenever its type or its expression mentions a
    secret-carrying binding; it is `opaque (no-secret-flow)` only if neither does.

Environment: LOGTABLE_ROOT (default /repo) = root of the Rust workspace to read; LOGTABLE_OUT = output file
(default <this repo>/lean/Bgpfu/Model/LogTableGen.lean); CARGO_HOME for the dependency sources.
"""
import glob, os, re, sys

HERE = os.path.dirname(os.path.abspath(__file__))
ROOT = os.environ.get("LOGTABLE_ROOT", "/repo")
OUT = os.environ.get("LOGTABLE_OUT", os.path.join(HERE, "..", "lean", "Bgpfu", "Model", "LogTableGen.lean"))
CRATES = ["netconf/src", "junos-agent/src"]
CARGO_HOME = os.environ.get("CARGO_HOME", os.path.expanduser("~/.cargo"))

LEVELS = ["error", "warn", "info", "debug", "trace"]
ERRTEXT_MACROS = ["format", "anyhow", "bail", "ensure", "panic", "unreachable", "todo", "unimplemented",
                  "print", "println", "eprint", "eprintln", "dbg", "write", "writeln", "assert", "assert_eq",
                  "assert_ne", "debug_assert", "debug_assert_eq", "debug_assert_ne", "format_args"]


class Fail(Exception):
    pass


# ----------------------------------------------------------------------------------------------------------
# lexing: blank out comments and the *contents* of string / char literals (same length, newlines kept)
def mask(src):
    out = list(src)
    i, n = 0, len(src)

    def blank(a, b):
        for k in range(a, b):
            if out[k] != "\n":
                out[k] = " "

    while i < n:
        c = src[i]
        if src.startswith("//", i):
            j = src.find("\n", i)
            j = n if j < 0 else j
            blank(i, j)
            i = j
        elif src.startswith("/*", i):
            depth, j = 1, i + 2
            while j < n and depth:
                if src.startswith("/*", j):
                    depth += 1; j += 2
                elif src.startswith("*/", j):
                    depth -= 1; j += 2
                else:
                    j += 1
            if depth:
                raise Fail("unterminated block comment")
            blank(i, j)
            i = j
        elif c == '"' or (c in "br" and re.match(r'(?:br|b|r)#*"', src[i:i + 12]) and (i == 0 or not (src[i - 1].isalnum() or src[i - 1] == "_"))):
            m = re.match(r'(br|b|r)?(#*)"', src[i:i + 40])
            raw = m.group(1) in ("r", "br")
            hashes = m.group(2) if raw else ""
            if not raw and m.group(2):
                i += 1
                continue
            j = i + m.end()
            start = j
            if raw:
                end = src.find('"' + hashes, j)
                if end < 0:
                    raise Fail("unterminated raw string")
                blank(start, end)
                i = end + 1 + len(hashes)
            else:
                while j < n and src[j] != '"':
                    j += 2 if src[j] == "\\" else 1
                if j >= n:
                    raise Fail("unterminated string")
                blank(start, j)
                i = j + 1
        elif c == "'":
            m = re.match(r"'(\\u\{[0-9a-fA-F_]+\}|\\x[0-9a-fA-F]{2}|\\.|[^\\'\n])'", src[i:i + 16])
            if m:
                blank(i + 1, i + m.end() - 1)
                i += m.end()
            else:
                i += 1  # lifetime
        else:
            i += 1
    return "".join(out)


OPEN, CLOSE = "([{", ")]}"


def match_close(m, i):
    """m[i] is an opening bracket; index of its partner"""
    depth = 0
    for j in range(i, len(m)):
        ch = m[j]
        if ch in OPEN:
            depth += 1
        elif ch in CLOSE:
            depth -= 1
            if depth == 0:
                return j
    raise Fail("unbalanced bracket")


def split_top(m, s, a, b, seps=","):
    """split [a,b) of masked text m at top-level separators (also tracks <> outside of ->, =>, <=, >=);
    returns list of (start,end) pairs; text comes from s"""
    parts, depth, ang, start = [], 0, 0, a
    i = a
    while i < b:
        ch = m[i]
        if ch in OPEN:
            depth += 1
        elif ch in CLOSE:
            depth -= 1
        elif ch == "<" and depth >= 0 and i + 1 < b and m[i + 1] not in "=<" and (i == 0 or m[i - 1] not in "<"):
            # generic bracket only if it directly follows an identifier / `::`
            k = i - 1
            while k >= a and m[k] == " ":
                k -= 1
            if k >= a and (m[k].isalnum() or m[k] in "_:" ) and m[i - 1] != " ":
                ang += 1
        elif ch == ">" and ang > 0 and m[i - 1] not in "-=":
            ang -= 1
        elif ch in seps and depth == 0 and ang == 0:
            parts.append((start, i))
            start = i + 1
        i += 1
    parts.append((start, b))
    return [(x, y) for (x, y) in parts if s[x:y].strip() != ""]


def line_of(src, pos):
    return src.count("\n", 0, pos) + 1


IDENT = re.compile(r"[A-Za-z_][A-Za-z0-9_]*")
KEYWORDS = set("as async await break const continue crate dyn else enum extern false fn for if impl in let loop match mod move mut pub ref return self Self static struct super trait true type unsafe use where while".split())


def idents(text):
    return [w for w in IDENT.findall(text)]


def lower_idents(text):
    return {w for w in IDENT.findall(text) if (w[0].islower() or w[0] == "_") and w not in KEYWORDS or w == "self"}


def norm(t):
    return re.sub(r"\s+", " ", t).strip()


# ----------------------------------------------------------------------------------------------------------
# dependency evidence (read from the vendored registry sources)
def registry(crate_dir):
    g = glob.glob(os.path.join(CARGO_HOME, "registry", "src", "*", crate_dir))
    return g[0] if g else None


def locked_version(pkg):
    lock = open(os.path.join(ROOT, "Cargo.lock")).read()
    vs = re.findall(r'name = "%s"\nversion = "([^"]+)"' % re.escape(pkg), lock)
    return vs


def impl_debug_body(src, ty):
    m = re.search(r"impl(?:<[^>]*>)?\s+(?:core::|std::)?(?:fmt::)?Debug\s+for\s+%s\b[^{]*\{" % re.escape(ty), src)
    if not m:
        return None
    msk = mask(src)
    end = match_close(msk, m.end() - 1)
    return src[m.end():end]


def dep_evidence():
    """returns {type name: (formatter, evidence text)} for dependency types that (may) hold the TLS client key.
    Each is checked by reading the dependency's source; anything unexpected -> 'unknown'."""
    ev = {}

    def put(name, ok, where):
        ev[name] = ("opaque", where) if ok else ("unknown", "could not confirm eliding Debug: " + where)

    # rustls-pki-types
    vs = locked_version("rustls-pki-types")
    d = registry("rustls-pki-types-%s" % vs[0]) if len(vs) == 1 else None
    p = os.path.join(d, "src", "lib.rs") if d else None
    src = open(p).read() if p and os.path.exists(p) else ""
    inner_ok = True
    for t in ["PrivatePkcs1KeyDer", "PrivateSec1KeyDer", "PrivatePkcs8KeyDer"]:
        body = impl_debug_body(src, t)
        ok = (body is not None and "secret key elided" in body and "self" not in re.sub(r"&self\b", "", body.split("{", 1)[0] if False else body.replace("&self", ""))
              and re.search(r"struct\s+%s\b" % t, src) is not None)
        inner_ok &= ok
        put(t, ok, "%s: hand-written `impl Debug for %s` prints the constant \"[secret key elided]\", no use of self" % (p, t))
    # PrivateKeyDer: derive(Debug) enum over exactly the three elided types
    m = re.search(r"#\[derive\(([^)]*)\)\]\s*pub enum PrivateKeyDer<'a>\s*\{", src)
    ok = False
    if m and "Debug" in m.group(1):
        msk = mask(src)
        end = match_close(msk, m.end() - 1)
        body = msk[m.end():end]
        payloads = set(re.findall(r"\w+\((\w+)<'a>\)", body))
        ok = inner_ok and payloads == {"PrivatePkcs1KeyDer", "PrivateSec1KeyDer", "PrivatePkcs8KeyDer"} and body.count("(") == 3
    put("PrivateKeyDer", ok, "%s: `#[derive(Debug)] enum PrivateKeyDer` whose three variants wrap the eliding types" % p)

    # rustls-pemfile Item
    vs = locked_version("rustls-pemfile")
    d = registry("rustls-pemfile-%s" % vs[0]) if len(vs) == 1 else None
    p2 = os.path.join(d, "src", "pemfile.rs") if d else None
    src2 = open(p2).read() if p2 and os.path.exists(p2) else ""
    m = re.search(r"#\[derive\(([^)]*)\)\]\s*pub enum Item\s*\{", src2)
    ok = False
    if m and "Debug" in m.group(1):
        msk = mask(src2)
        end = match_close(msk, m.end() - 1)
        payloads = re.findall(r"\w+\((\w+)<'static>\)", msk[m.end():end])
        keyish = [t for t in payloads if "Key" in t or "Private" in t]
        ok = inner_ok and set(keyish) == {"PrivatePkcs1KeyDer", "PrivateSec1KeyDer", "PrivatePkcs8KeyDer"} and \
            set(payloads) <= {"CertificateDer", "PrivatePkcs1KeyDer", "PrivateSec1KeyDer", "PrivatePkcs8KeyDer",
                              "CertificateRevocationListDer", "CertificateSigningRequestDer"}
    put("Item", ok, "%s: `#[derive(Debug)] enum Item`; its private-key variants wrap the eliding rustls-pki-types types" % p2)

    # rustls ClientConfig: derive(Debug); the key lives behind Arc<dyn SigningKey>; every SigningKey/Signer Debug impl
    # of the ring provider prints only the algorithm / scheme
    vs = [v for v in locked_version("rustls")]
    d = registry("rustls-%s" % vs[0]) if len(vs) == 1 else None
    ok = False
    p3 = "<rustls not found or several versions locked>"
    if d:
        p3 = os.path.join(d, "src", "crypto", "ring", "sign.rs")
        src3 = open(p3).read() if os.path.exists(p3) else ""
        msk3 = mask(src3)
        impls = [x for x in re.finditer(r"impl\s+Debug\s+for\s+(\w+)\s*\{", msk3)]
        structs = set(re.findall(r"\bstruct\s+(\w+)", msk3.split("#[cfg(test)]")[0]))
        good = len(impls) > 0
        for x in impls:
            end = match_close(msk3, x.end() - 1)
            body = src3[x.end():end]
            fields = re.findall(r'\.field\("(\w+)"', body)
            if not set(fields) <= {"algorithm", "scheme"} or "self.key" in body or "debug_struct" not in body:
                good = False
        good &= structs <= {x.group(1) for x in impls}
        cc = open(os.path.join(d, "src", "client", "client_conn.rs")).read()
        good &= re.search(r"#\[derive\(Debug\)\]\s*pub struct ClientConfig\b", cc) is not None
        good &= re.search(r"impl\s+(?:fmt::)?Debug\s+for\s+ClientConnection\s*\{[^}]*debug_struct\(\"ClientConnection\"\)\s*\.finish\(\)", cc, re.S) is not None
        hd = open(os.path.join(d, "src", "client", "handy.rs")).read()
        good &= re.search(r"#\[derive\(Debug\)\]\s*pub\(super\) struct AlwaysResolvesClientCert\(Arc<sign::CertifiedKey>\)", hd) is not None
        sg = open(os.path.join(d, "src", "crypto", "signer.rs")).read()
        good &= re.search(r"pub key: Arc<dyn SigningKey>", sg) is not None
        ok = good
    put("ClientConfig", ok, "%s: every `impl Debug for *SigningKey/*Signer` prints only algorithm/scheme; ClientConfig/CertifiedKey derive Debug over Arc<dyn SigningKey>" % p3)
    put("TlsStream", ok, "%s (client_conn.rs): `impl Debug for ClientConnection` is `debug_struct(\"ClientConnection\").finish()`" % (d or "?"))
    return ev


# ----------------------------------------------------------------------------------------------------------
class SrcFile:
    def __init__(self, rel):
        self.rel = rel
        self.src = open(os.path.join(ROOT, rel)).read()
        self.m = mask(self.src)
        self.scopes = []   # (body_start, body_end, self_type, kind)
        self.fns = []      # Fn objects
        self.find_scopes()
        self.find_fns()

    # impl / trait blocks ---------------------------------------------------------------------------------
    def find_scopes(self):
        m = self.m
        for x in re.finditer(r"\b(impl|trait)\b", m):
            # item position: previous non-space token must not be an identifier char other than keywords (`dyn`/`:` exclude)
            k = x.start() - 1
            while k >= 0 and m[k] in " \n\t":
                k -= 1
            prev = m[max(0, k - 12):k + 1]
            if x.group(1) == "impl":
                if k >= 0 and not (m[k] in "};]" or re.search(r"\b(unsafe|default)$", prev)) and k >= 0:
                    continue  # `impl Trait` in type position
            else:
                if k >= 0 and not (m[k] in "};])" or re.search(r"\b(pub|unsafe)$", prev)):
                    continue
            # header up to the first `{` or `;` at depth 0
            j, depth = x.end(), 0
            while j < len(m):
                if m[j] in "([":
                    depth += 1
                elif m[j] in ")]":
                    depth -= 1
                elif m[j] in "{;" and depth == 0:
                    break
                j += 1
            if j >= len(m) or m[j] == ";":
                continue
            header = m[x.end():j]
            end = match_close(m, j)
            if x.group(1) == "trait":
                name = re.match(r"\s*(\w+)", header)
                self_ty = "Self/*trait %s*/" % (name.group(1) if name else "?")
            else:
                h = re.split(r"\bwhere\b", header)[0]
                # strip leading generics
                h = h.strip()
                if h.startswith("<"):
                    d, q = 0, 0
                    for q, ch in enumerate(h):
                        if ch == "<":
                            d += 1
                        elif ch == ">" and h[q - 1] != "-":
                            d -= 1
                            if d == 0:
                                break
                    h = h[q + 1:]
                parts = re.split(r"\bfor\b", h)
                self_ty = norm(parts[-1])
            self.scopes.append((j, end, self_ty, x.group(1)))

    def self_type_at(self, pos):
        best = None
        for (a, b, ty, _k) in self.scopes:
            if a < pos < b and (best is None or a > best[0]):
                best = (a, ty)
        return best[1] if best else None

    # functions -------------------------------------------------------------------------------------------
    def find_fns(self):
        m, s = self.m, self.src
        for x in re.finditer(r"\bfn\s+(\w+)", m):
            j = x.end()
            while j < len(m) and m[j] in " \n\t":
                j += 1
            if j < len(m) and m[j] == "<":
                d = 0
                while j < len(m):
                    if m[j] == "<":
                        d += 1
                    elif m[j] == ">" and m[j - 1] != "-":
                        d -= 1
                        if d == 0:
                            j += 1
                            break
                    j += 1
                while j < len(m) and m[j] in " \n\t":
                    j += 1
            if j >= len(m) or m[j] != "(":
                continue  # `fn` in a type (fn pointer) or macro fragment
            pe = match_close(m, j)
            params = []
            for (a, b) in split_top(m, s, j + 1, pe):
                params.append(parse_param(norm(re.sub(r"#\[[^\]]*\]", "", m[a:b]))))
            k, depth = pe + 1, 0
            while k < len(m):
                if m[k] in "([":
                    depth += 1
                elif m[k] in ")]":
                    depth -= 1
                elif m[k] in "{;" and depth == 0:
                    break
                k += 1
            sig_tail = m[pe + 1:k]
            rm = re.match(r"\s*->\s*(.*?)(\bwhere\b.*)?$", sig_tail, re.S)
            ret = norm(rm.group(1)) if rm else "()"
            body = None
            if k < len(m) and m[k] == "{":
                body = (k, match_close(m, k))
            self.fns.append(Fn(self, x.group(1), x.start(), params, ret, body))

    def fn_at(self, pos):
        best = None
        for f in self.fns:
            if f.body and f.body[0] < pos < f.body[1] and (best is None or f.body[0] > best.body[0]):
                best = f
        return best


def parse_param(p):
    """-> (pattern, type text or None for a bare self receiver, is_self)"""
    if re.fullmatch(r"(&\s*('\w+\s+)?)?(mut\s+)?self", p):
        return ("self", None, True)
    if re.match(r"(mut\s+)?self\s*:", p):
        return ("self", norm(p.split(":", 1)[1]), True)
    # split at the first top-level ':' that is not '::'
    depth = 0
    for i, ch in enumerate(p):
        if ch in "([{<":
            depth += 1
        elif ch in ")]}>":
            depth -= 1
        elif ch == ":" and depth == 0 and p[i:i + 2] != "::" and (i == 0 or p[i - 1] != ":"):
            pat = re.sub(r"^\s*mut\s+", "", p[:i].strip())
            return (pat, norm(p[i + 1:]), False)
    return (p, "?", False)


class Fn:
    def __init__(self, f, name, pos, params, ret, body):
        self.f, self.name, self.pos, self.params, self.ret, self.body = f, name, pos, params, ret, body
        self.self_ty = f.self_type_at(pos)
        self.tainted = {}      # ident -> reason
        self.types = {}        # ident -> declared type text
        self.inits = {}        # ident -> initialiser text (for type inference of un-annotated lets)
        self.handles = {}      # ident -> (handle type, why): built from a secret, not followed further
        self.ret_secret = None
        for (pat, ty, is_self) in params:
            if is_self:
                self.types["self"] = ty if ty else (self.self_ty or "Self")
            elif re.fullmatch(r"\w+", pat):
                self.types[pat] = ty

    def qual(self):
        t = self.self_ty
        return (re.sub(r"\s+", "", t) + "::" if t else "") + self.name


# ----------------------------------------------------------------------------------------------------------
class World:
    def __init__(self):
        self.files = []
        for c in CRATES:
            base = os.path.join(ROOT, c)
            if not os.path.isdir(base):
                raise Fail("missing crate dir " + base)
            for p in sorted(glob.glob(os.path.join(base, "**", "*.rs"), recursive=True)):
                self.files.append(SrcFile(os.path.relpath(p, ROOT)))
        if len(self.files) < 10:
            raise Fail("suspiciously few source files")
        self.dep = dep_evidence()
        self.local_types = {}   # name -> dict(kind, derive_debug, manual_debug(body|None), fields[(name,type)], file)
        self.collect_types()
        self.secret_types = {}  # name -> (formatter, evidence)
        self._scope = {}
        self.resolve_secret_types()
        self.notes = []

    # struct / enum definitions of the scanned crates ------------------------------------------------------
    def collect_types(self):
        for f in self.files:
            m, s = f.m, f.src
            for x in re.finditer(r"\b(struct|enum)\s+(\w+)", m):
                name = x.group(2)
                # attributes before
                pre = m[max(0, x.start() - 400):x.start()]
                attrs = re.findall(r"#\[derive\(([^)]*)\)\]", pre.split("}")[-1].split(";")[-1])
                derive_debug = any("Debug" in a for a in attrs)
                j = x.end()
                # skip generics
                while j < len(m) and m[j] not in "{(;":
                    j += 1
                fields = []
                if j < len(m) and m[j] in "{(":
                    e = match_close(m, j)
                    if x.group(1) == "struct":
                        for k, (a, b) in enumerate(split_top(m, s, j + 1, e)):
                            t = norm(re.sub(r"#\[[^\]]*\]", "", m[a:b]))
                            t = re.sub(r"^pub(\([^)]*\))?\s+", "", t)
                            if m[j] == "{":
                                pm = re.match(r"(\w+)\s*:\s*(.*)$", t, re.S)
                                if pm:
                                    fields.append((pm.group(1), norm(pm.group(2))))
                            else:
                                fields.append((str(k), t))
                    else:
                        fields.append(("*", norm(m[j + 1:e])))   # enum: all payload types as one text
                body = None
                for g in self.files:
                    b = impl_debug_body(g.src, name) if re.search(r"Debug\s+for\s+%s\b" % name, g.m) else None
                    if b is not None:
                        body = (g.rel, b, line_of(g.src, re.search(r"Debug\s+for\s+%s\b" % name, g.m).start()))
                prev = self.local_types.get(name)
                entry = dict(kind=x.group(1), derive_debug=derive_debug, manual=body, fields=fields, file=f.rel,
                             line=line_of(s, x.start()))
                if prev:
                    prev.setdefault("dups", []).append(entry)   # same name twice (e.g. tls::Sender / ssh::Sender)
                else:
                    self.local_types[name] = entry

    def resolve_secret_types(self):
        st = {}
        # Password: hand-written Debug, must not touch field 0
        p = self.local_types.get("Password")
        if p:
            if p["manual"]:
                rel, body, ln = p["manual"]
                b = mask(body)
                touches = re.search(r"self\s*\.\s*0|self\s*\.\s*\w+\s*\(|\bself\b(?!\s*\))", re.sub(r"&self\s*,", "", b))
                # only the receiver `&self` in the signature may mention self
                sig_stripped = re.sub(r"fn\s+fmt\s*\(\s*&self\s*,", "fn fmt(", b)
                touches = re.search(r"\bself\b", sig_stripped)
                if touches:
                    st["Password"] = ("derives_secret", "%s:%d `impl Debug for Password` references self" % (rel, ln))
                elif re.search(r"debug_tuple\(\s*\"Password\"\s*\)\s*\.field\(\s*&\s*\"[^\"]*\"\s*\)\s*\.finish\(\)", body) or \
                        re.search(r"write(_str)?!?\s*\(", body):
                    st["Password"] = ("redacting", "%s:%d hand-written `impl Debug for Password` emits a constant, no reference to self" % (rel, ln))
                else:
                    st["Password"] = ("unknown", "%s:%d `impl Debug for Password` not understood" % (rel, ln))
            elif p["derive_debug"]:
                st["Password"] = ("derives_secret", "%s:%d Password derives Debug" % (p["file"], p["line"]))
            else:
                st["Password"] = ("unknown", "no Debug impl found for Password")
            if self.impl_exists("Display", "Password"):
                st["Password"] = ("unknown", "Password implements Display (not analysed)")
        else:
            st["Password"] = ("unknown", "type Password not found in the scanned crates")
        for k, v in self.dep.items():
            st[k] = v
        # VALUE types hold the secret bytes themselves (taint seeds, data flow is followed);
        # HANDLE types hold it behind an API that does not give it back (ClientConfig, TlsStream): recording them is
        # classified by their formatter, but results of calls on them are not followed (assumption, see DESIGN)
        self.value_types = {"Password", "PrivateKeyDer", "PrivatePkcs1KeyDer", "PrivatePkcs8KeyDer", "PrivateSec1KeyDer", "Item"}
        self.handle_types = {"ClientConfig", "TlsStream"}
        # local aggregates containing secret types (fixpoint).  A name defined more than once (tls::Sender, ssh::Sender …)
        # is resolved per defining file; from other files the worst variant counts.
        self.per_file = {}     # (name, file) -> (fmt, evidence) | None
        changed, rounds = True, 0
        while changed:
            changed = False
            for name, d in self.local_types.items():
                if name in self.dep or name == "Password":
                    continue
                variants = [d] + d.get("dups", [])
                worst = None
                for v in variants:
                    inner = []
                    for (_n, ty) in v["fields"]:
                        for t in idents(ty):
                            i = self.info_at(st, t, v["file"])
                            if i:
                                inner.append((t, i))
                    w = None
                    if inner:
                        names_in = ",".join(sorted({t for t, _ in inner}))
                        if v["manual"]:
                            w = ("unknown", "%s: hand-written Debug for %s, which contains %s" % (v["manual"][0], name, names_in))
                        elif v["derive_debug"]:
                            w0 = max((i for _, i in inner), key=lambda z: RANK[z[0]])
                            w = (w0[0], "%s:%d derive(Debug) %s over {%s}; %s" % (v["file"], v["line"], name, names_in, w0[1]))
                        else:
                            w = ("opaque", "%s:%d %s has no Debug impl (cannot be recorded with `?`)" % (v["file"], v["line"], name))
                        is_value = any(t in self.value_types for t, _ in inner)
                    key = (name, v["file"])
                    if key not in self.per_file or (self.per_file[key] or (None,))[0] != (w or (None,))[0]:
                        self.per_file[key] = w
                        changed = True
                    if w and (worst is None or RANK[w[0]] > RANK[worst[0]]):
                        worst = w
                        (self.value_types if is_value else self.handle_types).add(name)
                if (worst or (None,))[0] != (st.get(name) or (None,))[0]:
                    if worst:
                        st[name] = worst
                    else:
                        st.pop(name, None)
                    changed = True
            rounds += 1
            if rounds > 200:
                raise Fail("type resolution did not converge")
        self.secret_types = st

    DEP_CRATE = {"PrivateKeyDer": "rustls_pki_types|pki_types", "PrivatePkcs1KeyDer": "rustls_pki_types|pki_types",
                 "PrivatePkcs8KeyDer": "rustls_pki_types|pki_types", "PrivateSec1KeyDer": "rustls_pki_types|pki_types",
                 "Item": "rustls_pemfile", "ClientConfig": "rustls|tokio_rustls", "TlsStream": "tokio_rustls"}

    def info_at(self, st, name, rel):
        """formatter info of type `name` as seen from file `rel`"""
        if (name, rel) in self.per_file:
            return self.per_file[(name, rel)]
        return st.get(name)

    def info(self, name, f):
        return self.info_at(self.secret_types, name, f.rel if f else None)

    def in_scope(self, f, name):
        """dependency type names count only where the file imports them from the expected crate (or glob-imports it)"""
        if name not in self.DEP_CRATE:
            return True
        key = (f.rel, name)
        if key not in self._scope:
            crate = self.DEP_CRATE[name]
            ok = False
            for u in re.finditer(r"\buse\s+([^;]*);", f.m):
                t = u.group(1)
                if re.search(r"\b(%s)\b" % crate, t) and (re.search(r"\b%s\b" % name, t) or "*" in t):
                    ok = True
            if re.search(r"\b(%s)\s*::\s*(\w+\s*::\s*)*%s\b" % (crate, name), f.m):
                ok = True
            self._scope[key] = ok
        return self._scope[key]

    def impl_exists(self, trait, ty):
        for f in self.files:
            if re.search(r"\b%s\s+for\s+%s\b" % (trait, ty), f.m):
                return True
        return False

    # taint ------------------------------------------------------------------------------------------------
    def type_secret(self, ty, self_ty=None, f=None, only=None):
        """list of secret type names mentioned by a type text (in file f)"""
        if ty is None:
            return []
        names = idents(ty)
        if self_ty and "Self" in names:
            names += idents(self_ty)
        return [t for t in names if t in self.secret_types and (only is None or t in only) and (f is None or self.in_scope(f, t))
                and (f is None or self.info(t, f) is not None)]

    def expr_tainted(self, fn, text):
        """reason string if expression text (masked) carries a secret VALUE in fn (explicit data flow only)"""
        t = text.strip()
        bm = re.match(r"(?:(?:async|unsafe)\s+(?:move\s+)?)?\{", t)
        if bm:
            try:
                e = match_close(t, bm.end() - 1)
            except Fail:
                e = None
            if e is not None and t[e + 1:].strip(" \n\t?;") in ("", ".await"):
                # a block as a value: only its tail expression flows into the result
                body = t[bm.end():e]
                depth, last = 0, 0
                for i, ch in enumerate(body):
                    if ch in OPEN:
                        depth += 1
                    elif ch in CLOSE:
                        depth -= 1
                    elif ch == ";" and depth == 0:
                        last = i + 1
                return self.expr_tainted(fn, body[last:]) if body[last:].strip() else None
        if re.match(r"match\b", t):
            # `match SCRUT { PAT => BODY, … }` as a value: only the arm bodies flow into the result (their pattern
            # bindings are tainted separately when the scrutinee is); control dependence is not followed
            j, depth = 5, 0
            while j < len(t):
                if t[j] in "([":
                    depth += 1
                elif t[j] in ")]":
                    depth -= 1
                elif t[j] == "{" and depth == 0:
                    break
                j += 1
            if j < len(t):
                try:
                    e = match_close(t, j)
                except Fail:
                    e = None
                if e is not None and t[e + 1:].strip(" \n\t?;") in ("", ".await"):
                    for (pa, pb, ba, bb) in match_arms(t, j, e):
                        r = self.expr_tainted(fn, t[ba:bb])
                        if r:
                            return r
                    return None
        ids = set(IDENT.findall(text))
        for i in sorted(ids):
            if i in fn.tainted:
                return "mentions `%s` (%s)" % (i, fn.tainted[i])
        if re.search(r"\bfs::read(_to_string)?\s*\(", text) or (
                re.search(r"\b(read_to_end|read_to_string|read_exact|read_buf|read)\s*\(", text) and fn.body and
                re.search(r"\bFile::(open|options)\b|\bOpenOptions\b|\bfs::", fn.f.m[fn.body[0]:fn.body[1]])):
            return "reads a file"
        for name in sorted(ids):
            for g in self.ret_secret_fns.get(name, []):
                for q in re.finditer(r"(?:(\w+)\s*::\s*|(\.)\s*)?\b%s\s*(::<[^>]*>)?\s*\(" % name, text):
                    if q.group(1):     # Type::name( — the type must match (Self matches the enclosing impl)
                        if q.group(1) == "Self":
                            if fn.self_ty != g.self_ty:
                                continue
                        elif not g.self_ty or q.group(1) not in idents(g.self_ty):
                            continue
                    elif q.group(2):   # .name( — a method: g must take self
                        if not any(p[2] for p in g.params):
                            continue
                    else:              # bare name( — a free function
                        if g.self_ty:
                            continue
                    return "calls %s (%s)" % (g.qual(), g.ret_secret)
        return None

    def analyse(self):
        fns = [fn for f in self.files for fn in f.fns if fn.body]
        self.ret_secret_fns = {}
        # seeds: parameters typed with a secret VALUE type
        for fn in fns:
            for (pat, ty, is_self) in fn.params:
                t = fn.types.get("self") if is_self else ty
                sec = self.type_secret(t, fn.self_ty, fn.f, self.value_types)
                if sec:
                    for i in (["self"] if is_self else lower_idents(pat)):
                        fn.tainted[i] = "declared type mentions %s" % sec[0]
        for _round in range(16):
            changed = False
            for fn in fns:
                changed |= self.propagate(fn)
                if fn.ret_secret is None:
                    r = None
                    sec = self.type_secret(fn.ret, fn.self_ty, fn.f, self.value_types)
                    if sec:
                        r = "return type mentions %s" % sec[0]
                    elif raw_data_type(fn.ret):
                        r0 = self.tail_tainted(fn)
                        if r0:
                            r = "returns plain data `%s` and its result %s" % (fn.ret, r0)
                    if r:
                        fn.ret_secret = r
                        self.ret_secret_fns.setdefault(fn.name, []).append(fn)
                        changed = True
            if not changed:
                break
        else:
            raise Fail("taint fixpoint did not converge")

    def tail_tainted(self, fn):
        m = fn.f.m
        a, b = fn.body
        body = m[a + 1:b]
        # `return EXPR` anywhere, and the tail expression (text after the last top-level `;`)
        for x in re.finditer(r"\breturn\b([^;]*);", body):
            r = self.expr_tainted(fn, x.group(1))
            if r:
                return r
        depth, last = 0, 0
        for i, ch in enumerate(body):
            if ch in OPEN:
                depth += 1
            elif ch in CLOSE:
                depth -= 1
            elif ch == ";" and depth == 0:
                last = i + 1
        tail = body[last:]
        if tail.strip():
            return self.expr_tainted(fn, tail)
        return None

    def propagate(self, fn):
        f = fn.f
        m = f.m
        a, b = fn.body
        changed = False

        def taint(names, why):
            nonlocal changed
            for n in names:
                if n not in fn.tainted and n not in ("_",) and n not in fn.handles:
                    fn.tainted[n] = why
                    changed = True

        def bind(names, expr, why):
            """bind names from a tainted expression: a HANDLE constructor absorbs the secret (not followed further)"""
            nonlocal changed
            heads = [t for t in idents(expr) if t in self.handle_types and self.in_scope(f, t)]
            if heads and re.search(r"\b%s\s*(::|\{|\()" % heads[0], expr):
                for n in names:
                    if n not in fn.handles:
                        fn.handles[n] = (heads[0], why)
                        changed = True
            else:
                taint(names, why)

        # let PAT (: TYPE)? = EXPR ;   |  if let / while let PAT = EXPR {
        for x in re.finditer(r"\blet\b", m[a:b]):
            p0 = a + x.end()
            i, depth, ang = p0, 0, 0
            colon = eq = None
            while i < b:
                ch = m[i]
                if ch in OPEN:
                    depth += 1
                elif ch in CLOSE:
                    if depth == 0:
                        break
                    depth -= 1
                elif ch == "<":
                    ang += 1
                elif ch == ">" and m[i - 1] not in "-=" and ang > 0:
                    ang -= 1
                elif depth == 0 and ch == ":" and m[i + 1] != ":" and m[i - 1] != ":" and colon is None and ang == 0:
                    colon = i
                elif depth == 0 and ch == "=" and m[i + 1] not in "=>" and m[i - 1] not in "=!<>+-*/|&^%":
                    eq = i
                    break
                elif depth == 0 and ch == ";":
                    break
                i += 1
            pat_end = colon if colon is not None else (eq if eq is not None else i)
            pat = m[p0:pat_end]
            ty = norm(m[colon + 1:(eq if eq is not None else i)]) if colon is not None else None
            names = lower_idents(re.sub(r"\b(mut|ref)\b", " ", pat)) - {"self"}
            before = m[max(a, a + x.start() - 8):a + x.start()]
            is_cond = re.search(r"\b(if|while)\s*$", before) is not None
            expr = ""
            if eq is not None:
                j, depth = eq + 1, 0
                while j < b:
                    ch = m[j]
                    if ch in OPEN:
                        if is_cond and ch == "{" and depth == 0:
                            break
                        depth += 1
                    elif ch in CLOSE:
                        if depth == 0:
                            break
                        depth -= 1
                    elif ch == ";" and depth == 0:
                        break
                    j += 1
                expr = m[eq + 1:j]
            simple = re.fullmatch(r"\s*(mut\s+)?(\w+)\s*", pat)
            if ty and simple and not is_cond:
                fn.types.setdefault(simple.group(2), ty)
            if simple and not ty and expr:
                fn.inits.setdefault(simple.group(2), norm(expr))
            if ty and self.type_secret(ty, fn.self_ty, f, self.value_types):
                taint(names, "declared type mentions %s" % self.type_secret(ty, fn.self_ty, f, self.value_types)[0])
            elif expr:
                r = self.expr_tainted(fn, expr)
                if r:
                    bind(names, expr, "bound from an expression that " + r)
        # match EXPR { PAT => … }: pattern bindings of a tainted scrutinee
        for x in re.finditer(r"\bmatch\b", m[a:b]):
            p0 = a + x.end()
            j, depth = p0, 0
            while j < b:
                if m[j] in "([":
                    depth += 1
                elif m[j] in ")]":
                    depth -= 1
                elif m[j] == "{" and depth == 0:
                    break
                j += 1
            if j >= b:
                continue
            scrut = m[p0:j]
            e = match_close(m, j)
            sty = self.scrutinee_type(fn, scrut)
            r = self.expr_tainted(fn, scrut)
            for (pa, pb, ba, bb) in match_arms(m, j, e):
                pat = re.split(r"\bif\b", m[pa:pb])[0]
                one = re.fullmatch(r"\s*(mut\s+)?([a-z_]\w*)\s*", pat)
                if one and sty:
                    fn.types.setdefault(one.group(2), sty)     # catch-all binding has the scrutinee's type
                if r:
                    taint(lower_idents(re.sub(r"\b(mut|ref)\b", " ", pat)) - {"self"}, "match-arm binding of an expression that " + r)
        # for PAT in EXPR {
        for x in re.finditer(r"\bfor\b([^;{}]*?)\bin\b([^{;]*)\{", m[a:b]):
            r = self.expr_tainted(fn, x.group(2))
            if r:
                taint(lower_idents(x.group(1)) - {"self"}, "loop binding over an expression that " + r)
        # closures: parameters are tainted if the enclosing statement (text before the closure) is
        for x in re.finditer(r"(?:[(,=]|\bmove\b)\s*\|([^|{};]*)\|", m[a:b]):
            pos = a + x.start()
            i, depth = pos, 0
            while i > a:
                ch = m[i]
                if ch in CLOSE:
                    depth += 1
                elif ch in OPEN:
                    if depth == 0:
                        if ch == "{":
                            break
                    else:
                        depth -= 1
                elif ch == ";" and depth == 0:
                    break
                i -= 1
            ctx = m[i + 1:pos + 1]
            r = self.expr_tainted(fn, ctx)
            if r:
                params = re.sub(r":[^,|]*", "", x.group(1))
                taint(lower_idents(re.sub(r"\b(mut|ref)\b", " ", params)) - {"self"}, "closure parameter in a statement that " + r)
        # assignments `x = EXPR;`, `&mut x` arguments and mutating receivers in tainted statements
        for x in re.finditer(r"(?<![=!<>+\-*/|&^%.:\w])\s(\w+)\s*(?:[+|&^]?=)(?![=>])([^;]*);", m[a:b]):
            if x.group(1) in KEYWORDS or not (x.group(1)[0].islower() or x.group(1)[0] == "_"):
                continue
            r = self.expr_tainted(fn, x.group(2))
            if r:
                taint({x.group(1)} - {"_"}, "assigned from an expression that " + r)
        for x in re.finditer(r"&mut\s+(\w+)", m[a:b]):
            s0 = max(m.rfind(";", a, a + x.start()), m.rfind("{", a, a + x.start()))
            s1 = m.find(";", a + x.end(), b)
            stmt = m[s0 + 1:(s1 if s1 > 0 else b)]
            r = self.expr_tainted(fn, stmt)
            if r and x.group(1) != "self":
                taint({x.group(1)}, "passed as &mut in a statement that " + r)
        for x in re.finditer(r"\b(\w+)\s*\.\s*(push|push_str|extend|extend_from_slice|insert|append|put|put_slice|write_all|write_str)\s*\(", m[a:b]):
            e = match_close(m, a + x.end() - 1)
            r = self.expr_tainted(fn, m[a + x.end():e])
            if r and x.group(1) != "self":
                taint({x.group(1)}, "mutated with an argument that " + r)
        return changed

    def scrutinee_type(self, fn, scrut):
        """type of `name(args)[.await][?]` / `Type::name(args)…` when `name` is a unique function of the scanned crates"""
        t = norm(scrut)
        mm = re.fullmatch(r"(?:(\w+)\s*::\s*)?(\w+)\s*\((.*)\)\s*(\.\s*await)?\s*(\?)?", t, re.S)
        if not mm:
            return None
        cands = [g for f in self.files for g in f.fns if g.name == mm.group(2)]
        if len(cands) != 1:
            return None
        ret = cands[0].ret
        if mm.group(5):
            r = re.fullmatch(r"(?:\w+::)*Result<(.*)>", ret)
            if not r:
                return None
            inner = split_top(r.group(1), r.group(1), 0, len(r.group(1)))
            ret = r.group(1)[inner[0][0]:inner[0][1]].strip()
        return ret

    # classification ------------------------------------------------------------------------------------------
    def field_type(self, fn, expr):
        """declared type of a recorded expression, '_' if not syntactically evident"""
        e = norm(expr)
        e = re.sub(r"^[&*]+\s*", "", e)
        if fn is None:
            return "_"
        if re.fullmatch(r"\w+", e):
            return fn.types.get(e, "_")
        mm = re.fullmatch(r"self\s*\.\s*(\w+)", e)
        if mm:
            st = fn.types.get("self") or fn.self_ty or ""
            for t in idents(st):
                d = self.local_types.get(t)
                if d:
                    for v in [d] + d.get("dups", []):
                        if v["file"] == fn.f.rel or not d.get("dups"):
                            for (n, ty) in v["fields"]:
                                if n == mm.group(1):
                                    return ty
            return "_"
        return "_"

    def classify(self, fn, name, expr, ty, mode):
        """-> (formatter, src, evidence).  mode: 'debug' | 'display' | 'value'"""
        f = fn.f if fn else None
        sec = self.type_secret(ty, fn.self_ty if fn else None, f) if ty not in (None, "_") else []
        me = mask_expr(expr)
        flow = self.expr_tainted(fn, me) if fn else None
        hnd = [i for i in IDENT.findall(me) if fn and i in fn.handles]
        if not sec and not flow and not hnd:
            if is_error_value(expr, ty):
                return ("opaque", "any", "no-secret-flow (error value: its text is composed of the errtext entries of this table and of dependency error texts, which only the dynamic scan covers)")
            return ("opaque", "any", "no-secret-flow")
        if sec:
            worst = max((self.info(t, f) for t in sec), key=lambda z: RANK[z[0]])
            fmt, ev = worst
            if mode != "debug" and fmt in ("redacting", "opaque"):
                return ("unknown", src_of(sec, flow), "secret-carrying type %s recorded with %s formatting (only its Debug was inspected)" % (sec[0], mode))
            return (fmt, src_of(sec, flow), "type mentions %s: %s" % (sec[0], ev))
        if hnd and not flow:
            ht, why = fn.handles[hnd[0]]
            fmt, ev = self.secret_types[ht]
            if mode != "debug":
                return ("unknown", src_of([ht], why), "handle %s recorded with %s formatting (only its Debug was inspected)" % (ht, mode))
            return (fmt, src_of([ht], why), "`%s` is a %s built from the secret (%s): %s" % (hnd[0], ht, why, ev))
        # secret value flows in, and the declared type names no secret type
        if ty in (None, "_"):
            e0 = norm(re.sub(r"^[&*]+\s*", "", expr))
            init = fn.inits.get(e0) if fn else None
            text = init if init else e0
            heads = [t for t in idents(mask_expr(text)) if t[0].isupper()]
            if heads and all(t in PLAIN_DATA for t in heads):
                return ("derives_secret", src_of([], flow), "secret flow (%s) into plain data `%s` whose formatting prints its content" % (flow, text[:70]))
            return ("unknown", src_of([], flow), "secret flow (%s) into a value whose type is not syntactically evident" % flow)
        return ("derives_secret", src_of([], flow), "secret flow (%s) into plain data type `%s` whose formatting prints its content" % (flow, ty))


WRAPPERS = {"Arc", "Box", "Rc", "Some", "Ok", "Option", "Result", "Vec"}
PLAIN_DATA = {"String", "Vec", "Cow", "Bytes", "BytesMut", "Box", "Some", "Ok", "Option", "Path", "PathBuf", "OsString"}
RANK = {"opaque": 0, "redacting": 1, "derives_secret": 2, "unknown": 3}


def raw_data_type(ret):
    """does a return type (Result/Option/anyhow stripped) denote plain bytes/text?"""
    t = ret
    while True:
        r = re.fullmatch(r"(?:\w+::)*(?:Result|Option|Box|Arc|Cow)<(?:'\w+\s*,\s*)?(.*)>", t)
        if not r:
            break
        inner = split_top(r.group(1), r.group(1), 0, len(r.group(1)))
        t = r.group(1)[inner[0][0]:inner[0][1]].strip()
    t = re.sub(r"^&\s*('\w+\s+)?(mut\s+)?", "", t)
    return re.fullmatch(r"String|str|Vec<u8>|\[u8\]|Bytes|BytesMut|OsString|\[u8;\s*\w+\]|impl\b.*|[A-Z]", t) is not None


def is_error_value(expr, ty):
    e = norm(expr)
    return re.fullmatch(r"[&*]*\s*(err|e|error)", e) is not None or (ty not in (None, "_") and re.search(r"\bError\b", ty) is not None)


def match_arms(m, ob, cb):
    """arms of the match body m[ob..cb] (ob = `{`): list of (pat_start, pat_end, body_start, body_end)"""
    arms = []
    i, depth, start = ob + 1, 0, ob + 1
    while i < cb:
        ch = m[i]
        if ch in OPEN:
            depth += 1
        elif ch in CLOSE:
            depth -= 1
        elif depth == 0 and m[i:i + 2] == "=>":
            k = i + 2
            while k < cb and m[k] in " \n\t":
                k += 1
            bs = k
            if k < cb and m[k] == "{":
                k = match_close(m, k) + 1
                be = k
                while k < cb and m[k] in " \n\t":
                    k += 1
                if k < cb and m[k] == ",":
                    k += 1
            else:
                d2 = 0
                while k < cb:
                    if m[k] in OPEN:
                        d2 += 1
                    elif m[k] in CLOSE:
                        d2 -= 1
                    elif m[k] == "," and d2 == 0:
                        break
                    k += 1
                be = k
                if k < cb:
                    k += 1
            arms.append((start, i, bs, be))
            i = k
            start = k
            continue
        i += 1
    return arms


def src_of(sec, flow):
    t = " ".join(sec) + " " + (flow or "")
    pw = "Password" in t or "password" in t
    key = re.search(r"Priv|Item|ClientConfig|TlsStream|key|reads a file|pem|cert", t) is not None
    if pw and not key:
        return "password"
    if key and not pw:
        return "clientKey"
    return "any"


def mask_expr(e):
    try:
        return mask(e)
    except Fail:
        return e


# ----------------------------------------------------------------------------------------------------------
# format strings
def parse_format(lit):
    """lit = contents of a string literal; -> list of (argref, spec): argref is '' (next positional), a number or a name"""
    out = []
    i = 0
    while i < len(lit):
        if lit.startswith("{{", i) or lit.startswith("}}", i):
            i += 2
        elif lit[i] == "{":
            j = lit.find("}", i)
            if j < 0:
                raise Fail("bad format string")
            inner = lit[i + 1:j]
            arg, _, spec = inner.partition(":")
            out.append((arg.strip(), spec))
            i = j + 1
        else:
            i += 1
    return out


def mode_of_spec(spec):
    return "debug" if "?" in spec else "display"


class Entry:
    def __init__(self, file, line, line2, func, kind, level, macro):
        self.file, self.line, self.line2, self.func, self.kind, self.level, self.macro = file, line, line2, func, kind, level, macro
        self.fields = []   # (name, type, fmt, src, evidence, in_message)


def string_literal_at(f, a, b):
    """if src[a:b] (stripped) is exactly one string literal return its contents else None"""
    t = f.src[a:b].strip()
    mm = re.fullmatch(r'(?:r(#*)"(.*)"\1|"((?:[^"\\]|\\.)*)")', t, re.S)
    if not mm:
        return None
    return mm.group(2) if mm.group(2) is not None else mm.group(3)


def build(world):
    entries = []
    for f in world.files:
        m, s = f.m, f.src
        # ---- fail-closed checks on ways of logging we do not translate
        for x in re.finditer(r"\buse\s+tracing\b|\blog::|\btracing::(?!instrument\b|trace!|debug!|info!|warn!|error!)\w+", m):
            raise Fail("%s:%d: untranslated logging construct `%s`" % (f.rel, line_of(s, x.start()), m[x.start():x.end() + 10].strip()))
        for x in re.finditer(r"(?<![:\w])(trace|debug|info|warn|error|event|span|trace_span|debug_span|info_span|warn_span|error_span)!\s*[(\[{]", m):
            raise Fail("%s:%d: unqualified logging macro" % (f.rel, line_of(s, x.start())))
        for x in re.finditer(r"#\[\s*(?!tracing::)(\w+::)*instrument\b", m):
            raise Fail("%s:%d: unqualified instrument attribute" % (f.rel, line_of(s, x.start())))

        # ---- instrument attributes
        for x in re.finditer(r"#\[\s*tracing::instrument\b", m):
            lb = m.index("[", x.start())
            re_ = match_close(m, lb)
            inner = m[x.end():re_].strip()
            # the function this attribute is attached to
            k = re_ + 1
            while True:
                mm = re.match(r"\s*(#\[)", m[k:])
                if mm:
                    k = match_close(m, k + mm.start(1) + 1) + 1
                    continue
                mm = re.match(r"\s*(pub\s*\([^)]*\)|(pub|async|const|unsafe|extern|default)\b)", m[k:])
                if mm:
                    k += mm.end()
                    continue
                break
            mm = re.match(r"\s*fn\s+(\w+)", m[k:])
            fn = None
            if mm:
                pos = k + mm.start() + len(mm.group(0)) - len(mm.group(0).lstrip())
                for g in f.fns:
                    if g.pos == k + re.match(r"\s*", m[k:]).end():
                        fn = g
            line = line_of(s, x.start())
            if fn is None:
                e = Entry(f.rel, line, line, "?", "instrument", "info", "instrument")
                e.fields.append(("<attribute>", "?", "unknown", "any", "instrument attribute not followed by a parsable fn", False))
                entries.append(e)
                continue
            e = Entry(f.rel, line, line_of(s, fn.pos), fn.qual(), "instrument", "info", "instrument")
            skip, skip_all, extra, bad = set(), False, [], []
            if inner:
                if not (inner.startswith("(") and match_close(m, x.end() + (len(m[x.end():re_]) - len(m[x.end():re_].lstrip()))) == re_ - 1 - (len(m[x.end():re_]) - len(m[x.end():re_].rstrip()))):
                    bad.append("attribute arguments not parenthesised")
                else:
                    a0 = m.index("(", x.end())
                    for (a, b) in split_top(m, s, a0 + 1, match_close(m, a0)):
                        arg = m[a:b].strip()
                        if arg == "skip_all":
                            skip_all = True
                        elif re.match(r"skip\s*\(", arg):
                            skip |= {w.strip() for w in arg[arg.index("(") + 1:arg.rindex(")")].split(",") if w.strip()}
                        elif re.match(r"level\s*=", arg):
                            lit = string_literal_at(f, a + arg.index("=") + 1 + (len(m[a:b]) - len(m[a:b].lstrip())), b)
                            lv = (lit or "").lower()
                            mm2 = re.search(r"Level::(\w+)", arg)
                            if mm2:
                                lv = mm2.group(1).lower()
                            if lv in LEVELS:
                                e.level = lv
                            else:
                                bad.append("level not understood: " + arg)
                        elif re.match(r"fields\s*\(", arg):
                            a1 = a + m[a:b].index("(")
                            for (c, d) in split_top(m, s, a1 + 1, match_close(m, a1)):
                                extra.append((c, d))
                        elif re.fullmatch(r"ret(\s*\(\s*(Debug|Display)\s*\))?", arg) or re.match(r"ret\s*\(\s*level", arg):
                            mode = "display" if "Display" in arg else "debug"
                            cl = world.classify(fn, "return", "", fn.ret, mode)
                            # the returned value: flow = function result is secret-carrying
                            if fn.ret_secret and cl[0] == "opaque" and cl[2] == "no-secret-flow":
                                cl = ("derives_secret", "any", "returned value is secret-carrying (%s) and recorded by `ret`" % fn.ret_secret)
                            e.fields.append(("return", fn.ret, cl[0], cl[1], cl[2], False))
                        elif re.fullmatch(r"err(\s*\(\s*(Debug|Display)\s*\))?", arg) or re.match(r"err\s*\(\s*level", arg):
                            e.fields.append(("error", fn.ret, "unknown", "any", "`err` records the error value; error types are not analysed", False))
                        elif re.match(r"(name|target)\s*=", arg) and string_literal_at(f, a + m[a:b].index("=") + 1, b) is not None:
                            pass
                        else:
                            bad.append("argument not understood: " + norm(arg))
            for bmsg in bad:
                e.fields.append(("<attribute>", "?", "unknown", "any", bmsg, False))
            names = set()
            for (pat, ty, is_self) in fn.params:
                names |= {"self"} if is_self else lower_idents(pat)
            for sk in skip:
                if sk not in names:
                    e.fields.append(("<attribute>", "?", "unknown", "any", "skip(%s) names no parameter" % sk, False))
            if not skip_all:
                for (pat, ty, is_self) in fn.params:
                    if is_self:
                        if "self" in skip:
                            continue
                        t = fn.types["self"]
                        cl = world.classify(fn, "self", "self", t, "debug")
                        e.fields.append(("self", t, cl[0], cl[1], cl[2], False))
                    elif re.fullmatch(r"\w+", pat):
                        if pat in skip or pat == "_":
                            continue
                        cl = world.classify(fn, pat, pat, ty, "debug")
                        e.fields.append((pat, ty, cl[0], cl[1], cl[2], False))
                    else:
                        # destructuring pattern: tracing records each bound identifier
                        for n in sorted(lower_idents(pat)):
                            if n in skip:
                                continue
                            cl = world.classify(fn, n, n, ty, "debug")
                            if cl[2] == "no-secret-flow":
                                e.fields.append((n, ty, cl[0], cl[1], cl[2], False))
                            else:
                                e.fields.append((n, ty, "unknown", cl[1], "destructured parameter of secret-carrying type", False))
            for (c, d) in extra:
                e.fields.append(parse_field(world, f, fn, c, d, instrument=True))
            entries.append(e)

        # ---- event macros and error-text macros
        for x in re.finditer(r"\b(?:(tracing)::(trace|debug|info|warn|error)|(?:anyhow::)?(%s))!\s*([(\[{])" % "|".join(ERRTEXT_MACROS), m):
            ob = x.end() - 1
            cb = match_close(m, ob)
            fn = f.fn_at(x.start())
            is_event = x.group(1) is not None
            macro = x.group(2) if is_event else x.group(3)
            e = Entry(f.rel, line_of(s, x.start()), line_of(s, cb), fn.qual() if fn else "<item>",
                      "event" if is_event else "errtext", x.group(2) if is_event else "error", macro)
            args = split_top(m, s, ob + 1, cb)
            idx = 0
            if not is_event and macro in ("write", "writeln") and args:
                idx = 1   # destination
            if not is_event and macro in ("ensure", "assert", "debug_assert") and args:
                idx = 1   # condition (a bool)
            if not is_event and macro in ("assert_eq", "assert_ne", "debug_assert_eq", "debug_assert_ne"):
                # both operands are printed with Debug on failure
                for (a, b) in args[:2]:
                    e.fields.append(record(world, fn, norm(s[a:b]), s[a:b], "debug", False))
                idx = 2
            # named fields before the message (events only)
            while is_event and idx < len(args):
                a, b = args[idx]
                if string_literal_at(f, a, b) is not None:
                    break
                t = m[a:b].strip()
                if re.match(r"(target|parent|name)\s*:", t):
                    idx += 1
                    continue
                e.fields.append(parse_field(world, f, fn, a, b, instrument=False))
                idx += 1
            if idx < len(args):
                a, b = args[idx]
                lit = string_literal_at(f, a, b)
                if lit is None:
                    # a non-literal first argument (e.g. `anyhow!(err)`, `panic!(msg)`): its Display is the text
                    e.fields.append(record(world, fn, norm(s[a:b]), s[a:b], "display", True))
                    rest = args[idx + 1:]
                    for (c, d) in rest:
                        e.fields.append(record(world, fn, norm(s[c:d]), s[c:d], "display", True))
                else:
                    rest = args[idx + 1:]
                    pos_args, named = [], {}
                    for (c, d) in rest:
                        t = m[c:d].strip()
                        mm = re.match(r"(\w+)\s*=(?!=)", t)
                        if mm:
                            named[mm.group(1)] = s[c:d].split("=", 1)[1]
                        else:
                            pos_args.append(s[c:d])
                    used, nxt = set(), 0
                    try:
                        refs = parse_format(lit)
                    except Fail:
                        refs = None
                        e.fields.append(("<format>", "?", "unknown", "any", "format string not understood", True))
                    for (arg, spec) in (refs or []):
                        mode = mode_of_spec(spec)
                        if arg == "":
                            if nxt < len(pos_args):
                                ex = pos_args[nxt]; used.add(nxt); nxt += 1
                            else:
                                e.fields.append(("<format>", "?", "unknown", "any", "positional placeholder without argument", True)); continue
                        elif arg.isdigit():
                            if int(arg) < len(pos_args):
                                ex = pos_args[int(arg)]; used.add(int(arg))
                            else:
                                e.fields.append(("<format>", "?", "unknown", "any", "positional index out of range", True)); continue
                        elif arg in named:
                            ex = named[arg]
                        else:
                            ex = arg   # inline captured identifier
                        e.fields.append(record(world, fn, norm(ex), ex, mode, True))
                        # width/precision arguments `{:>w$}` are numbers taken from arguments as well
                        for wname in re.findall(r"(\w+)\$", spec):
                            e.fields.append(record(world, fn, wname, wname, "display", True))
                    for i2, ex in enumerate(pos_args):
                        if i2 not in used:
                            e.fields.append(record(world, fn, norm(ex), ex, "display", True))
            entries.append(e)

        # ---- thiserror attributes: the Display text of the error value
        for x in re.finditer(r"#\[\s*error\s*\(", m):
            ob = x.end() - 1
            cb = match_close(m, ob)
            k = m.index("]", cb) + 1
            while True:
                mm = re.match(r"\s*#\[", m[k:])
                if mm:
                    k = match_close(m, k + mm.end() - 1) + 1
                    continue
                break
            mm = re.match(r"\s*(pub(\s*\([^)]*\))?\s+)?((struct|enum)\s+)?(\w+)\s*", m[k:])
            if not mm:
                raise Fail("%s:%d: #[error] attribute not followed by a variant" % (f.rel, line_of(s, x.start())))
            name = mm.group(5)
            e = Entry(f.rel, line_of(s, x.start()), line_of(s, k + mm.end()), name, "errtext", "error", "thiserror")
            j = k + mm.end()
            if mm.group(4) == "enum":
                pass  # enum-level message: fields are those of the variants, listed below from the variants' own text
            if j < len(m) and m[j] in "({" and mm.group(4) != "enum":
                ce = match_close(m, j)
                for idx2, (a, b) in enumerate(split_top(m, s, j + 1, ce)):
                    t = norm(re.sub(r"#\[[^\]]*\]", "", m[a:b]))
                    t = re.sub(r"^pub(\([^)]*\))?\s+", "", t)
                    if m[j] == "{":
                        pm = re.match(r"(\w+)\s*:\s*(.*)$", t, re.S)
                        fname, fty = (pm.group(1), norm(pm.group(2))) if pm else ("?", t)
                    else:
                        fname, fty = str(idx2), t
                    sec = world.type_secret(fty)
                    if sec:
                        w = max((world.secret_types[z] for z in sec), key=lambda z: RANK[z[0]])
                        # Display of an error field: only Debug was inspected -> unknown
                        e.fields.append((fname, fty, "unknown", src_of(sec, None), "error field of secret-carrying type %s (%s)" % (sec[0], w[1]), True))
                    else:
                        e.fields.append((fname, fty, "opaque", "any", "no-secret-flow", True))
            elif mm.group(4) == "enum":
                ce = match_close(m, m.index("{", j))
                body = m[j:ce]
                sec = world.type_secret(body)
                if sec:
                    e.fields.append(("*", "enum " + name, "unknown", src_of(sec, None), "error enum mentions secret-carrying type %s" % sec[0], True))
            entries.append(e)
    entries.sort(key=lambda e: (e.file, e.line, e.kind))
    return entries


def record(world, fn, name, expr, mode, in_msg):
    ty = world.field_type(fn, expr)
    cl = world.classify(fn, name, expr, ty, mode)
    return (name[:60], ty, cl[0], cl[1], cl[2], in_msg)


def parse_field(world, f, fn, a, b, instrument):
    """one `fields(...)` / event field:  ?x  %x  x  name = ?e  name = %e  name = e  (name may be dotted)"""
    m, s = f.m, f.src
    t = s[a:b].strip()
    tm = m[a:b].strip()
    mm = re.match(r"([A-Za-z_][\w.]*|\"[^\"]*\")\s*=(?!=)\s*(.*)$", tm, re.S)
    if mm:
        name = mm.group(1)
        off = tm.index("=") + 1
        ex = t[off:].strip()
    else:
        name, ex = None, t
    mode = "value"
    if ex.startswith("?"):
        mode, ex = "debug", ex[1:].strip()
    elif ex.startswith("%"):
        mode, ex = "display", ex[1:].strip()
    if name is None:
        if not re.fullmatch(r"[A-Za-z_][\w.]*", ex):
            return (norm(t)[:60], "?", "unknown", "any", "field syntax not understood", False)
        name = ex
    if ex == "" or ex == "tracing::field::Empty":
        return (name, "()", "opaque", "any", "no-secret-flow", False)
    ty = world.field_type(fn, ex)
    cl = world.classify(fn, name, ex, ty, "debug" if mode == "debug" else mode)
    return (norm(name)[:60], ty, cl[0], cl[1], cl[2], False)


# ----------------------------------------------------------------------------------------------------------
def portable(t):
    t = t.replace(CARGO_HOME, "~/.cargo")
    return re.sub(r"registry/src/[^/]+/", "registry/src/*/", t)


def lean_str(x):
    out = ['"']
    for ch in x:
        if ch == '"':
            out.append('\\"')
        elif ch == "\\":
            out.append("\\\\")
        elif ch == "\n":
            out.append("\\n")
        elif ord(ch) < 32 or ord(ch) > 126:
            out.append("?")
        else:
            out.append(ch)
    out.append('"')
    return "".join(out)


FMT_LEAN = {"redacting": ".redacting", "opaque": ".opaque", "derives_secret": ".derivesSecret", "unknown": ".unknown"}
KIND_LEAN = {"instrument": ".instrument", "event": ".event", "errtext": ".errtext"}
LVL_LEAN = {l: "." + l for l in LEVELS}
SRC_LEAN = {"password": ".password", "clientKey": ".clientKey", "any": ".any"}


def emit(world, entries):
    L = []
    L.append("/- GENERATED by tools/logtable.py from the Rust sources (netconf/src, junos-agent/src) — DO NOT EDIT.")
    L.append("   Regenerated by `./check C20` (pre_lean) on every run; Thm/C20.lean is re-checked against it. -/")
    L.append("import Bgpfu.Model.LogTable")
    L.append("namespace LogTableGen")
    L.append("open LogTable")
    L.append("")
    L.append("/-- formatter evidence for the secret-carrying types (what the translator verified, and where) -/")
    L.append("def evidence : List (String × Formatter × String) := [")
    ev = sorted(world.secret_types.items())
    for i, (k, (fmt, why)) in enumerate(ev):
        L.append("  (%s, %s, %s)%s" % (lean_str(k), FMT_LEAN[fmt], lean_str(portable(why)), "," if i + 1 < len(ev) else ""))
    L.append("]")
    L.append("")
    L.append("def table : Table := [")
    for i, e in enumerate(entries):
        fs = []
        for (name, ty, fmt, src, why, inmsg) in e.fields:
            fs.append("{ name := %s, ty := %s, fmt := %s, src := %s, inMessage := %s, why := %s }" % (
                lean_str(name), lean_str(ty or "?"), FMT_LEAN[fmt], SRC_LEAN[src], "true" if inmsg else "false",
                lean_str(portable(why))))
        L.append("  { file := %s, line := %d, lineEnd := %d, func := %s, kind := %s, level := %s, mac := %s," % (
            lean_str(e.file), e.line, e.line2, lean_str(e.func), KIND_LEAN[e.kind], LVL_LEAN[e.level], lean_str(e.macro)))
        if fs:
            L.append("    fields := [")
            L.append(",\n".join("      " + x for x in fs))
            L.append("    ] }%s" % ("," if i + 1 < len(entries) else ""))
        else:
            L.append("    fields := [] }%s" % ("," if i + 1 < len(entries) else ""))
    L.append("]")
    L.append("")
    L.append("end LogTableGen")
    return "\n".join(L) + "\n"


def summary(entries):
    from collections import Counter
    kinds = Counter(e.kind for e in entries)
    fm = Counter(fl[2] for e in entries for fl in e.fields)
    flows = [(e, fl) for e in entries for fl in e.fields if not fl[4].startswith("no-secret-flow")]
    lines = ["entries: %d (%s); fields: %d (%s)" % (len(entries), ", ".join("%s %d" % kv for kv in sorted(kinds.items())),
                                                  sum(fm.values()), ", ".join("%s %d" % kv for kv in sorted(fm.items())))]
    for e, fl in flows:
        lines.append("  secret-flow field %s:%d %s [%s/%s] %s : %s -> %s (%s) — %s" % (e.file, e.line, e.func, e.kind, e.level, fl[0], fl[1], fl[2], fl[3], fl[4]))
    return lines


def main():
    try:
        world = World()
        world.analyse()
        entries = build(world)
        n_instr = sum(len(re.findall(r"#\[\s*tracing::instrument\b", f.m)) for f in world.files)
        n_ev = sum(len(re.findall(r"\btracing::(trace|debug|info|warn|error)!", f.m)) for f in world.files)
        if sum(1 for e in entries if e.kind == "instrument") != n_instr or sum(1 for e in entries if e.kind == "event") != n_ev:
            raise Fail("entry count does not match the number of logging constructs in the source")
        if n_instr == 0 or n_ev == 0:
            raise Fail("no logging constructs found — wrong LOGTABLE_ROOT?")
        text = emit(world, entries)
    except Fail as ex:
        print("logtable: FAILED: %s" % ex, file=sys.stderr)
        sys.exit(1)
    out = os.path.abspath(OUT)
    old = open(out).read() if os.path.exists(out) else None
    if old != text:
        with open(out, "w") as fh:
            fh.write(text)
    for l in summary(entries):
        print(l)
    if "-v" in sys.argv:
        for f in world.files:
            for fn in f.fns:
                if fn.tainted or fn.ret_secret:
                    print("taint %s %s: %s ret=%s" % (f.rel, fn.qual(), fn.tainted, fn.ret_secret))
    print("wrote %s%s" % (out, "" if old != text else " (unchanged)"))


if __name__ == "__main__":
    main()
