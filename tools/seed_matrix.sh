#!/bin/sh
# tools/seed_matrix.sh [names…] — for every seeded change (default: all of seeded/*): apply it to /repo, run the
# check of ITS OWN property (quick tier), revert; one line per change into seeded/MATRIX.txt.
# `@<commit>` is the /repo commit the change was applied to for that run.
# A line `… own-check=MISSED` means the property's own check no longer catches that change.
cd "$(dirname "$0")/.."
OUT=seeded/MATRIX.txt
[ $# -eq 0 ] && : > $OUT
for d in ${*:-$(ls seeded | grep -v MATRIX)}; do
  if grep -q "\"status\": \"superseded\"" seeded/$d/meta.json 2>/dev/null; then echo "$d own-check=superseded (see meta.json)" | tee -a $OUT; continue; fi
  P=$(echo $d | cut -c1-3)
  T=$(python3 -c "import json,sys; print(json.load(open('seeded/$d/meta.json')).get('tier','quick'))" 2>/dev/null || echo quick)
  R=$(TIER=$T tools/try_patch.sh seeded/$d/patch.diff $P 2>&1 | grep -E "^VIOLATION|->" | tr '\n' ' ' | cut -c1-260)
  case "$R" in
    *"-> VIOLATION"*) V=caught ;;
    *) V=MISSED ;;
  esac
  echo "$d own-check=$V @$(git -C /repo rev-parse --short HEAD) :: $R" | tee -a $OUT
done
