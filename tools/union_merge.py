#!/usr/bin/env python3
"""Resolve registry-file merge conflicts by keeping both sides (ours first). For props.py the
closing `}` of PROPS is re-placed at the end."""
import sys, re
for p in sys.argv[1:]:
    s = open(p).read()
    out = re.sub(r"<<<<<<< [^\n]*\n(.*?)=======\n(.*?)>>>>>>> [^\n]*\n", lambda m: m.group(1) + m.group(2), s, flags=re.S)
    if p.endswith("props.py"):
        # remove stray closing braces of PROPS in the middle, ensure exactly one at the end
        lines = out.rstrip("\n").split("\n")
        body = [l for l in lines if l != "}"]
        out = "\n".join(body) + "\n}\n"
    open(p, "w").write(out)
