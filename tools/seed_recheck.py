#!/usr/bin/env python3
"""tools/seed_recheck.py <seeded-name> [check ids…] — re-run our checks against a filed seeded change
(apply to /repo, check, revert: tools/try_patch.sh) and refresh check_output / detected in its meta.json."""
import json, subprocess, sys, os
ROOT = os.path.dirname(os.path.dirname(os.path.abspath(__file__)))
name = sys.argv[1]
mp = os.path.join(ROOT, "seeded", name, "meta.json")
meta = json.load(open(mp))
checks = sys.argv[2:] or meta["checks_run"]
res = subprocess.run([os.path.join(ROOT, "tools/try_patch.sh"), os.path.join(ROOT, "seeded", name, "patch.diff")] + checks,
                     stdout=subprocess.PIPE, stderr=subprocess.STDOUT, text=True, cwd=ROOT).stdout
print(res, end="")
meta["checks_run"] = checks
meta["check_output"] = res.splitlines()
meta["detected"] = any(l.startswith("VIOLATION") for l in res.splitlines())
json.dump(meta, open(mp, "w"), indent=1)
