import Bgpfu.Lemmas.Irr
/-!
History independence of `evaluate` and the reduction of `evaluateAll` (all candidates on one
evaluator) to the candidates' outcomes on fresh evaluators.  Used by C15 and C17.
-/
namespace Irr
open Rpsl

theorem beginEval_of_clean (st : Ev) (h : Clean st) : beginEval st = Ev.fresh := by
  obtain ⟨c, hc, hu⟩ := h
  cases c with
  | mk u n =>
    simp only at hu
    subst hu
    simp [beginEval, hc, Ev.fresh]

/-- an evaluation started on a clean evaluator is the evaluation on a fresh evaluator: outcome,
queries written, responses consumed and final state are all the same -/
theorem evaluate_clean_eq_fresh (cfg : Cfg) (db : Db) (fuel : Nat) (e : Expr) (f : Faults) (st : Ev)
    (h : Clean st) : evaluate cfg db fuel e f st = evaluate cfg db fuel e f Ev.fresh := by
  have h2 : beginEval Ev.fresh = Ev.fresh := beginEval_of_clean _ ⟨_, rfl, rfl⟩
  unfold evaluate
  rw [beginEval_of_clean st h, h2]

theorem fresh_clean : Clean Ev.fresh := ⟨_, rfl, rfl⟩

theorem evalSeq_clean (cfg : Cfg) (db : Db) (fuel : Nat) (h : List (Expr × Faults)) (st : Ev)
    (hst : Clean st) : Clean (evalSeq cfg db fuel h st).2 := by
  induction h generalizing st with
  | nil => exact hst
  | cons x h ih =>
    obtain ⟨e, f⟩ := x
    have := (evaluate_inv cfg db fuel e f st hst).1
    rcases he : evaluate cfg db fuel e f st with ⟨o, st', ev⟩
    rw [he] at this
    simp only [evalSeq, he]
    exact ih st' this

/-- what a candidate's `Evaluated.ranges` is, given the outcome of evaluating its expression -/
def candOut : Outcome PSet → Option Parts
  | .ok s => some (partition s)
  | _ => none

def RunOutcome.cons (x : String × Option Parts) : RunOutcome → RunOutcome
  | .done outs => .done (x :: outs)
  | r => r

/-- `Policies<Candidate>::evaluate` as a function of the candidates' individual outcomes -/
def runSpec (cfg : Cfg) : List (String × Outcome PSet) → RunOutcome
  | [] => .done []
  | (n, o) :: rest =>
    match o with
    | .ok s => (runSpec cfg rest).cons (n, some (partition s))
    | .err _ => (runSpec cfg rest).cons (n, none)
    | .panic k => if cfg.catchPanic then (runSpec cfg rest).cons (n, none) else .abort k
    | .diverge => .diverge

/-- a candidate's outcome when it is evaluated alone, on a fresh evaluator -/
def solo (cfg : Cfg) (db : Db) (fuel : Nat) (c : String × Expr × Faults) : Outcome PSet :=
  (evaluate cfg db fuel c.2.1 c.2.2 Ev.fresh).1

/-- **isolation**: the run over a list of candidates is determined by their solo outcomes -/
theorem evaluateAll_eq (cfg : Cfg) (db : Db) (fuel : Nat) (l : List (String × Expr × Faults)) (st : Ev)
    (hst : Clean st) :
    (evaluateAll cfg db fuel l st).1 = runSpec cfg (l.map fun c => (c.1, solo cfg db fuel c)) := by
  induction l generalizing st with
  | nil => rfl
  | cons c l ih =>
    obtain ⟨n, e, f⟩ := c
    have hfresh := evaluate_clean_eq_fresh cfg db fuel e f st hst
    have hclean := (evaluate_inv cfg db fuel e f st hst).1
    rcases he : evaluate cfg db fuel e f st with ⟨o, st', ev⟩
    rw [he] at hclean
    have hsolo : solo cfg db fuel (n, e, f) = o := by
      unfold solo; rw [← hfresh, he]
    have ih' := ih st' hclean
    simp only [evaluateAll, he, List.map_cons, runSpec, hsolo]
    rcases hr : evaluateAll cfg db fuel l st' with ⟨r, st'', ev'⟩
    rw [hr] at ih'
    simp only at ih'
    cases o with
    | ok s => simp only; rw [← ih']; cases r <;> rfl
    | err k => simp only; rw [← ih']; cases r <;> rfl
    | panic k =>
      simp only
      by_cases hc : cfg.catchPanic
      · simp only [hc, if_true]; rw [← ih']; cases r <;> rfl
      · simp only [hc]; rfl
    | diverge => rfl

theorem evaluateAll_clean (cfg : Cfg) (db : Db) (fuel : Nat) (l : List (String × Expr × Faults)) (st : Ev)
    (hst : Clean st) : Clean (evaluateAll cfg db fuel l st).2.1 := by
  induction l generalizing st with
  | nil => exact hst
  | cons c l ih =>
    obtain ⟨n, e, f⟩ := c
    have hclean := (evaluate_inv cfg db fuel e f st hst).1
    rcases he : evaluate cfg db fuel e f st with ⟨o, st', ev⟩
    rw [he] at hclean
    have ih' := ih st' hclean
    simp only [evaluateAll, he]
    rcases hr : evaluateAll cfg db fuel l st' with ⟨r, st'', ev'⟩
    rw [hr] at ih'
    cases o with
    | ok s => cases r <;> exact ih'
    | err k => cases r <;> exact ih'
    | panic k =>
      by_cases hc : cfg.catchPanic
      · simp only [hc, if_true]; cases r <;> exact ih'
      · simp only [hc]; exact hclean
    | diverge => exact hclean

theorem runSpec_done (cfg : Cfg) (l : List (String × Outcome PSet))
    (hp : ∀ x ∈ l, ∀ k, x.2 = .panic k → cfg.catchPanic = true) (hd : ∀ x ∈ l, x.2 ≠ .diverge) :
    runSpec cfg l = .done (l.map fun x => (x.1, candOut x.2)) := by
  induction l with
  | nil => rfl
  | cons x l ih =>
    obtain ⟨n, o⟩ := x
    have ih' := ih (fun y hy => hp y (List.mem_cons_of_mem _ hy)) (fun y hy => hd y (List.mem_cons_of_mem _ hy))
    cases o with
    | ok s => simp [runSpec, ih', RunOutcome.cons, candOut]
    | err e => simp [runSpec, ih', RunOutcome.cons, candOut]
    | panic k =>
      have := hp (n, .panic k) (by simp) k rfl
      simp [runSpec, ih', RunOutcome.cons, candOut, this]
    | diverge => exact absurd rfl (hd (n, .diverge) (by simp))

theorem runSpec_of_done (cfg : Cfg) (l : List (String × Outcome PSet)) (outs : List (String × Option Parts))
    (h : runSpec cfg l = .done outs) : outs = l.map fun x => (x.1, candOut x.2) := by
  induction l generalizing outs with
  | nil => simp [runSpec] at h; simp [h]
  | cons x l ih =>
    obtain ⟨n, o⟩ := x
    have step : ∀ r, (runSpec cfg l).cons (n, r) = .done outs →
        outs = (n, r) :: l.map fun x => (x.1, candOut x.2) := by
      intro r hr
      cases hl : runSpec cfg l with
      | done outs' =>
        rw [hl] at hr
        simp only [RunOutcome.cons, RunOutcome.done.injEq] at hr
        rw [← hr, ih outs' hl]
      | abort k => rw [hl] at hr; simp [RunOutcome.cons] at hr
      | diverge => rw [hl] at hr; simp [RunOutcome.cons] at hr
    cases o with
    | ok s => exact step _ h
    | err e => exact step _ h
    | panic k =>
      simp only [runSpec] at h
      by_cases hc : cfg.catchPanic
      · simp only [hc, if_true] at h; exact step _ h
      · simp [hc] at h
    | diverge => simp [runSpec] at h

end Irr
