import Bgpfu.Lemmas.Session
/-! Consequences of the session invariant: what single polls do, progress of fair rounds (C05
`all_complete`, C07 `close_fails_all`, C14 `others_still_delivered`, C18). Core Lean only. -/
namespace Session

theorem eq_of_map_nodup {α β} (f : α → β) {l : List α} (h : (l.map f).Nodup) {a b : α} (ha : a ∈ l) (hb : b ∈ l)
    (he : f a = f b) : a = b := by
  induction l with
  | nil => cases ha
  | cons x xs ih =>
    simp only [List.map_cons, List.nodup_cons, List.mem_map, not_exists, not_and] at h
    simp only [List.mem_cons] at ha hb
    rcases ha with rfl | ha <;> rcases hb with rfl | hb
    · rfl
    · exact absurd he.symm (h.1 b hb)
    · exact absurd he (h.1 a ha)
    · exact ih h.2 ha hb

theorem nodup_of_pairwise_lt {l : List Nat} (h : l.Pairwise (· < ·)) : l.Nodup :=
  h.imp (fun hab => Nat.ne_of_lt hab)

theorem Inv.find {s : St} (h : Inv s) {fu : Fut} (hm : fu ∈ s.futs) : findFut s.futs fu.fid = some fu :=
  findFut_of_mem h.1.fidNodup hm

theorem Inv.idNodup {s : St} (h : Inv s) : (s.futs.map (·.id)).Nodup := by
  rw [h.1.idsSent]; exact nodup_of_pairwise_lt h.1.sentInc

/-- different futures have different message-ids -/
theorem Inv.id_inj {s : St} (h : Inv s) {g g' : Fid} {fu fu' : Fut} (hg : findFut s.futs g = some fu)
    (hg' : findFut s.futs g' = some fu') (he : fu.id = fu'.id) : g = g' := by
  have := eq_of_map_nodup (·.id) h.idNodup (findFut_mem hg) (findFut_mem hg') he
  rw [← findFut_fid hg, ← findFut_fid hg', this]

theorem releaseRx_eq (s : St) : s.releaseRx = { s with rxOwner := s.rxQueue.head?, rxQueue := s.rxQueue.tail } := by
  unfold St.releaseRx
  split <;> simp [*]

/-! ## a poll that takes a bad message off the transport -/

/-- future `fu` (with fid `f`) reads from the transport when it is polled next -/
def Reads (s : St) (f : Fid) (fu : Fut) : Prop :=
  fu.pc = .reading ∨
  (fu.pc = .waitRx ∧ s.rxOwner = some f ∧ findSlot s.slots fu.id = some .pending) ∨
  (fu.pc = .start ∧ s.rxOwner = none ∧ findSlot s.slots fu.id = some .pending)

/-- the session layer cannot park message `m`: phase 1 fails, or there is no pending request with its id -/
def Bad (s : St) (m : Msg) : Prop := m.id = none ∨ ∃ mid, m.id = some mid ∧ findSlot s.slots mid ≠ some .pending

theorem iter_bad {s : St} {f : Fid} {id : Nat} {atRead : Bool} {m : Msg} {rest : List Msg} (las : s.lockAcrossSend = false)
    (hr : atRead = true ∨ findSlot s.slots id = some .pending) (hi : s.inbox = m :: rest) (hb : Bad s m) :
    s.iter f id atRead = .stop (({ s with inbox := rest, lost := s.lost ++ [m] }).finish f .err) := by
  apply iter_elim (motive := fun it => it = _) s f id atRead las
  · intro h1 h2; rcases hr with hr | hr <;> simp_all
  · intro m' h1 h2; rcases hr with hr | hr <;> simp_all
  · intro _ h; simp [hi] at h
  · intro _ h; simp [hi] at h
  · intro m' rest' _ hi' _
    rw [hi] at hi'; cases hi'; rfl
  · intro m' rest' mid _ hi' _ _
    rw [hi] at hi'; cases hi'; rfl
  · intro m' rest' mid _ hi' hm hs _
    rw [hi] at hi'; cases hi'
    rcases hb with hb | ⟨mid', hb1, hb2⟩
    · simp [hb] at hm
    · rw [hm] at hb1; cases hb1; exact absurd hs hb2
  · intro m' rest' mid _ hi' hm hs _
    rw [hi] at hi'; cases hi'
    rcases hb with hb | ⟨mid', hb1, hb2⟩
    · simp [hb] at hm
    · rw [hm] at hb1; cases hb1; exact absurd hs hb2

theorem poll_bad_msg {s : St} {f : Fid} {fu : Fut} {m : Msg} {rest : List Msg} (h : Inv s)
    (hf : findFut s.futs f = some fu) (hr : Reads s f fu) (hi : s.inbox = m :: rest) (hb : Bad s m) :
    s.poll f = { s with inbox := rest, lost := s.lost ++ [m], futs := setPc f (.done .err) s.futs,
                        rxOwner := s.rxQueue.head?, rxQueue := s.rxQueue.tail } := by
  have las := h.1.las
  have hfuel : s.inbox.length + 2 = (s.inbox.length + 1) + 1 := rfl
  unfold St.poll
  rw [St.fut_eq, hf]
  dsimp only
  rcases hr with hr | ⟨hr, ho, hs⟩ | ⟨hr, ho, hs⟩
  · have ho := (h.2.readOk f fu hf (by simp) hr).1
    rw [hr]; dsimp only
    rw [hfuel, runHolding_succ, iter_bad las (.inl rfl) hi hb]
    simp only [St.finish, releaseRx_eq, St.withPc]
  · rw [hr]; dsimp only
    simp only [ho, beq_self_eq_true, if_true]
    rw [hfuel, runHolding_succ, iter_bad las (.inr hs) hi hb]
    simp only [St.finish, releaseRx_eq, St.withPc]
  · have hq := h.2.freeOk ho
    rw [hr]; dsimp only
    have hc : (s.rxOwner.isNone && s.rxQueue.isEmpty) = true := by simp [ho, hq]
    rw [if_pos hc]
    rw [hfuel, runHolding_succ, iter_bad (s := { s with rxOwner := some f }) las (.inr hs) hi hb]
    simp only [St.finish, releaseRx_eq, St.withPc, hq, List.head?_nil, List.tail_nil]

end Session
